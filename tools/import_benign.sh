#!/bin/bash
# import_benign.sh <NN>: copy /tmp/wt/bNN/OUT/refactor*/ into selftest/benign/cNN-k.{diff,json}
N=$1
for k in 1 2 3 4; do
  d=/tmp/wt/b$N/OUT/refactor$k
  [ -f $d/patch.diff ] || continue
  cp $d/patch.diff /verif/selftest/benign/c$N-$k.diff
  cp $d/meta.json /verif/selftest/benign/c$N-$k.json
done
ls /verif/selftest/benign | grep "^c$N-"
