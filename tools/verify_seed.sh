#!/bin/bash
# verify_seed.sh <seed-id> [worktree]: confirm in a scratch worktree that a seeded change (1) applies and builds, (2) passes the existing
# test suite, (3) its demonstration fails with the change and (4) passes without it. Writes seeded/<id>/verified.json.
SID=$1; WT=${2:-/tmp/wt/verify}
S=/verif/seeded/$SID
LOG=/tmp/verify_$SID.log
: > $LOG
if [ ! -d "$WT" ]; then git -C /repo worktree add -q --detach "$WT" HEAD >> $LOG 2>&1; fi
cd "$WT"; git checkout -q -- . ; git clean -fdq -e target
HEAD=$(git -C /repo rev-parse --short HEAD); git checkout -q --detach $HEAD 2>>$LOG
res() { python3 - "$@" <<'PY'
import json,sys
sid,applies,base,fails,passes,head=sys.argv[1:7]
json.dump({"seed_id":sid,"repo_head":head,"patch_applies":applies=="1","baseline_suite_passes_with_change":base=="1",
 "demo_fails_with_change":fails=="1","demo_passes_without_change":passes=="1",
 "ran":["git apply patch.diff","CARGO_NET_OFFLINE=true cargo test --workspace --no-fail-fast --offline","demo.sh (with change)","git checkout -- . ; demo.sh (without change)"]},
 open("/verif/seeded/%s/verified.json"%sid,"w"),indent=1)
PY
}
if ! git apply --check $S/patch.diff 2>>$LOG; then res $SID 0 0 0 0 $HEAD; echo "$SID: patch does not apply"; exit 1; fi
git apply $S/patch.diff
# leftovers of earlier runs make s3s-fs::it_aws::test_list_buckets (which lists the whole root) fail more and more often
rm -rf target/tmp/s3s-fs-tests-aws
echo "### baseline with change" >> $LOG
if CARGO_NET_OFFLINE=true cargo test --workspace --no-fail-fast --offline >> $LOG 2>&1; then BASE=1; else
  # the s3s-fs::it_aws tests race with each other under load (3 are listed as flaky in BASELINE.json; test_list_buckets also
  # fails when a sibling test deletes a bucket while it lists the root): if nothing else failed, retry that binary alone
  if grep -E "^test [A-Za-z0-9_:]+ \.\.\. FAILED" $LOG | grep -v "test_list_objects_v2\|test_single_object\|test_upload_part_copy\|test_list_buckets\|test_multipart" | grep -q FAILED; then BASE=0; else
    BASE=0
    for i in 1 2 3; do
      if CARGO_NET_OFFLINE=true cargo test -p s3s-fs --offline --test it_aws >> $LOG 2>&1; then BASE=1; break; fi
    done
  fi
fi
echo "### demo with change" >> $LOG
if $S/demo.sh "$WT" >> $LOG 2>&1; then FAILS=0; else FAILS=1; fi
git checkout -q -- . ; git clean -fdq -e target
echo "### demo without change" >> $LOG
if $S/demo.sh "$WT" >> $LOG 2>&1; then PASSES=1; else PASSES=0; fi
git checkout -q -- . ; git clean -fdq -e target
res $SID 1 $BASE $FAILS $PASSES $HEAD
echo "$SID: applies=1 baseline=$BASE demo_fails_with=$FAILS demo_passes_without=$PASSES"
