#!/usr/bin/env python3
"""Regenerates MANIFEST.json from the rule modules' META (keeps claims and checks in sync)."""
import importlib
import json
import os
import sys

HERE = os.path.dirname(os.path.dirname(os.path.abspath(__file__)))
sys.path.insert(0, HERE)

# every property has a check now; C09 is claimed for five structural necessary conditions only (its schedule quantifier is listed as not decided)
NOT_APPLICABLE = {}
PENDING = "check not built yet (build phase in progress; see DESIGN.md section 8)"

props = [json.loads(l) for l in open(os.path.join(HERE, "properties.jsonl"))]
checks = []
na = []
for p in props:
    pid = p["id"]
    if pid in NOT_APPLICABLE:
        na.append({"property_id": pid, "reason": NOT_APPLICABLE[pid]})
        continue
    try:
        mod = importlib.import_module("s3sv.rules." + pid.lower())
    except ModuleNotFoundError:
        na.append({"property_id": pid, "reason": PENDING})
        continue
    m = mod.META
    checks.append({
        "property_id": pid,
        "quick_cmd": "./check %s --tier quick" % pid,
        "thorough_cmd": "./check %s --tier thorough" % pid,
        "evidence_file": "/verif/evidence/%s.json" % pid,
        "replay_cmd_template": "./check %s --replay {path}" % pid,
        "engine": "s3sv",
        "level_claimed": {"category": m["level"], "text": m["explanation"], "design_ref": "DESIGN.md section 3, %s" % pid},
        "level_note": "; ".join(m.get("assumptions", [])) + ". Not decided: " + "; ".join(m.get("not_decided", [])),
        "technique": m.get("technique", "static analysis over rustc MIR facts (resolved callees, CFG dominance, backward slices) compared with model/spec tables"),
    })
man = {
    "version": 1,
    "setup_cmd": "./setup.sh",
    "hooks": {"guard": "nugine_s3s_verif", "enable": "none: static analysis needs no instrumentation of /repo (no hook commits)",
              "baseline_off_cmd": "cd /repo && cargo test --workspace --no-fail-fast --offline", "source_commits": [], "add_only": True},
    "engines": [{"name": "s3sv", "path": "/verif/s3sv (rules) + /verif/drv (rustc_private fact extractor)",
                 "serves_properties": [c["property_id"] for c in checks],
                 "kind_free_text": "custom static analyser: a rustc_private driver dumps pre-transform MIR (resolved callees, types, consts, CFG) of "
                                   "/repo's working tree; Python rules decide dominance / must-pass-through / who-may-call / slice / table-agreement "
                                   "obligations against the Smithy model and spec tables. Nothing under test is executed."}],
    "checks": checks,
    "notes": "All checks re-extract facts from /repo's current working tree (cache keyed by a hash of the analysed sources). "
             "Known genuine defects are listed in /verif/known_findings.json.",
    "not_applicable": na,
}
json.dump(man, open(os.path.join(HERE, "MANIFEST.json"), "w"), indent=1)
print("checks:", [c["property_id"] for c in checks], "n/a:", [n["property_id"] for n in na])
