#!/bin/bash
# usage: tools/try_patch.sh <patch.diff> <Cxx> [Cyy ...]   applies the patch to /repo, runs the checks, reverts.
set -u
P=$(readlink -f "$1"); shift
cd /repo
if ! git apply --check "$P" 2>/dev/null; then echo "PATCH DOES NOT APPLY: $P"; exit 3; fi
git apply "$P"
trap 'cd /repo && git checkout -- . && git clean -fdq crates codegen 2>/dev/null' EXIT
cd /verif
rc=0
for c in "$@"; do
  out=$(S3SV_NO_EVIDENCE=1 ./check $c 2>&1); r=$?
  echo "== $c exit=$r"; echo "$out" | grep -v "^VIOLATION\|^s3sv: extracted" | head -${HEADN:-8}
  [ $r -ne 0 ] && rc=1
done
exit $rc
