#!/bin/bash
# try_detail.sh <patch.diff> <Cxx> [...]: like try_patch.sh but on a scratch copy of /repo (never touches /repo); prints the full messages
P=$(readlink -f "$1"); shift
S=$(mktemp -d /tmp/s3sv-try-XXXXXX)
trap 'rm -rf "$S"' EXIT
cp -r /repo/crates /repo/codegen /repo/data "$S"/ 2>/dev/null; cp /repo/Cargo.toml /repo/Cargo.lock /repo/rustfmt.toml "$S"/
rm -rf "$S"/crates/*/target
(cd "$S" && git init -q . 2>/dev/null; git apply --whitespace=nowarn "$P") || { echo "PATCH DOES NOT APPLY"; exit 3; }
cd /verif
for c in "$@"; do
  S3SV_REPO="$S" S3SV_TARGET=/verif/.cache/target-w9 S3SV_NO_EVIDENCE=1 S3SV_FACTS_SALT=try$$ ./check $c 2>&1 | grep -v "^VIOLATION\|^s3sv: extracted\|conda" | head -${HEADN:-8}
done
rm -rf /verif/.cache/facts/*-try$$
