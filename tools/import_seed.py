#!/usr/bin/env python3
"""import_seed.py <agent OUT/changeK dir> <seed id>: copies a sub-agent's change into /verif/seeded/<id>/ and writes demo.sh"""
import json, os, re, shutil, sys
src, sid = sys.argv[1], sys.argv[2]
dst = os.path.join('/verif/seeded', sid)
os.makedirs(dst, exist_ok=True)
for f in os.listdir(src):
    p = os.path.join(src, f)
    if os.path.isfile(p):
        shutil.copy(p, dst)
    elif os.path.isdir(p):
        shutil.copytree(p, os.path.join(dst, f), dirs_exist_ok=True)
howto = open(os.path.join(src, 'HOWTO.txt')).read() if os.path.exists(os.path.join(src, 'HOWTO.txt')) else ''
m = re.search(r'(?:RUST_BACKTRACE=\d\s+)?(?:CARGO_NET_OFFLINE=true\s+)?(cargo test (?:--offline )?-p [^\n#]+)', howto)
cmd = m.group(1).strip() if m else 'cargo test -p s3s --offline'
crate = re.search(r'-p (\S+)', cmd).group(1)
lines = ['#!/bin/bash', '# usage: demo.sh <worktree>   (run after optionally applying patch.diff); exit 0 = demonstration passes',
         'set -e', 'WT=$1', 'HERE=$(cd "$(dirname "$0")" && pwd)', 'cd "$WT"']
if os.path.exists(os.path.join(src, 'demo.patch')):
    lines.append('git apply "$HERE/demo.patch"')
for f in os.listdir(src):
    if f.endswith('.rs'):
        lines.append('mkdir -p crates/%s/tests && cp "$HERE/%s" crates/%s/tests/' % (crate, f, crate))
lines.append('CARGO_NET_OFFLINE=true RUST_BACKTRACE=0 ' + cmd)
open(os.path.join(dst, 'demo.sh'), 'w').write('\n'.join(lines) + '\n')
os.chmod(os.path.join(dst, 'demo.sh'), 0o755)
meta = json.load(open(os.path.join(src, 'meta.json')))
meta['seed_id'] = sid
meta['demo_cmd'] = cmd
json.dump(meta, open(os.path.join(dst, 'meta.json'), 'w'), indent=1)
print(sid, cmd)
