#!/usr/bin/env python3
"""try_variant.py <patch.diff> <Cxx> [Cyy ...]: analyse a patched scratch copy of /repo (never /repo itself) with the given checks and print
the keys that fire.  Safe to use while the matrices run."""
import json, os, sys
sys.path.insert(0, os.path.dirname(os.path.dirname(os.path.abspath(__file__))))
from s3sv import selftest
patch = os.path.abspath(sys.argv[1])
pids = [p.upper() for p in sys.argv[2:]]
rel = os.path.relpath(patch, selftest.VERIF)
os.environ.setdefault("S3SV_SELFTEST_WORKERS", "1")
r = selftest.run_variant({"kind": "patch", "patch": rel}, pids, slot=int(os.environ.get("SLOT", "9")))
if r is None:
    print("PATCH DOES NOT APPLY")
    sys.exit(3)
for p in pids:
    print("== %s: %s" % (p, "silent" if not r.get(p) else json.dumps(r[p][:6])))
sys.exit(1 if any(r.get(p) for p in pids) else 0)
