#!/usr/bin/env python3
"""mkreport.py: regenerates the generated tables of DESIGN.md section 10 (between the BEGIN/END GENERATED markers) from the files the
machinery itself maintains: evidence/*.json, known_findings.json, selftest/seed_matrix.json, selftest/benign_matrix.json, seeded/*/meta.json."""
import glob, json, os, re
V = os.path.dirname(os.path.dirname(os.path.abspath(__file__)))
out = []
out.append("### 10.6 Rules as built (from the evidence files of the last run)\n")
out.append("| property | level | rule | instances | what it decides |")
out.append("|---|---|---|---|---|")
for f in sorted(glob.glob(os.path.join(V, "evidence", "C*.json"))):
    d = json.load(open(f))
    for r, v in d["coverage"]["rules"].items():
        out.append("| %s | %s | %s | %d | %s |" % (d["property_id"], d["level"], r, v["instances"], v["text"].replace("|", "\\|")))
out.append("")
out.append("### 10.7 Genuine defects: repaired (`fix:` commits in /repo) and recorded (known findings)\n")
out.append("| property | rule instance | status | commit | what failed / failing input |")
out.append("|---|---|---|---|---|")
for k in json.load(open(os.path.join(V, "known_findings.json")))["findings"]:
    out.append("| %s | `%s` | %s | %s | %s — *%s* |" % (k["property"], k["key"], k["status"], k.get("commit", "-"), k["what"].replace("|", "\\|"),
                                                         k.get("failing_input", "").replace("|", "\\|")))
out.append("")
out.append("### 10.8 Seeded changes (sub-agents, property text only) and which checks catch them\n")
out.append("Each row is `seeded/<id>/` (patch.diff, demonstration, meta.json, verified.json). `caught by` lists every property check that fires on the "
           "patched tree and the rule that fires (tools/seed_matrix.py re-analyses all patches with all checks; the thorough tier of each listed property "
           "re-checks the patch).\n")
out.append("| seed | breaks | what the change does (one line) | caught by |")
out.append("|---|---|---|---|")
mp = os.path.join(V, "selftest", "seed_matrix.json")
matrix = json.load(open(mp)) if os.path.exists(mp) else {}
for s in sorted(matrix):
    meta = json.load(open(os.path.join(V, "seeded", s, "meta.json")))
    summ = re.split(r"(?<=[.;]) ", meta.get("summary", ""))[0][:220].replace("|", "\\|").replace("\n", " ")
    m = matrix[s]
    if m:
        cb = "; ".join("%s (%s)" % (p, ", ".join(sorted({k.split(":", 1)[0].split(".", 1)[1] for k in ks}))) for p, ks in sorted(m.items()))
    else:
        cb = "**missed**" if m is not None else "patch no longer applies"
    out.append("| %s | %s | %s | %s |" % (s, meta.get("property", ""), summ, cb))
out.append("")
out.append("### 10.9 Behaviour-preserving controls (sub-agents, property text only) - every check must stay silent\n")
bm = os.path.join(V, "selftest", "benign_matrix.json")
bmat = json.load(open(bm)) if os.path.exists(bm) else {}
out.append("| control | kind | what the refactor does (one line) | result on every check |")
out.append("|---|---|---|---|")
for s in sorted(bmat):
    mj = os.path.join(V, "selftest", "benign", s + ".json")
    meta = json.load(open(mj)) if os.path.exists(mj) else {}
    summ = re.split(r"(?<=[.;]) ", meta.get("summary", ""))[0][:200].replace("|", "\\|").replace("\n", " ")
    r = bmat[s]
    res = "silent" if r == {} else ("does not apply" if r is None else "ALARM: " + ", ".join("%s" % p for p in sorted(r)))
    out.append("| %s | %s | %s | %s |" % (s, str(meta.get("kind", ""))[:40].replace("|", "/"), summ, res))
for c in json.load(open(os.path.join(V, "selftest", "benign.json")))["controls"]:
    out.append("| %s | hand-written | %s | checked in the thorough tier of %s |" % (c["id"], c.get("note", ""), ", ".join(c["properties"])))
out.append("")
text = "\n".join(out)
p = os.path.join(V, "DESIGN.md")
s = open(p).read()
a, b = "<!-- BEGIN GENERATED -->", "<!-- END GENERATED -->"
if a in s and b in s:
    s = s[:s.index(a) + len(a)] + "\n" + text + "\n" + s[s.index(b):]
    open(p, "w").write(s)
    print("DESIGN.md section 10 tables regenerated (%d lines)" % len(out))
else:
    print("markers not found")
