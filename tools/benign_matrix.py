#!/usr/bin/env python3
"""benign_matrix.py [prefix]: analyse every selftest/benign/<id>.diff (behaviour-preserving refactor) on a scratch copy with EVERY property's
check; any firing check is a false alarm to investigate. Writes selftest/benign_matrix.json."""
import concurrent.futures, json, os, sys
sys.path.insert(0, os.path.dirname(os.path.dirname(os.path.abspath(__file__))))
from s3sv import selftest
V = selftest.VERIF
PIDS = ["C%02d" % i for i in range(1, 21)]
only = tuple(sys.argv[1:]) or ("",)
ids = sorted(f[:-5] for f in os.listdir(os.path.join(V, "selftest", "benign")) if f.endswith(".diff") and f.startswith(only))
mp = os.path.join(V, "selftest", "benign_matrix.json")
matrix = json.load(open(mp)) if os.path.exists(mp) else {}
slots = list(range(selftest.WORKERS))
def job(s):
    slot = slots.pop()
    try:
        return s, selftest.run_variant({"kind": "patch", "patch": os.path.join("selftest", "benign", s + ".diff")}, PIDS, slot)
    finally:
        slots.append(slot)
with concurrent.futures.ThreadPoolExecutor(max_workers=selftest.WORKERS) as ex:
    for s, r in ex.map(job, ids):
        if r is None:
            print(s, "DOES NOT APPLY"); matrix[s] = None; continue
        fired = {p: ks for p, ks in r.items() if ks}
        matrix[s] = fired
        print(s, json.dumps({p: ks[:4] for p, ks in fired.items()}) if fired else "silent")
json.dump(matrix, open(mp, "w"), indent=1, sort_keys=True)
