#![feature(rustc_private)]
#![allow(unused)]
extern crate rustc_abi;
extern crate rustc_data_structures;
extern crate rustc_driver;
extern crate rustc_hir;
extern crate rustc_index;
extern crate rustc_interface;
extern crate rustc_middle;
extern crate rustc_span;
extern crate rustc_session;

use rustc_data_structures::steal::Steal;
use rustc_driver::Compilation;
use rustc_hir::def::DefKind;
use rustc_index::IndexVec;
use rustc_interface::interface;
use rustc_middle::mir::{self, *};
use rustc_middle::ty::{self, Ty, TyCtxt};
use rustc_span::def_id::{DefId, LocalDefId, LOCAL_CRATE};
use rustc_span::Span;
use std::fmt::Write as _;
use std::sync::{Mutex, OnceLock};

type PromFn = for<'tcx> fn(TyCtxt<'tcx>, LocalDefId) -> (&'tcx Steal<Body<'tcx>>, &'tcx Steal<IndexVec<Promoted, Body<'tcx>>>);
static ORIG: OnceLock<PromFn> = OnceLock::new();
static OUT: Mutex<Vec<String>> = Mutex::new(Vec::new());

fn js(s: &str) -> String {
    let mut o = String::with_capacity(s.len() + 2);
    o.push('"');
    for c in s.chars() {
        match c {
            '"' => o.push_str("\\\""),
            '\\' => o.push_str("\\\\"),
            '\n' => o.push_str("\\n"),
            '\r' => o.push_str("\\r"),
            '\t' => o.push_str("\\t"),
            c if (c as u32) < 0x20 => { let _ = write!(o, "\\u{:04x}", c as u32); }
            c => o.push(c),
        }
    }
    o.push('"');
    o
}

fn span_json(tcx: TyCtxt<'_>, sp: Span) -> String {
    let sm = tcx.sess.source_map();
    let call = sp.source_callsite();
    let lo = sm.lookup_char_pos(call.lo());
    let file = format!("{}", lo.file.name.prefer_local_unconditionally());
    let mut mac = String::new();
    if sp.from_expansion() {
        let ed = sp.ctxt().outer_expn_data();
        if let Some(d) = ed.macro_def_id { mac = tcx.def_path_str(d); } else { mac = format!("{:?}", ed.kind); }
    }
    format!("{{\"file\":{},\"line\":{},\"exp\":{},\"mac\":{}}}", js(&file), lo.line, sp.from_expansion(), js(&mac))
}

fn field_name<'tcx>(tcx: TyCtxt<'tcx>, base: mir::PlaceTy<'tcx>, f: rustc_abi::FieldIdx) -> String {
    match base.ty.kind() {
        ty::Adt(adt, _) => {
            let v = match base.variant_index { Some(v) => v, None => rustc_abi::FIRST_VARIANT };
            if adt.is_enum() || adt.is_struct() || adt.is_union() {
                if let Some(fd) = adt.variant(v).fields.get(f) { return fd.name.to_string(); }
            }
            format!("{}", f.as_usize())
        }
        _ => format!("{}", f.as_usize()),
    }
}

fn place_json<'tcx>(tcx: TyCtxt<'tcx>, body: &Body<'tcx>, p: &Place<'tcx>) -> String {
    let mut s = format!("{{\"l\":{},\"proj\":[", p.local.as_usize());
    let mut pty = mir::PlaceTy::from_ty(body.local_decls[p.local].ty);
    let mut first = true;
    for elem in p.projection.iter() {
        if !first { s.push(','); }
        first = false;
        match elem {
            ProjectionElem::Deref => s.push_str("\"*\""),
            ProjectionElem::Field(f, _) => {
                let n = field_name(tcx, pty, f);
                let a = match pty.ty.kind() { ty::Adt(adt, _) => tcx.def_path_str(adt.did()), _ => String::new() };
                let _ = write!(s, "{{\"f\":{},\"n\":{},\"a\":{}}}", f.as_usize(), js(&n), js(&a));
            }
            ProjectionElem::Downcast(name, v) => { let n = name.map(|x| x.to_string()).unwrap_or_default(); let _ = write!(s, "{{\"dc\":{},\"n\":{}}}", v.as_usize(), js(&n)); }
            ProjectionElem::Index(l) => { let _ = write!(s, "{{\"idx\":{}}}", l.as_usize()); }
            ProjectionElem::ConstantIndex { offset, min_length, from_end } => { let _ = write!(s, "{{\"cidx\":{},\"of\":{},\"end\":{}}}", offset, min_length, from_end); }
            ProjectionElem::Subslice { from, to, from_end } => { let _ = write!(s, "{{\"sub\":[{},{},{}]}}", from, to, from_end); }
            other => { let _ = write!(s, "{}", js(&format!("{:?}", other))); }
        }
        pty = pty.projection_ty(tcx, elem);
    }
    s.push_str("]}");
    s
}

fn const_json<'tcx>(tcx: TyCtxt<'tcx>, c: &ConstOperand<'tcx>) -> String {
    let ty = c.const_.ty();
    let tys = format!("{}", ty);
    match c.const_ {
        Const::Unevaluated(uv, _) => {
            format!("{{\"c\":\"item\",\"def\":{},\"promoted\":{},\"ty\":{}}}", js(&tcx.def_path_str(uv.def)), uv.promoted.map(|p| p.as_usize() as i64).unwrap_or(-1), js(&tys))
        }
        Const::Val(v, ty) => {
            if let ty::FnDef(d, args) = ty.kind() {
                return format!("{{\"c\":\"fn\",\"def\":{},\"ty\":{}}}", js(&tcx.def_path_str(*d)), js(&tys));
            }
            if let ConstValue::Slice { .. } = v {
                let is_bytes_or_str = match ty.kind() { ty::Ref(_, inner, _) => inner.is_str() || matches!(inner.kind(), ty::Slice(e) if *e == tcx.types.u8), _ => false };
                if is_bytes_or_str {
                    if let Some(bytes) = v.try_get_slice_bytes_for_diagnostics(tcx) {
                        let st = String::from_utf8_lossy(bytes).to_string();
                        return format!("{{\"c\":\"str\",\"v\":{},\"ty\":{}}}", js(&st), js(&tys));
                    }
                }
            }
            // &[u8; N] byte-string literal: scalar pointer into an allocation
            if let (ConstValue::Scalar(rustc_middle::mir::interpret::Scalar::Ptr(ptr, _)), ty::Ref(_, inner, _)) = (v, ty.kind()) {
                if let ty::Array(e, len) = inner.kind() {
                    if *e == tcx.types.u8 {
                        if let Some(n) = len.try_to_target_usize(tcx) {
                            let (prov, off) = ptr.prov_and_relative_offset();
                            if let rustc_middle::mir::interpret::GlobalAlloc::Memory(a) = tcx.global_alloc(prov.alloc_id()) {
                                let a = a.inner();
                                let start = off.bytes() as usize; let end = start + n as usize;
                                if end <= a.size().bytes() as usize {
                                    let bytes = a.inspect_with_uninit_and_ptr_outside_interpreter(start..end);
                                    let st = String::from_utf8_lossy(bytes).to_string();
                                    // exact bytes as well (format templates are not UTF-8)
                                    let hex: String = bytes.iter().map(|b| format!("{:02x}", b)).collect();
                                    return format!("{{\"c\":\"bstr\",\"v\":{},\"hex\":{},\"ty\":{}}}", js(&st), js(&hex), js(&tys));
                                }
                            }
                        }
                    }
                }
            }
            if let Some(sc) = v.try_to_scalar() {
                if let Ok(int) = sc.try_to_scalar_int() {
                    let bits = int.to_bits(int.size());
                    return format!("{{\"c\":\"int\",\"v\":\"{}\",\"ty\":{}}}", bits, js(&tys));
                }
            }
            format!("{{\"c\":\"val\",\"dbg\":{},\"ty\":{}}}", js(&format!("{:?}", v)), js(&tys))
        }
        Const::Ty(_, ct) => {
            if let Some(v) = ct.try_to_value() {
                if let Some(leaf) = v.try_to_leaf() {
                    let bits = leaf.to_bits(leaf.size());
                    return format!("{{\"c\":\"int\",\"v\":\"{}\",\"ty\":{}}}", bits, js(&tys));
                }
                if let Some(bytes) = v.try_to_raw_bytes(tcx) {
                    let st = String::from_utf8_lossy(bytes).to_string();
                    return format!("{{\"c\":\"str\",\"v\":{},\"ty\":{}}}", js(&st), js(&tys));
                }
            }
            format!("{{\"c\":\"tyconst\",\"dbg\":{},\"ty\":{}}}", js(&format!("{:?}", ct)), js(&tys))
        }
    }
}

fn op_json<'tcx>(tcx: TyCtxt<'tcx>, body: &Body<'tcx>, o: &Operand<'tcx>) -> String {
    match o {
        Operand::Copy(p) => format!("{{\"p\":{},\"mv\":false}}", place_json(tcx, body, p)),
        Operand::Move(p) => format!("{{\"p\":{},\"mv\":true}}", place_json(tcx, body, p)),
        Operand::Constant(c) => const_json(tcx, c),
        other => js(&format!("{:?}", other)),
    }
}

fn rvalue_json<'tcx>(tcx: TyCtxt<'tcx>, body: &Body<'tcx>, rv: &Rvalue<'tcx>) -> String {
    let ops = |v: Vec<String>| format!("[{}]", v.join(","));
    match rv {
        Rvalue::Use(o, _) => format!("{{\"k\":\"use\",\"ops\":{}}}", ops(vec![op_json(tcx, body, o)])),
        Rvalue::Ref(_, bk, p) => format!("{{\"k\":\"ref\",\"mut\":{},\"ops\":[{{\"p\":{}}}]}}", matches!(bk, BorrowKind::Mut { .. }), place_json(tcx, body, p)),
        Rvalue::RawPtr(_, p) => format!("{{\"k\":\"rawptr\",\"ops\":[{{\"p\":{}}}]}}", place_json(tcx, body, p)),
        Rvalue::Cast(kind, o, ty) => format!("{{\"k\":\"cast\",\"ck\":{},\"ty\":{},\"ops\":{}}}", js(&format!("{:?}", kind)), js(&format!("{}", ty)), ops(vec![op_json(tcx, body, o)])),
        Rvalue::BinaryOp(op, b) => format!("{{\"k\":\"bin\",\"op\":{},\"ops\":{}}}", js(&format!("{:?}", op)), ops(vec![op_json(tcx, body, &b.0), op_json(tcx, body, &b.1)])),
        Rvalue::UnaryOp(op, o) => format!("{{\"k\":\"un\",\"op\":{},\"ops\":{}}}", js(&format!("{:?}", op)), ops(vec![op_json(tcx, body, o)])),
        Rvalue::Discriminant(p) => {
            let pty = p.ty(&body.local_decls, tcx).ty;
            let mut variants = String::from("[");
            if let ty::Adt(adt, _) = pty.kind() {
                if adt.is_enum() {
                    let mut first = true;
                    for (vi, d) in adt.discriminants(tcx) {
                        if !first { variants.push(','); } first = false;
                        let _ = write!(variants, "[\"{}\",{}]", d.val, js(&adt.variant(vi).name.to_string()));
                    }
                }
            }
            variants.push(']');
            format!("{{\"k\":\"discr\",\"enum\":{},\"variants\":{},\"ops\":[{{\"p\":{}}}]}}", js(&format!("{}", pty)), variants, place_json(tcx, body, p))
        }
        Rvalue::Aggregate(kind, fields) => {
            let mut head = String::new();
            match &**kind {
                AggregateKind::Adt(did, vi, _, _, _) => {
                    let adt = tcx.adt_def(*did);
                    let v = adt.variant(*vi);
                    let names: Vec<String> = v.fields.iter().map(|f| js(&f.name.to_string())).collect();
                    let _ = write!(head, "\"agg\":\"adt\",\"adt\":{},\"variant\":{},\"fields\":[{}]", js(&tcx.def_path_str(*did)), js(&v.name.to_string()), names.join(","));
                }
                AggregateKind::Tuple => head.push_str("\"agg\":\"tuple\""),
                AggregateKind::Array(_) => head.push_str("\"agg\":\"array\""),
                AggregateKind::Closure(d, _) => { let _ = write!(head, "\"agg\":\"closure\",\"def\":{}", js(&tcx.def_path_str(*d))); }
                AggregateKind::Coroutine(d, _) => { let _ = write!(head, "\"agg\":\"coroutine\",\"def\":{}", js(&tcx.def_path_str(*d))); }
                other => { let _ = write!(head, "\"agg\":{}", js(&format!("{:?}", other))); }
            }
            let v: Vec<String> = fields.iter().map(|o| op_json(tcx, body, o)).collect();
            format!("{{\"k\":\"agg\",{},\"ops\":{}}}", head, ops(v))
        }
        other => format!("{{\"k\":\"other\",\"dbg\":{},\"ops\":[]}}", js(&format!("{:?}", other))),
    }
}

fn callee_json<'tcx>(tcx: TyCtxt<'tcx>, owner: LocalDefId, body: &Body<'tcx>, func: &Operand<'tcx>) -> String {
    let fty = func.ty(&body.local_decls, tcx);
    if let ty::FnDef(cd, args) = fty.kind() {
        let env = ty::TypingEnv::post_analysis(tcx, owner.to_def_id());
        let mut resolved = String::new();
        let mut virt = false;
        if let Ok(Some(inst)) = ty::Instance::try_resolve(tcx, env, *cd, args) {
            resolved = tcx.def_path_str(inst.def_id());
            virt = matches!(inst.def, ty::InstanceKind::Virtual(..));
        }
        let tr = tcx.trait_of_assoc(*cd).map(|t| tcx.def_path_str(t)).unwrap_or_default();
        let krate = tcx.crate_name(cd.krate).to_string();
        format!("{{\"def\":{},\"crate\":{},\"args\":{},\"resolved\":{},\"virtual\":{},\"trait\":{}}}", js(&tcx.def_path_str(*cd)), js(&krate), js(&format!("{:?}", args)), js(&resolved), virt, js(&tr))
    } else {
        format!("{{\"indirect\":{}}}", js(&format!("{}", fty)))
    }
}

fn body_json<'tcx>(tcx: TyCtxt<'tcx>, did: LocalDefId, body: &Body<'tcx>) -> String {
    let mut s = String::new();
    let path = tcx.def_path_str(did.to_def_id());
    let parent = tcx.opt_local_parent(did).map(|p| tcx.def_path_str(p.to_def_id())).unwrap_or_default();
    let kind = tcx.def_kind(did);
    let _ = write!(s, "{{\"fn\":{},\"kind\":{},\"coroutine\":{},\"parent\":{},\"span\":{},", js(&path), js(&format!("{:?}", kind)), tcx.is_coroutine(did.to_def_id()), js(&parent), span_json(tcx, body.span));
    // enclosing impl
    if matches!(kind, DefKind::AssocFn | DefKind::AssocConst { .. }) {
        if let Some(p) = tcx.opt_local_parent(did) {
            if let DefKind::Impl { of_trait } = tcx.def_kind(p) {
                let self_ty = format!("{}", tcx.type_of(p).instantiate_identity().skip_norm_wip());
                let tr = if of_trait { tcx.def_path_str(tcx.impl_trait_ref(p).instantiate_identity().skip_norm_wip().def_id) } else { String::new() };
                let _ = write!(s, "\"impl_self\":{},\"impl_trait\":{},\"derived\":{},", js(&self_ty), js(&tr), tcx.is_automatically_derived(p.to_def_id()));
            }
        }
    }
    if matches!(kind, DefKind::Fn | DefKind::AssocFn) {
        let _ = write!(s, "\"pub\":{},", tcx.visibility(did.to_def_id()).is_public());
    }
    if matches!(kind, DefKind::Closure) {
        let caps: Vec<String> = tcx.closure_captures(did).iter().map(|c| js(&c.to_string(tcx))).collect();
        let _ = write!(s, "\"captures\":[{}],", caps.join(","));
    }
    let _ = write!(s, "\"ret\":{},", js(&format!("{}", body.local_decls[RETURN_PLACE].ty)));
    // locals
    s.push_str("\"locals\":[");
    for (i, (l, d)) in body.local_decls.iter_enumerated().enumerate() {
        if i > 0 { s.push(','); }
        let _ = write!(s, "{}", js(&format!("{}", d.ty)));
    }
    s.push_str("],\"argc\":"); let _ = write!(s, "{}", body.arg_count);
    s.push_str(",\"debug\":[");
    let mut first = true;
    for v in &body.var_debug_info {
        if let VarDebugInfoContents::Place(p) = &v.value {
            if !first { s.push(','); } first = false;
            let _ = write!(s, "[{},{}]", js(&v.name.to_string()), place_json(tcx, body, p));
        }
    }
    s.push_str("],\"blocks\":[");
    for (bi, (bb, data)) in body.basic_blocks.iter_enumerated().enumerate() {
        if bi > 0 { s.push(','); }
        let _ = write!(s, "{{\"cleanup\":{},\"stmts\":[", data.is_cleanup);
        let mut first = true;
        for st in &data.statements {
            if let StatementKind::Assign(b) = &st.kind {
                if !first { s.push(','); } first = false;
                let _ = write!(s, "{{\"dst\":{},\"rv\":{},\"line\":{}}}", place_json(tcx, body, &b.0), rvalue_json(tcx, body, &b.1), tcx.sess.source_map().lookup_char_pos(st.source_info.span.source_callsite().lo()).line);
            }
        }
        s.push_str("],\"term\":");
        let t = data.terminator();
        let sp = span_json(tcx, t.source_info.span);
        match &t.kind {
            TerminatorKind::Goto { target } => { let _ = write!(s, "{{\"k\":\"goto\",\"t\":{}}}", target.as_usize()); }
            TerminatorKind::SwitchInt { discr, targets } => {
                let mut ts = String::from("[");
                for (i, (v, t)) in targets.iter().enumerate() { if i > 0 { ts.push(','); } let _ = write!(ts, "[\"{}\",{}]", v, t.as_usize()); }
                ts.push(']');
                let _ = write!(s, "{{\"k\":\"switch\",\"discr\":{},\"targets\":{},\"otherwise\":{},\"span\":{}}}", op_json(tcx, body, discr), ts, targets.otherwise().as_usize(), sp);
            }
            TerminatorKind::Call { func, args, destination, target, .. } => {
                let a: Vec<String> = args.iter().map(|x| op_json(tcx, body, &x.node)).collect();
                let _ = write!(s, "{{\"k\":\"call\",\"callee\":{},\"args\":[{}],\"dst\":{},\"t\":{},\"span\":{}}}", callee_json(tcx, did, body, func), a.join(","), place_json(tcx, body, destination), target.map(|t| t.as_usize() as i64).unwrap_or(-1), sp);
            }
            TerminatorKind::Drop { place, target, .. } => { let _ = write!(s, "{{\"k\":\"drop\",\"p\":{},\"t\":{}}}", place_json(tcx, body, place), target.as_usize()); }
            TerminatorKind::Assert { cond, expected, msg, target, .. } => {
                let kind = match &**msg { AssertKind::Overflow(op, ..) => format!("overflow:{:?}", op), AssertKind::BoundsCheck { .. } => "bounds".to_string(), AssertKind::DivisionByZero(_) => "div0".to_string(), AssertKind::RemainderByZero(_) => "rem0".to_string(), other => format!("{:?}", std::mem::discriminant(other)) };
                let _ = write!(s, "{{\"k\":\"assert\",\"cond\":{},\"expected\":{},\"kind\":{},\"t\":{},\"span\":{}}}", op_json(tcx, body, cond), expected, js(&kind), target.as_usize(), sp);
            }
            TerminatorKind::Return => s.push_str("{\"k\":\"return\"}"),
            TerminatorKind::Unreachable => s.push_str("{\"k\":\"unreachable\"}"),
            TerminatorKind::Yield { resume, .. } => { let _ = write!(s, "{{\"k\":\"yield\",\"t\":{}}}", resume.as_usize()); }
            TerminatorKind::FalseEdge { real_target, .. } => { let _ = write!(s, "{{\"k\":\"goto\",\"t\":{},\"false_edge\":true}}", real_target.as_usize()); }
            TerminatorKind::FalseUnwind { real_target, .. } => { let _ = write!(s, "{{\"k\":\"goto\",\"t\":{},\"false_unwind\":true}}", real_target.as_usize()); }
            other => { let _ = write!(s, "{{\"k\":\"other\",\"dbg\":{}}}", js(&format!("{:?}", std::mem::discriminant(other)))); }
        }
        s.push('}');
    }
    s.push_str("]}");
    s
}

fn my_mir_promoted<'tcx>(tcx: TyCtxt<'tcx>, did: LocalDefId) -> (&'tcx Steal<Body<'tcx>>, &'tcx Steal<IndexVec<Promoted, Body<'tcx>>>) {
    let krate = tcx.crate_name(LOCAL_CRATE);
    let want = std::env::var("S3SV_CRATES").unwrap_or_default();
    if want.split(',').any(|c| c == krate.as_str()) {
        let kind = tcx.def_kind(did);
        if matches!(kind, DefKind::Fn | DefKind::AssocFn | DefKind::Closure | DefKind::Const { .. } | DefKind::Static { .. } | DefKind::AssocConst { .. } | DefKind::InlineConst | DefKind::AnonConst) {
            let filt = std::env::var("S3SV_FN").unwrap_or_default();
            let path = tcx.def_path_str(did.to_def_id());
            if filt.is_empty() || filt.split('|').any(|f| path.contains(f)) {
                let line = { let body = tcx.mir_built(did).borrow(); rustc_middle::ty::print::with_resolve_crate_name!(rustc_middle::ty::print::with_no_visible_paths!(rustc_middle::ty::print::with_no_trimmed_paths!(body_json(tcx, did, &body)))) };
                OUT.lock().unwrap().push(line);
            }
        }
    }
    (ORIG.get().unwrap())(tcx, did)
}

struct Cb;
impl rustc_driver::Callbacks for Cb {
    fn config(&mut self, config: &mut interface::Config) {
        config.override_queries = Some(|_sess, providers| {
            let _ = ORIG.set(providers.queries.mir_promoted);
            providers.queries.mir_promoted = my_mir_promoted;
        });
    }
    fn after_analysis<'tcx>(&mut self, _c: &interface::Compiler, tcx: TyCtxt<'tcx>) -> Compilation {
        let krate = tcx.crate_name(LOCAL_CRATE).to_string();
        let want = std::env::var("S3SV_CRATES").unwrap_or_default();
        if !want.split(',').any(|c| c == krate) { return Compilation::Continue; }
        // consts that `cargo check` never evaluated have not been through mir_promoted yet: force them so the hook sees their bodies
        for id in tcx.hir_crate_items(()).definitions() {
            if matches!(tcx.def_kind(id), DefKind::Const { .. } | DefKind::Static { .. } | DefKind::AssocConst { .. }) {
                if tcx.hir_maybe_body_owned_by(id).is_some() {
                    let _ = tcx.ensure_ok().mir_promoted(id);
                }
            }
        }
        let mut extra: Vec<String> = Vec::new();
        let _g1 = rustc_middle::ty::print::CrateNamePrefixGuard::new();
        let _g2 = rustc_middle::ty::print::NoVisibleGuard::new();
        let _g3 = rustc_middle::ty::print::NoTrimmedGuard::new();
        // ADTs, impls, consts
        for id in tcx.hir_crate_items(()).definitions() {
            let did = id.to_def_id();
            match tcx.def_kind(did) {
                DefKind::Struct | DefKind::Enum => {
                    let adt = tcx.adt_def(did);
                    let mut vs = Vec::new();
                    for v in adt.variants() {
                        let fs: Vec<String> = v.fields.iter().map(|f| {
                            let fattrs: Vec<String> = tcx.get_all_attrs(f.did).iter().filter_map(|a| match a { rustc_hir::Attribute::Unparsed(item) => tcx.sess.source_map().span_to_snippet(item.span).ok(), _ => None }).map(|x| js(&x)).collect();
                            format!("{{\"n\":{},\"ty\":{},\"pub\":{},\"attrs\":[{}]}}", js(&f.name.to_string()), js(&format!("{}", tcx.type_of(f.did).instantiate_identity().skip_norm_wip())), f.vis.is_public(), fattrs.join(","))
                        }).collect();
                        let vattrs: Vec<String> = tcx.get_all_attrs(v.def_id).iter().filter_map(|a| match a { rustc_hir::Attribute::Unparsed(item) => tcx.sess.source_map().span_to_snippet(item.span).ok(), _ => None }).map(|x| js(&x)).collect();
                        vs.push(format!("{{\"n\":{},\"fields\":[{}],\"attrs\":[{}]}}", js(&v.name.to_string()), fs.join(","), vattrs.join(",")));
                    }
                    let attrs: Vec<String> = tcx.get_all_attrs(did).iter().filter_map(|a| match a { rustc_hir::Attribute::Unparsed(item) => tcx.sess.source_map().span_to_snippet(item.span).ok(), _ => None }).map(|x| js(&x)).collect();
                    extra.push(format!("{{\"adt\":{},\"pub\":{},\"reach\":{},\"is_enum\":{},\"span\":{},\"variants\":[{}],\"attrs\":[{}]}}", js(&tcx.def_path_str(did)), tcx.visibility(did).is_public(), tcx.effective_visibilities(()).is_reachable(id), adt.is_enum(), span_json(tcx, tcx.def_span(did)), vs.join(","), attrs.join(",")));
                }
                DefKind::Impl { of_trait } => {
                    let self_ty = format!("{}", tcx.type_of(did).instantiate_identity().skip_norm_wip());
                    let (tr, trd) = if of_trait { let r = tcx.impl_trait_ref(did).instantiate_identity().skip_norm_wip(); (format!("{:?}", r), tcx.def_path_str(r.def_id)) } else { (String::new(), String::new()) };
                    let items: Vec<String> = tcx.associated_item_def_ids(did).iter().map(|d| js(&tcx.def_path_str(*d))).collect();
                    extra.push(format!("{{\"impl\":{},\"trait\":{},\"trait_def\":{},\"derived\":{},\"span\":{},\"items\":[{}]}}", js(&self_ty), js(&tr), js(&trd), tcx.is_automatically_derived(did), span_json(tcx, tcx.def_span(did)), items.join(",")));
                }
                DefKind::Trait => {
                    let items: Vec<String> = tcx.associated_item_def_ids(did).iter().map(|d| js(&tcx.def_path_str(*d))).collect();
                    extra.push(format!("{{\"trait_decl\":{},\"items\":[{}]}}", js(&tcx.def_path_str(did)), items.join(",")));
                }
                _ => {}
            }
        }
        // functions callable from outside the crate (effective visibility, as opposed to `pub` inside a private module)
        {
            let ev = tcx.effective_visibilities(());
            let mut names: Vec<String> = Vec::new();
            for id in tcx.hir_crate_items(()).definitions() {
                if matches!(tcx.def_kind(id), DefKind::Fn | DefKind::AssocFn) && ev.is_reachable(id) {
                    names.push(js(&tcx.def_path_str(id.to_def_id())));
                }
            }
            extra.push(format!("{{\"reachable_fns\":[{}]}}", names.join(",")));
        }
        let path = std::env::var("S3SV_OUT").expect("S3SV_OUT");
        let runid = std::env::var("S3SV_RUN_ID").unwrap_or_default();
        let mut all = OUT.lock().unwrap();
        let n = all.len();
        let mut buf = String::new();
        let _ = write!(buf, "{{\"header\":true,\"crate\":{},\"run_id\":{},\"bodies\":{}}}\n", js(&krate), js(&runid), n);
        for l in all.drain(..) { buf.push_str(&l); buf.push('\n'); }
        for l in extra { buf.push_str(&l); buf.push('\n'); }
        let is_bin = tcx.crate_types().iter().any(|t| matches!(t, rustc_session::config::CrateType::Executable));
        std::fs::write(format!("{}.{}{}.jsonl", path, krate, if is_bin { ".bin" } else { "" }), buf).unwrap();
        eprintln!("S3SV-DRV crate={} bodies={}", krate, n);
        Compilation::Continue
    }
}
fn main() {
    let mut args: Vec<String> = std::env::args().collect();
    args.remove(1);
    rustc_driver::run_compiler(&args, &mut Cb);
}
