"""Fact extraction: runs the rustc_private driver (drv/) over /repo's current working tree.

Facts are cached under .cache/facts/<tree-hash>/ where the hash covers every analysed input, so a
changed tree is always re-extracted (checks rebuild from /repo's working tree on every run).
"""
import fcntl
import glob
import hashlib
import json
import os
import shutil
import subprocess
import sys
import time

VERIF = os.path.dirname(os.path.dirname(os.path.abspath(__file__)))
REPO = os.environ.get("S3SV_REPO", "/repo")
CACHE = os.path.join(VERIF, ".cache")
DRV = os.path.join(VERIF, "drv", "target", "debug", "s3sv-drv")

QUICK_CRATES = ["s3s", "s3s_fs", "s3s_policy"]
PKG = {"s3s": "s3s", "s3s_fs": "s3s-fs", "s3s_policy": "s3s-policy", "s3s_aws": "s3s-aws"}
# bodies seen per crate on the pinned tree (counted 2026-09-26); a run that sees fewer than 90 %
# of these did not really run the driver (incremental cache, freshness cache) and fails closed.
BODY_FLOOR = {"s3s": 5800, "s3s_fs": 150, "s3s_policy": 150, "s3s_aws": 1000}


def tree_hash(repo=REPO):
    h = hashlib.sha256()
    roots = ["crates", "codegen", "data"]
    files = []
    for r in roots:
        for dp, dn, fn in os.walk(os.path.join(repo, r)):
            dn[:] = [d for d in dn if d not in ("target", ".git")]
            for f in fn:
                files.append(os.path.join(dp, f))
    for f in ("Cargo.toml", "Cargo.lock", "rustfmt.toml"):
        files.append(os.path.join(repo, f))
    for f in sorted(files):
        try:
            with open(f, "rb") as fh:
                data = fh.read()
        except OSError:
            continue
        h.update(os.path.relpath(f, repo).encode())
        h.update(b"\0")
        h.update(hashlib.sha256(data).digest())
    # the driver itself is part of the key
    try:
        with open(os.path.join(VERIF, "drv", "src", "main.rs"), "rb") as fh:
            h.update(hashlib.sha256(fh.read()).digest())
    except OSError:
        pass
    return h.hexdigest()[:20]


def nightly_sysroot():
    return subprocess.check_output(["rustc", "+nightly", "--print", "sysroot"], text=True).strip()


def build_driver():
    if os.path.exists(DRV) and os.path.getmtime(DRV) >= os.path.getmtime(os.path.join(VERIF, "drv", "src", "main.rs")):
        return
    env = dict(os.environ, CARGO_NET_OFFLINE="true")
    r = subprocess.run(["cargo", "+nightly", "build", "--offline"], cwd=os.path.join(VERIF, "drv"), env=env,
                       stdout=subprocess.PIPE, stderr=subprocess.STDOUT, text=True)
    if r.returncode != 0:
        sys.stderr.write(r.stdout)
        raise SystemExit("s3sv: driver build failed")


def _run_extract(crates, outdir, repo):
    """one extraction; a fact file left over from an earlier run (cargo judged a member fresh although its fingerprint was removed, seen
    under heavy load) is retried once with the members forgotten again"""
    try:
        return _run_extract_once(crates, outdir, repo)
    except SystemExit as e:
        if "stale fact file" not in str(e) and "no fact file" not in str(e):
            raise
        time.sleep(1.0)
        return _run_extract_once(crates, outdir, repo)


def _run_extract_once(crates, outdir, repo):
    build_driver()
    target = os.environ.get("S3SV_TARGET") or os.path.join(CACHE, "target")
    os.makedirs(target, exist_ok=True)
    # cargo's freshness cache would skip the wrapper: forget the members
    for c in crates:
        for fp in glob.glob(os.path.join(target, "debug", ".fingerprint", PKG[c] + "-*")):
            shutil.rmtree(fp, ignore_errors=True)
    run_id = "%d-%d" % (os.getpid(), int(time.time() * 1000))
    env = dict(os.environ)
    env.update({
        "LD_LIBRARY_PATH": os.path.join(nightly_sysroot(), "lib"),
        "RUSTFLAGS": "-Zmir-opt-level=0 -Awarnings",
        "CARGO_INCREMENTAL": "0",
        "RUSTC_WORKSPACE_WRAPPER": DRV,
        "CARGO_TARGET_DIR": target,
        "CARGO_NET_OFFLINE": "true",
        "S3SV_CRATES": ",".join(crates),
        "S3SV_OUT": os.path.join(outdir, "facts"),
        "S3SV_RUN_ID": run_id,
    })
    env.pop("RUSTC_WRAPPER", None)
    cmd = ["cargo", "+nightly", "check", "--offline"]
    for c in crates:
        cmd += ["-p", PKG[c]]
    t0 = time.time()
    r = subprocess.run(cmd, cwd=repo, env=env, stdout=subprocess.PIPE, stderr=subprocess.STDOUT, text=True)
    if r.returncode != 0:
        sys.stderr.write(r.stdout[-6000:])
        raise SystemExit("s3sv: cargo check of /repo failed (the tree does not compile?)")
    for c in crates:
        p = os.path.join(outdir, "facts.%s.jsonl" % c)
        if not os.path.exists(p):
            raise SystemExit("s3sv: EXTRACTION-FAILED no fact file for crate %s" % c)
        with open(p) as fh:
            hdr = json.loads(fh.readline())
        if hdr.get("run_id") != run_id:
            raise SystemExit("s3sv: EXTRACTION-FAILED stale fact file for crate %s" % c)
        if hdr.get("bodies", 0) < BODY_FLOOR[c] * 0.9:
            raise SystemExit("s3sv: EXTRACTION-FAILED crate %s: %d bodies < floor %d" % (c, hdr.get("bodies", 0), BODY_FLOOR[c]))
    return time.time() - t0


def ensure_facts(crates=None, repo=REPO, verbose=True):
    """Returns the directory holding facts.<crate>.jsonl for the current tree."""
    crates = crates or QUICK_CRATES
    os.makedirs(os.path.join(CACHE, "facts"), exist_ok=True)
    # one extraction at a time per cargo target directory (self-test workers each have their own)
    lock = open(os.path.join(CACHE, "extract.%s.lock" % os.path.basename(os.environ.get("S3SV_TARGET") or "target")), "w")
    fcntl.flock(lock, fcntl.LOCK_EX)
    try:
        h = tree_hash(repo)
        # self-test workers analyse scratch variants in parallel; two variants with the same source text (the same change found twice)
        # must not share - and delete - one fact directory
        salt = os.environ.get("S3SV_FACTS_SALT")
        outdir = os.path.join(CACHE, "facts", h + ("-" + salt if salt else ""))
        missing = [c for c in crates if not os.path.exists(os.path.join(outdir, "facts.%s.ok" % c))]
        if missing:
            os.makedirs(outdir, exist_ok=True)
            dt = _run_extract(missing, outdir, repo)
            for c in missing:
                open(os.path.join(outdir, "facts.%s.ok" % c), "w").write("ok\n")
            if verbose:
                sys.stderr.write("s3sv: extracted %s in %.1fs -> %s\n" % (",".join(missing), dt, outdir))
            _gc(keep=outdir)
        return outdir
    finally:
        fcntl.flock(lock, fcntl.LOCK_UN)
        lock.close()


def _gc(keep, maxdirs=14):
    base = os.path.join(CACHE, "facts")
    ds = [os.path.join(base, d) for d in os.listdir(base)]
    ds = [d for d in ds if os.path.isdir(d) and d != keep]
    ds.sort(key=os.path.getmtime, reverse=True)
    for d in ds[maxdirs - 1:]:
        shutil.rmtree(d, ignore_errors=True)


if __name__ == "__main__":
    print(ensure_facts(sys.argv[1].split(",") if len(sys.argv) > 1 else None))
