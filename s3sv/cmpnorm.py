"""Normalised ordered comparisons: `lhs REL rhs` with the edges on which it is true / false."""
from . import flow
from .facts import callee_def

CALL_REL = {"gt": ">", "ge": ">=", "lt": "<", "le": "<="}
BIN_REL = {"Gt": ">", "Ge": ">=", "Lt": "<", "Le": "<="}
FLIP = {">": "<", ">=": "<=", "<": ">", "<=": ">="}
NEG = {">": "<=", ">=": "<", "<": ">=", "<=": ">"}


class Cmp:
    def __init__(self, body, bi, rel, lhs, rhs, true_edges, false_edges):
        self.body, self.bi, self.rel, self.lhs, self.rhs = body, bi, rel, lhs, rhs
        self.true_edges, self.false_edges = true_edges, false_edges
        self._sl = {}

    def sl(self, side):
        if side not in self._sl:
            self._sl[side] = flow.backward(self.body, self.lhs if side == "l" else self.rhs, at=self.bi)
        return self._sl[side]

    def direct_field(self, side, adt, field):
        """the operand is (a copy/borrow of) exactly the field - no arithmetic or call in between"""
        op = self.lhs if side == "l" else self.rhs
        for l, pr in flow.resolve_chain(self.body, op) or []:
            if (adt, field) in flow.proj_fields(pr):
                return True
        return False

    def oriented2(self, is_x, y_adt, y_field):
        """like oriented, with y required to be exactly the given field"""
        if is_x(self.sl("l")) and self.direct_field("r", y_adt, y_field):
            return self.rel, self.true_edges, self.false_edges
        if is_x(self.sl("r")) and self.direct_field("l", y_adt, y_field):
            return FLIP[self.rel], self.true_edges, self.false_edges
        return None

    def oriented(self, is_x, is_y):
        """if one side satisfies is_x(slice) and the other is_y(slice): (rel with x on the left, edges where `x rel y` holds, edges where not)"""
        if is_x(self.sl("l")) and is_y(self.sl("r")):
            return self.rel, self.true_edges, self.false_edges
        if is_x(self.sl("r")) and is_y(self.sl("l")):
            return FLIP[self.rel], self.true_edges, self.false_edges
        return None


def ordered_comparisons(body):
    out = []
    for bi, t in body.calls():
        d = callee_def(t)
        if d.startswith("core::cmp::PartialOrd::") and d.rsplit("::", 1)[-1] in CALL_REL and len(t["args"]) == 2:
            o = flow.outcomes_of_call(body, bi)
            out.append(Cmp(body, bi, CALL_REL[d.rsplit("::", 1)[-1]], t["args"][0], t["args"][1], o.get("true"), o.get("false")))
    for bi, si, st in body.stmts():
        rv = st["rv"]
        if rv["k"] == "bin" and rv["op"] in BIN_REL and not st["dst"]["proj"]:
            o = flow.outcomes_of_local(body, st["dst"]["l"])
            out.append(Cmp(body, bi, BIN_REL[rv["op"]], rv["ops"][0], rv["ops"][1], o.get("true"), o.get("false")))
    return out


def accept_side(rel, true_edges, false_edges, want):
    """edges on which `x want y` is guaranteed, given the test `x rel y`.  want in {'<=', '<', '>=', '>'} (boundary-insensitive:
    '<=' accepts the outcomes `x <= y` and `x < y`; i.e. the false edge of `>`/`>=` or the true edge of `<`/`<=`)."""
    if want in ("<=", "<"):
        if rel in ("<", "<="):
            return true_edges
        return false_edges
    if rel in (">", ">="):
        return true_edges
    return false_edges
