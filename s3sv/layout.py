"""Canonical form of a buffer write trace (writes.buffer_events), so that a layout is compared up to the idiom used to produce it.

Nodes: {"t":"E","ev":event} | {"t":"ALT","alts":[node]} | {"t":"JOIN","sep":node,"items":[node]} | {"t":"LOOP","items":[node]}

Normalisations (each preserves the string produced):
  * loop nesting is taken from the events' `loops` ids (a closure handed to an iterator adaptor counts as a loop);
  * literal appends in mutually exclusive branches, and an append whose operand is selected among literals, become one ALT;
  * "first item, then loop { separator, item }" and "loop { separator unless first, item }" both become JOIN(separator, items).
"""
from . import flow
from .facts import callee_def, short


def E(ev):
    return {"t": "E", "ev": ev}


def is_lit(node):
    if node["t"] == "E":
        c = node["ev"]["consts"]
        return node["ev"]["short"] in ("push", "push_str", "extend_from_slice", "put_slice", "put_u8") and len(c) >= 1 and isinstance(c[0], str)
    if node["t"] == "ALT":
        return all(is_lit(a) for a in node["alts"])
    return False


def sig(node):
    if node["t"] == "E":
        c = node["ev"]["consts"]
        return ("E", node["ev"]["short"], c[0] if c and isinstance(c[0], (str, int)) else None)
    if node["t"] == "ALT":
        return ("ALT", tuple(sorted(map(repr, (sig(a) for a in node["alts"])))))
    if node["t"] == "JOIN":
        return ("JOIN", sig(node["sep"]), tuple(sig(x) for x in node["items"]))
    return ("LOOP", tuple(sig(x) for x in node["items"]))


def describe(nodes):
    out = []
    for n in nodes:
        if n["t"] == "E":
            e = n["ev"]
            out.append("%s(%s)" % (e["short"], ",".join(repr(c) if c is not None else "_" for c in e["consts"])))
        elif n["t"] == "ALT":
            out.append("alt{%s}" % " | ".join(describe([a])[0] for a in n["alts"]))
        elif n["t"] == "JOIN":
            out.append("join[%s]{%s}" % (describe([n["sep"]])[0], " ".join(describe(n["items"]))))
        else:
            out.append("loop{%s}" % " ".join(describe(n["items"])))
    return out


def _tree(events, depth):
    out = []
    i = 0
    while i < len(events):
        e = events[i]
        if len(e["loops"]) > depth:
            lid = e["loops"][depth]
            j = i
            while j < len(events) and len(events[j]["loops"]) > depth and events[j]["loops"][depth] == lid:
                j += 1
            out.append({"t": "LOOP", "items": _tree(events[i:j], depth + 1), "id": lid})
            i = j
        else:
            out.append(E(e))
            i += 1
    return out


def _first_event(node):
    if node["t"] == "E":
        return node["ev"]
    if node["t"] == "ALT":
        return _first_event(node["alts"][0])
    if node["t"] == "JOIN":
        return _first_event(node["items"][0]) if node["items"] else _first_event(node["sep"])
    return _first_event(node["items"][0]) if node["items"] else None


def _exclusive(e1, e2):
    """no execution of the enclosing iteration passes through both appends"""
    if e1["body"] is not e2["body"] or e1["frames"] != e2["frames"] or e1["bi"] == e2["bi"]:
        return False
    b = e1["body"]
    be = frozenset(flow.back_edges(b))
    r1 = flow.reach(b, [e1["bi"]], removed=be)
    if e2["bi"] in r1:
        return False
    r2 = flow.reach(b, [e2["bi"]], removed=be)
    return e1["bi"] not in r2


def _select_literals(ev):
    """an append whose operand is chosen among character/string literals (`push(if first { '?' } else { '&' })`)"""
    if ev["consts"] and ev["consts"][0] is not None:
        return None
    if ev["short"] not in ("push", "push_str") or len(ev["args"]) != 1:
        return None
    sl = flow.backward(ev["body"], ev["args"][0], at=ev["bi"])
    if sl.params or [1 for _, t, _ in sl.calls if not flow.is_transparent(t)]:
        return None
    lits = []
    for c in sl.consts:
        if c.get("c") == "int" and c.get("ty") == "char":
            lits.append(chr(int(c["v"])))
        elif c.get("c") == "str":
            lits.append(c["v"])
        elif c.get("c") == "int" and c.get("ty") in ("bool", "usize", "u8", "i32", "u32", "u64"):
            continue
        else:
            return None
    return sorted(set(lits)) if len(set(lits)) >= 2 else None


def _reads_buffer(body, op, at, buf):
    """does the value of `op` depend on the content of the output buffer?"""
    sl = flow.backward(body, op, at=at)
    if isinstance(buf, tuple):
        return any(l == 1 and [e for e in pr if isinstance(e, tuple) and e and e[0] == "f" and e[1] == buf[1]] for l, pr in
                   [(l, flow.norm_proj(pr) if not (pr and isinstance(pr[0], tuple)) else pr) for l, pr in sl.params])
    return buf in sl.locals


def content_dependent(blocks, ev):
    """the choice between the alternatives (appends / literal definitions in `blocks`) is made by a test that reads the text written so far"""
    body, buf = ev["body"], ev.get("buf")
    if buf is None or len(set(blocks)) < 2:
        return False
    be = frozenset(flow.back_edges(body))
    for s in body.live_blocks():
        t = body.blocks[s]["term"]
        if t["k"] != "switch":
            continue
        sides = []
        for blk in set(blocks):
            labs = frozenset(lab for lab, tb in body.succ_edges(s) if blk in flow.reach(body, [tb], removed=be, stop_blocks=frozenset([s])))
            sides.append(labs)
        if any(not x for x in sides) or len(set(sides)) < 2 or any(a & b for i, a in enumerate(sides) for b in sides[i + 1:]):
            continue
        # the switch separates the alternatives: what does it test?
        from . import paths
        src = paths.switch_source(body, t)
        ops = []
        if src and src[0] == "call":
            ops = list(src[1]["args"])
        elif src and src[0] == "bin":
            ops = list(src[1]["ops"])
        else:
            ops = [t["discr"]]
        if any(_reads_buffer(body, o, s if not (src and src[0] in ("call", "bin")) else src[3], buf) for o in ops):
            return True
    return False


def _conditional(loop, sep, nxt):
    """inside one iteration the next item can be reached without executing the separator append"""
    es = [a["ev"] for a in sep["alts"]] if sep["t"] == "ALT" else [sep["ev"]]
    ne = _first_event(nxt)
    if ne is None or any(e["body"] is not ne["body"] or e["frames"] != ne["frames"] for e in es):
        return False
    b = ne["body"]
    lid = loop.get("id")
    head = 0
    if lid is not None and isinstance(lid[1], int) and lid[0] == b.name:
        head = lid[1]
    be = frozenset(flow.back_edges(b))
    r = flow.reach(b, [head], removed=be, stop_blocks=frozenset(e["bi"] for e in es))
    return ne["bi"] in r


def normalise(nodes, loop=None):
    # children first
    for n in nodes:
        if n["t"] == "LOOP":
            n["items"] = normalise(n["items"], n)
    # select-literal appends
    out = []
    for n in nodes:
        if n["t"] == "E":
            lits = _select_literals(n["ev"])
            if lits:
                alts = []
                for l in lits:
                    e2 = dict(n["ev"])
                    e2["consts"] = [l]
                    alts.append(E(e2))
                node = {"t": "ALT", "alts": alts, "select": True}
                defs = [d["bi"] for l, _ in (flow.resolve_chain(n["ev"]["body"], n["ev"]["args"][0]) or []) for d in n["ev"]["body"].defs().get(l, [])
                        if d["kind"] == "assign" and d["rv"]["k"] == "use" and "c" in d["rv"]["ops"][0]]
                if content_dependent(defs, n["ev"]):
                    node["content_dependent"] = True
                out.append(node)
                continue
        out.append(n)
    nodes = out
    # appends in mutually exclusive branches
    out = []
    i = 0
    while i < len(nodes):
        n = nodes[i]
        if n["t"] == "E":
            grp = [n]
            j = i + 1
            while j < len(nodes) and nodes[j]["t"] == "E" and all(_exclusive(g["ev"], nodes[j]["ev"]) for g in grp):
                grp.append(nodes[j])
                j += 1
            if len(grp) > 1:
                node = {"t": "ALT", "alts": grp}
                if content_dependent([g["ev"]["bi"] for g in grp], grp[0]["ev"]):
                    node["content_dependent"] = True
                out.append(node)
                i = j
                continue
        out.append(n)
        i += 1
    nodes = out
    # joins
    out = []
    for n in nodes:
        if n["t"] == "LOOP" and len(n["items"]) >= 2 and is_lit(n["items"][0]):
            sep, items = n["items"][0], n["items"][1:]
            k = len(items)
            if len(out) >= k and all(x["t"] != "LOOP" for x in out[-k:]) and [sig(x) for x in out[-k:]] == [sig(x) for x in items]:
                # first item written before the loop
                del out[-k:]
                out.append({"t": "JOIN", "sep": sep, "items": items})
                continue
            if sep["t"] == "ALT" or _conditional(n, sep, items[0]):
                out.append({"t": "JOIN", "sep": sep, "items": items})
                continue
        out.append(n)
    # a join over a nested iteration: `for name in table { for value in all(name) { sep-unless-first; name; value } }` with the "first" state
    # kept across the outer loop is one join over the flattened sequence of (name, value) occurrences
    out2 = []
    for n in out:
        if n["t"] == "LOOP" and len(n["items"]) == 1 and n["items"][0]["t"] == "JOIN" and _first_state_outlives(n, n["items"][0]["sep"]):
            out2.append(n["items"][0])
        else:
            out2.append(n)
    return out2


def _first_state_outlives(loop, sep):
    """the separator of the inner join is chosen by a boolean that is initialised outside `loop` and never set back to its initial value inside it"""
    ev = _first_event(sep)
    lid = loop.get("id")
    if ev is None or lid is None or lid[0] != ev["body"].name or not isinstance(lid[1], int):
        return False
    b = ev["body"]
    head = lid[1]
    blocks = {head}
    preds = b.preds()
    for (src, lab) in flow.back_edges(b):
        if flow.edge_target(b, (src, lab)) != head:
            continue
        st = [src]
        blocks.add(src)
        while st:
            x = st.pop()
            if x == head:
                continue
            for p_, _ in preds.get(x, []):
                if p_ not in blocks:
                    blocks.add(p_)
                    st.append(p_)
    flags = {}
    for bi, si, stt in b.stmts():
        rv = stt["rv"]
        o = rv["ops"][0] if rv.get("ops") else None
        if not stt["dst"]["proj"] and rv["k"] == "use" and isinstance(o, dict) and ((o.get("c") == "int" and o.get("ty") in ("bool", "char")) or o.get("c") == "str"):
            flags.setdefault(stt["dst"]["l"], []).append((bi in blocks, str(o["v"])))
    sep_events = [a["ev"] for a in sep["alts"]] if sep["t"] == "ALT" else [sep["ev"]]
    for l, asg in flags.items():
        init = {v for inside, v in asg if not inside}
        inner = {v for inside, v in asg if inside}
        if len(init) == 1 and inner and not (inner & init):
            # the state is read inside the loop: by a switch (a boolean flag), or as the separator that is appended (`push(separator)`)
            for x in blocks:
                t = b.blocks[x]["term"]
                if t["k"] == "switch":
                    p = flow.op_place(t["discr"])
                    ch = flow.resolve_chain(b, t["discr"]) if p is not None else None
                    if ch and any(c[0] == l for c in ch):
                        return True
            for e in sep_events:
                if e["body"] is b and e["args"]:
                    ch = flow.resolve_chain(b, e["args"][0]) or []
                    if any(c[0] == l for c in ch):
                        return True
    return False


def canon(events):
    return normalise(_tree(events, 0))


# ------------------------------------------------------------------------------------------------------------------------------
# expected layouts
# ------------------------------------------------------------------------------------------------------------------------------

def ALT(*alts):
    return {"t": "ALT", "alts": list(alts)}


def JOIN(sep, *items):
    return {"t": "JOIN", "sep": sep, "items": list(items)}


def LOOP(*items):
    return {"t": "LOOP", "items": list(items)}


def match(nodes, spec, match_event, path=""):
    """problems (list of str) when the canonical trace `nodes` differs from `spec` (list of expected nodes; an expected event is the dict
    built by sigwrites.E, recognised by its "callee" key)"""
    bad = []
    if len(nodes) != len(spec):
        return ["%s has %d parts, the layout has %d: %s" % (path or "trace", len(nodes), len(spec), " ".join(describe(nodes)))]
    for i, (n, s) in enumerate(zip(nodes, spec)):
        where = "%s[%d]" % (path, i)
        if "callee" in s:
            if n["t"] != "E":
                bad.append("%s is %s, layout expects a single append %s(%r)" % (where, describe([n])[0], s["callee"], s["const"]))
                continue
            m = match_event(n["ev"], s)
            if m:
                bad.append("%s (line %d) %s" % (where, n["ev"]["line"], m))
        elif s["t"] != n["t"]:
            bad.append("%s is %s, layout expects %s" % (where, describe([n])[0], s["t"].lower()))
        elif s["t"] == "ALT":
            if len(n["alts"]) != len(s["alts"]):
                bad.append("%s has %d alternatives, layout has %d: %s" % (where, len(n["alts"]), len(s["alts"]), describe([n])[0]))
                continue
            used = set()
            for sa in s["alts"]:
                hit = None
                for j, na in enumerate(n["alts"]):
                    if j not in used and not match([na], [sa], match_event, where):
                        hit = j
                        break
                if hit is None:
                    bad.append("%s: no alternative matches %s" % (where, sa.get("const") if "callee" in sa else sa["t"]))
                else:
                    used.add(hit)
        elif s["t"] == "JOIN":
            if n["sep"].get("content_dependent"):
                bad.append("%s: the separator is chosen by a test on the text written so far, not by the position of the item: what an earlier component "
                           "contains changes how the items are joined" % where)
            bad += match([n["sep"]], [s["sep"]], match_event, where + ".sep")
            bad += match(n["items"], s["items"], match_event, where + ".item")
        else:
            bad += match(n["items"], s["items"], match_event, where + ".loop")
    return bad
