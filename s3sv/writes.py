"""WRITES: ordered abstract trace of the appends to one buffer local (DESIGN.md 2.2)."""
from . import flow
from .facts import callee_def, short


def rpo(body):
    """reverse post-order of the normal-path CFG (back edges ignored)"""
    seen = set()
    order = []
    stack = [(0, iter([tb for _, tb in body.succ_edges(0)]))]
    seen.add(0)
    while stack:
        x, it = stack[-1]
        adv = False
        for tb in it:
            if body.blocks[tb]["cleanup"] or tb in seen:
                continue
            seen.add(tb)
            stack.append((tb, iter([t2 for _, t2 in body.succ_edges(tb)])))
            adv = True
            break
        if not adv:
            order.append(x)
            stack.pop()
    order.reverse()
    return order


def loop_blocks(body):
    """blocks that lie on a cycle which is not an await loop (no yield inside)"""
    be = flow.back_edges(body)
    out = set()
    for (src, lab) in be:
        head = flow.edge_target(body, (src, lab))
        # natural loop: nodes that reach src without passing head
        loop = {head, src}
        st = [src]
        preds = body.preds()
        while st:
            x = st.pop()
            for p, _ in preds.get(x, []):
                if p not in loop:
                    loop.add(p)
                    st.append(p)
        if any(body.blocks[b]["term"]["k"] == "yield" for b in loop):
            continue
        out |= loop
    return out


def targets_buffer(body, arg, buf):
    body.defs()
    p = flow.op_place(arg)
    if p is None:
        return False
    if p["l"] == buf:
        return True
    return buf in body._mut_targets(arg, 0)


def const_arg(body, a):
    c = flow.const_of(body, a)
    if c is None:
        return None
    if c.get("c") in ("str", "bstr"):
        return c["v"]
    if c.get("c") == "int":
        v = int(c["v"])
        if c.get("ty") == "char":
            return chr(v)
        return v
    if c.get("c") == "item":
        return ("item", c["def"])
    return None


def buffer_events(body, buf, db=None):
    """calls that append to local `buf` (directly, through &mut reborrows, or through a closure capturing &mut buf), in RPO"""
    order = rpo(body)
    loops = loop_blocks(body)
    ev = []
    for bi in order:
        t = body.blocks[bi]["term"]
        if t["k"] != "call" or not t["args"]:
            continue
        hit = False
        for a in t["args"]:
            if targets_buffer(body, a, buf):
                hit = True
        if not hit:
            continue
        d = callee_def(t)
        if flow.is_transparent(t) or d.endswith("::with_capacity") or d.endswith("::reserve"):
            continue
        args = [a for a in t["args"] if not targets_buffer(body, a, buf)]
        ev.append({"bi": bi, "callee": d, "short": short(d), "consts": [const_arg(body, a) for a in args], "args": args,
                   "in_loop": bi in loops, "line": t["span"]["line"]})
    return ev


def describe(ev):
    return ["%s(%s)%s" % (e["short"], ",".join(repr(c) if c is not None else "_" for c in e["consts"]), "*" if e["in_loop"] else "") for e in ev]
