"""WRITES: ordered abstract trace of the appends to one buffer local (DESIGN.md 2.2)."""
from . import flow
from .facts import callee_def, short


def rpo(body):
    """reverse post-order of the normal-path CFG (back edges ignored)"""
    seen = set()
    order = []
    stack = [(0, iter([tb for _, tb in body.succ_edges(0)]))]
    seen.add(0)
    while stack:
        x, it = stack[-1]
        adv = False
        for tb in it:
            if body.blocks[tb]["cleanup"] or tb in seen:
                continue
            seen.add(tb)
            stack.append((tb, iter([t2 for _, t2 in body.succ_edges(tb)])))
            adv = True
            break
        if not adv:
            order.append(x)
            stack.pop()
    order.reverse()
    return order


def loop_blocks(body):
    """blocks that lie on a cycle which is not an await loop (no yield inside)"""
    be = flow.back_edges(body)
    out = set()
    for (src, lab) in be:
        head = flow.edge_target(body, (src, lab))
        # natural loop: nodes that reach src without passing head
        loop = {head, src}
        st = [src]
        preds = body.preds()
        while st:
            x = st.pop()
            for p, _ in preds.get(x, []):
                if p not in loop:
                    loop.add(p)
                    st.append(p)
        if any(body.blocks[b]["term"]["k"] == "yield" for b in loop):
            continue
        out |= loop
    return out


def targets_buffer(body, arg, buf):
    body.defs()
    p = flow.op_place(arg)
    if p is None:
        return False
    if p["l"] == buf:
        return True
    return buf in body._mut_targets(arg, 0)


def const_arg(body, a):
    c = flow.const_of(body, a)
    if c is None:
        return None
    if c.get("c") in ("str", "bstr"):
        return c["v"]
    if c.get("c") == "int":
        v = int(c["v"])
        if c.get("ty") == "char":
            return chr(v)
        return v
    if c.get("c") == "item":
        return ("item", c["def"])
    return None


def innermost_loops(body):
    """block -> tuple of loop heads from outermost to innermost (await loops are not loops)"""
    be = flow.back_edges(body)
    preds = body.preds()
    loops = {}
    for (src, lab) in be:
        head = flow.edge_target(body, (src, lab))
        loop = {head, src}
        st = [src]
        while st:
            x = st.pop()
            if x == head:
                continue
            for p, _ in preds.get(x, []):
                if p not in loop:
                    loop.add(p)
                    st.append(p)
        if any(body.blocks[b]["term"]["k"] == "yield" for b in loop):
            continue
        loops.setdefault(head, set()).update(loop)
    out = {}
    for b in body.live_blocks():
        hs = [(len(blocks), h) for h, blocks in loops.items() if b in blocks]
        hs.sort(reverse=True)
        out[b] = tuple(h for _, h in hs)
    return out


def move_aliases(body, start):
    """every place the buffer that lives in local `start` at some point lives in as it is moved around: other locals (`let b2 = b;`), a field
    of a wrapper (`Frame(buf)`, `Writer { buf }`), a local it is moved back out into - before or after `start`.  Returns ("any", [aliases]);
    an alias is a local or ("field", local, index)."""
    edges = {}

    def link(x, y):
        edges.setdefault(x, set()).add(y)
        edges.setdefault(y, set()).add(x)
    whole = []      # (dst local, src local): a whole value moved; field aliases travel with it
    for bi, si, st in body.stmts():
        d = st["dst"]
        if d["proj"]:
            continue
        rv = st["rv"]
        if rv["k"] == "use" and isinstance(rv["ops"][0], dict) and "p" in rv["ops"][0] and rv["ops"][0].get("mv"):
            q = rv["ops"][0]["p"]
            fs = [e for e in q["proj"] if isinstance(e, dict) and "f" in e]
            if not q["proj"]:
                link(d["l"], q["l"])
                whole.append((d["l"], q["l"]))
            elif len(fs) == 1 and all(e == "*" or e is fs[0] for e in q["proj"]):
                link(d["l"], ("field", q["l"], fs[0]["f"]))
        elif rv["k"] == "agg" and rv.get("agg") in ("adt", "tuple"):
            for i, o in enumerate(rv["ops"]):
                if isinstance(o, dict) and "p" in o and o.get("mv") and not o["p"]["proj"]:
                    link(("field", d["l"], i), o["p"]["l"])
    al = [start]
    i = 0
    while i < len(al) and len(al) < 32:
        x = al[i]
        i += 1
        for y in edges.get(x, ()):
            # a plain local must have a buffer-like type to count (a moved `usize` is not the buffer)
            if y not in al:
                al.append(y)
        if isinstance(x, tuple):
            for dl, sl_ in whole:
                for a, b_ in ((dl, sl_), (sl_, dl)):
                    if x[1] == a and ("field", b_, x[2]) not in al:
                        al.append(("field", b_, x[2]))
    return ("any", al) if len(al) > 1 else start


def is_buf(body, arg, buf):
    """buf: a local, or ("upvar", j) = the place captured as field j of a closure's environment, or ("field", l, j), or ("any", [..]) = the
    same buffer under several names (writes.move_aliases)"""
    if isinstance(buf, tuple) and buf[0] == "any":
        return any(is_buf(body, arg, a) for a in buf[1])
    if isinstance(buf, tuple):
        # ("upvar", j): field j of the closure environment (local 1); ("field", l, j): field j of the struct held in (or pointed to by) local l
        root, fld = (1, buf[1]) if buf[0] == "upvar" else (buf[1], buf[2])
        body.defs()
        p = flow.op_place(arg)
        cands = []
        if p is not None:
            cands.append((p["l"], p["proj"]))
        cands += body._mut_places(arg, 0)
        for l, pj in cands:
            if l == root:
                fs = [e for e in pj if isinstance(e, dict) and "f" in e]
                if fs and fs[0]["f"] == fld:
                    return True
        return False
    return targets_buffer(body, arg, buf)


def holds_buf(body, arg, buf):
    """the argument is a `&mut` to the whole struct whose field is the buffer (a builder's `&mut self`)"""
    if not (isinstance(buf, tuple) and buf[0] == "field"):
        return False
    body.defs()
    p = flow.op_place(arg)
    cands = []
    if p is not None and (not p["proj"] or p["proj"] == ["*"]):
        ty = body.locals[p["l"]] if p["l"] < len(body.locals) else ""
        if p["l"] == buf[1] and ty.startswith("&mut "):
            return True
    for l, pj in body._mut_places(arg, 0):
        if l == buf[1] and not [e for e in pj if isinstance(e, dict) and "f" in e]:
            return True
    # the struct itself, moved into a consuming method (`writer.finish(..)`)
    for l, pr in (flow.resolve_chain(body, arg) or []):
        if l == buf[1] and not pr:
            return True
    return False


def _closure_capturing(body, arg, buf):
    """(closure body name, index of the upvar that is the buffer, capture operands) when `arg` is a closure that captures the buffer by &mut"""
    ch = flow.resolve_chain(body, arg) or []
    for l, _ in ch:
        for df in body.defs().get(l, []):
            if df["kind"] == "assign" and df["rv"]["k"] == "agg" and df["rv"].get("agg") == "closure":
                for j, o in enumerate(df["rv"]["ops"]):
                    if is_buf(body, o, buf):
                        return df["rv"].get("def"), j, df["rv"]["ops"]
    return None


def _live_given_frame(body, frames):
    """blocks of an inlined helper that can run given the enum literals passed at its call site (`finish(Payload::Unsigned)`); None when
    nothing is known"""
    if not frames or frames[-1][3] != "fn":
        return None
    caller, term = frames[-1][0], frames[-1][1]
    known = {}
    for j, a in enumerate(term["args"]):
        p = flow.op_place(a)
        if p is None or p["proj"]:
            continue
        l = p["l"]
        for _ in range(4):
            df = flow.single_def(caller, l)
            if df is None or df["kind"] != "assign":
                break
            rv = df["rv"]
            if rv["k"] == "agg" and rv.get("agg") == "adt" and rv.get("variant") is not None:
                known[j + 1] = rv["variant"]
                break
            if rv["k"] == "use" and flow.op_place(rv["ops"][0]) is not None and not flow.op_place(rv["ops"][0])["proj"]:
                l = flow.op_place(rv["ops"][0])["l"]
                continue
            break
    if not known:
        return None
    from . import paths
    removed = set()
    for s in body.live_blocks():
        t = body.blocks[s]["term"]
        if t["k"] != "switch":
            continue
        src = paths.switch_source(body, t)
        if not src or src[0] != "discr":
            continue
        r = flow.resolve_place(body, src[1]["ops"][0])
        if r is None or r[1] or r[0] not in known:
            continue
        if body.defs().get(r[0]):
            continue        # the parameter is reassigned in the helper
        vals = paths.discr_values(t, src[1])
        for lab, v in vals.items():
            if v != known[r[0]] and not (isinstance(v, str) and v.startswith("OTHER:") and known[r[0]] in v[6:].split("|")):
                removed.add((s, lab))
    if not removed:
        return None
    return flow.reach(body, [0], removed=frozenset(removed))


def buffer_events(body, buf, db=None, prim=None, _frames=(), _depth=0, _loops=()):
    """calls that append to `buf` (directly, through &mut reborrows, or through a closure capturing &mut buf), in RPO.
    prim: set of callee short names the caller's layout treats as primitive appends; when given, (a) any other function of the same crate that
    receives the buffer by `&mut` is inlined (its own appends take its place, up to depth 4) and (b) a closure that captures the buffer and is
    handed to an iterator adaptor (`for_each`, ...) is expanded into its own appends, as a loop.  Inlined events carry `body` (where their
    operands live), `frames` (the call chain) and `loops` (enclosing loop ids, outermost first)."""
    order = rpo(body)
    loops = innermost_loops(body)
    ev = []
    live = _live_given_frame(body, _frames)
    for bi in order:
        t = body.blocks[bi]["term"]
        if t["k"] != "call" or not t["args"]:
            continue
        if live is not None and bi not in live:
            continue        # an arm of `match param` that the constant argument of this call site does not select
        hits = [i for i, a in enumerate(t["args"]) if is_buf(body, a, buf)]
        d = callee_def(t)
        if not hits:
            # a stage method of a builder: `w.headers(..)` with the buffer in `w.buf`
            whole = [i for i, a in enumerate(t["args"]) if holds_buf(body, a, buf)]
            if len(whole) == 1 and prim is not None and db is not None and _depth < 4:
                cb = db.bodies.get(t["callee"].get("resolved") or "") or db.bodies.get(d)
                if cb is not None and cb.crate == body.crate and cb.kind in ("Fn", "AssocFn") and cb.name != body.name:
                    here = _loops + tuple((body.name, h) for h in loops.get(bi, ()))
                    ev.extend(buffer_events(cb, ("field", whole[0] + 1, buf[2]), db, prim, _frames + ((body, t, cb, "fn", None),), _depth + 1, here))
            continue
        if flow.is_transparent(t) or d.endswith("::with_capacity") or d.endswith("::reserve"):
            continue
        here = _loops + tuple((body.name, h) for h in loops.get(bi, ()))
        if prim is not None and db is not None and _depth < 4 and short(d) not in prim and len(hits) == 1:
            cb = db.bodies.get(t["callee"].get("resolved") or "") or db.bodies.get(d)
            if cb is not None and cb.crate == body.crate and cb.kind in ("Fn", "AssocFn") and cb.name != body.name:
                ev.extend(buffer_events(cb, hits[0] + 1, db, prim, _frames + ((body, t, cb, "fn", None),), _depth + 1, here))
                continue
            cc = _closure_capturing(body, t["args"][hits[0]], buf)
            if cc is not None and cc[0] in db.bodies:
                cbody = db.bodies[cc[0]]
                ev.extend(buffer_events(cbody, ("upvar", cc[1]), db, prim, _frames + ((body, t, cbody, "closure", cc[2]),), _depth + 1,
                                        here + ((body.name, "closure@%d" % bi),)))
                continue
        args = [a for a in t["args"] if not is_buf(body, a, buf)]
        consts = [const_arg(body, a) for a in args]
        # a constant handed down through a parameter of an inlined helper
        for i, a in enumerate(args):
            if consts[i] is None and _frames:
                consts[i] = _const_through_frames(body, a, _frames)
        ev.append({"bi": bi, "callee": d, "short": short(d), "consts": consts, "args": args,
                   "in_loop": bool(here), "loops": here, "line": t["span"]["line"], "body": body, "frames": _frames, "buf": buf})
    return ev


def _const_through_frames(body, a, frames):
    r = flow.resolve_place(body, a)
    if r is None or r[1] or not (1 <= r[0] <= body.argc) or not frames:
        return None
    caller, term = frames[-1][0], frames[-1][1]
    if len(frames[-1]) > 3 and frames[-1][3] == "closure":
        return None
    if r[0] - 1 >= len(term["args"]):
        return None
    c = const_arg(caller, term["args"][r[0] - 1])
    if c is None:
        return _const_through_frames(caller, term["args"][r[0] - 1], frames[:-1])
    return c


def describe(ev):
    return ["%s(%s)%s" % (e["short"], ",".join(repr(c) if c is not None else "_" for c in e["consts"]), "*" if e["in_loop"] else "") for e in ev]
