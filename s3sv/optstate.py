"""Definite-`Some`/`Ok` typestate of a place (used by C04.R5 to discharge `unwrap()` / `expect()`).

Forward must-analysis over the normal-path CFG of one body.  The tracked place P is (local, field path).  State per program point:
True = on every path reaching it the last event on P left it `Some` (`Ok`); False = unknown.
  establishing events: assignment of a `Some(..)`/`Ok(..)` aggregate to P; the edge of a switch on `P.is_some()` / `P.is_none()` /
                       `P.is_ok()` / `P.is_err()` / the discriminant of P that implies the variant
  killing events:      any other assignment to P or to a prefix/extension of P; P (or a prefix) handed out by `&mut` to a call
                       (including `Option::take`, `mem::take`, `&mut self` methods of the owner)
"""
from . import flow, paths
from .facts import callee_def

GOOD_VARIANTS = ("Some", "Ok")
TESTS_TRUE = ("core::option::Option::<T>::is_some", "core::result::Result::<T, E>::is_ok", "core::option::Option::<T>::is_some_and",
              "core::result::Result::<T, E>::is_ok_and")
TESTS_FALSE = ("core::option::Option::<T>::is_none", "core::result::Result::<T, E>::is_err")
# calls through which the receiver of unwrap() is still the tracked place's value
VIEW_CALLS = ("core::clone::Clone::clone", "core::option::Option::<T>::as_ref", "core::option::Option::<T>::as_deref", "core::result::Result::<T, E>::as_ref",
              "core::option::Option::<&T>::copied", "core::option::Option::<&T>::cloned", "core::option::Option::<T>::as_mut", "core::option::Option::<T>::as_deref_mut")


def _pointer_def(body, l):
    """the single definition of local l itself; writes *through* l (`(*l).f = ..`) do not redefine it"""
    whole = []
    for d in body.defs().get(l, []):
        if d["kind"] == "mutarg":
            continue
        pj = d.get("proj") or []
        if not pj:
            whole.append(d)
        elif pj[0] != "*":
            return None
    return whole[0] if len(whole) == 1 else None


def place_key(body, op):
    """(root local, field-index tuple) of the place an operand views, looking through derefs, single-definition refs / copies and VIEW_CALLS;
    None if it is not a plain field path"""
    p = flow.op_place(op)
    if p is None:
        return None
    l, pr = p["l"], flow.norm_proj(p["proj"])
    for _ in range(30):
        if any(e[0] != "f" for e in pr):
            return None
        df = _pointer_def(body, l)
        if (1 <= l <= body.argc) or df is None:
            return (l, tuple(e[1] for e in pr))
        if df["kind"] == "assign" and df["rv"]["k"] in ("use", "ref"):
            q = flow.op_place(df["rv"]["ops"][0])
            if q is None:
                return None
            l, pr = q["l"], flow.norm_proj(q["proj"]) + pr
            continue
        if df["kind"] == "assign" and df["rv"]["k"] == "agg" and df["rv"].get("agg") in ("closure", "coroutine", "tuple") and pr and pr[0][0] == "f" and \
                isinstance(pr[0][1], int) and pr[0][1] < len(df["rv"]["ops"]):
            # field i of an environment / tuple built here: the operand it was built from (an inlined `async fn` receives its arguments so)
            q = flow.op_place(df["rv"]["ops"][pr[0][1]])
            if q is None:
                return None
            l, pr = q["l"], flow.norm_proj(q["proj"]) + pr[1:]
            continue
        if df["kind"] == "call" and callee_def(df["term"]) in VIEW_CALLS and df["term"]["args"] and not pr:
            q = flow.op_place(df["term"]["args"][0])
            if q is None:
                return None
            l, pr = q["l"], flow.norm_proj(q["proj"])
            continue
        return (l, tuple(e[1] for e in pr))
    return None


def _overlaps(k1, k2):
    """two places overlap when one field path is a prefix of the other"""
    if k1[0] != k2[0]:
        return False
    a, b = k1[1], k2[1]
    n = min(len(a), len(b))
    return a[:n] == b[:n]


def _is_good_agg(body, op):
    p = flow.op_place(op)
    if p is None or p["proj"]:
        return False
    df = flow.single_def(body, p["l"])
    if df is None or df["kind"] != "assign":
        return False
    rv = df["rv"]
    return rv["k"] == "agg" and rv.get("agg") == "adt" and rv.get("variant") in GOOD_VARIANTS


def _dst_key(body, d):
    """place written by an assignment destination: a local (or its fields) itself, or - through a deref - the place its pointer views"""
    npj = flow.norm_proj(d["proj"])
    if any(e[0] != "f" for e in npj):
        return None
    if d["proj"] and d["proj"][0] == "*":
        return place_key(body, {"p": d})
    return (d["l"], tuple(e[1] for e in npj))


def _stmt_effect(body, st, key):
    """'set' | 'kill' | None"""
    d = st["dst"]
    dk = _dst_key(body, d)
    if dk is None:
        # assignment through an index / downcast: conservative kill when rooted at the same local
        return "kill" if d["l"] == key[0] else None
    if dk == key:
        rv = st["rv"]
        if rv["k"] == "agg" and rv.get("agg") == "adt" and rv.get("variant") in GOOD_VARIANTS:
            return "set"
        if rv["k"] == "use" and _is_good_agg(body, rv["ops"][0]):
            return "set"
        return "kill"
    if _overlaps(dk, key):
        return "kill"
    return None


def _call_kills(body, bi, t, key):
    """the call receives a mutable view overlapping the place"""
    for df in body.defs().get(key[0], []):
        if df["kind"] == "mutarg" and df["bi"] == bi:
            pj = tuple(e[1] for e in flow.norm_proj(df.get("proj", [])) if e[0] == "f")
            if _overlaps((key[0], pj), key):
                return True
    d = t["dst"]
    if d["l"] == key[0]:
        dk = (d["l"], tuple(e[1] for e in flow.norm_proj(d["proj"]) if e[0] == "f"))
        if _overlaps(dk, key):
            return True
    return False


def _edge_sets(body, s, key):
    """labels of switch block s whose edge implies the place is Some/Ok"""
    t = body.blocks[s]["term"]
    src = paths.switch_source(body, t)
    if src is None:
        return set()
    out = set()
    if src[0] == "call":
        d = callee_def(src[1])
        if d in TESTS_TRUE or d in TESTS_FALSE:
            if not src[1]["args"] or place_key(body, src[1]["args"][0]) != key:
                return set()
            if body.blocks[src[3]]["term"].get("t") != s or any(_stmt_effect(body, st, key) for st in body.blocks[s]["stmts"]):
                return set()
            # no kill between the test and the switch: the test's block must be s or flow straight into it
            vals = paths.bool_values(t, src[2])
            for lab, _ in body.succ_edges(s):
                v = vals.get(lab)
                if v is None:
                    continue
                if (d in TESTS_TRUE and v is True) or (d in TESTS_FALSE and v is False):
                    out.add(lab)
    elif src[0] == "discr":
        if place_key(body, src[1]["ops"][0]) != key:
            return set()
        vals = paths.discr_values(t, src[1])
        for lab, _ in body.succ_edges(s):
            if vals.get(lab) in GOOD_VARIANTS:
                out.add(lab)
    return out


def _stored_bool_edges(body, s):
    """switch on a stored boolean (`matches!`, `a && b`, `let is_x = match .. { .. => cond, _ => false }`): {label: [blocks whose definition can
    give the boolean the value this edge tests]} - constant assignments of that value, and predicate calls / comparisons (either value)"""
    t = body.blocks[s]["term"]
    src = paths.switch_source(body, t)
    if src is None or src[0] not in ("local", "rv"):
        return {}
    d = t["discr"]
    if "p" not in d or (d["p"]["proj"] and src[0] != "local"):
        return {}
    l = src[1] if src[0] == "local" else d["p"]["l"]
    pol = src[2] if src[0] == "local" else True
    if not isinstance(l, int) or l >= len(body.locals) or body.locals[l] != "bool":
        return {}
    vals = paths.bool_values(t, pol)
    out = {}
    for lab, _ in body.succ_edges(s):
        want = vals.get(lab)
        if want is None:
            continue
        blocks = []
        ok = True
        stack = [(l, 0)]
        seen = set()
        while stack and ok:
            l2, dep = stack.pop()
            if l2 in seen:
                continue
            seen.add(l2)
            for df in body.defs().get(l2, []):
                if df["kind"] == "mutarg" or df.get("proj"):
                    ok = False
                    break
                if df["kind"] == "assign":
                    rv = df["rv"]
                    o0 = rv["ops"][0] if rv.get("ops") else None
                    if rv["k"] == "use" and isinstance(o0, dict) and o0.get("c") == "int" and o0.get("ty") == "bool":
                        if (o0["v"] == "1") == want:
                            blocks.append(df["bi"])
                    elif rv["k"] == "use" and isinstance(o0, dict) and "p" in o0 and not o0["p"]["proj"] and dep < 4:
                        stack.append((o0["p"]["l"], dep + 1))
                    elif rv["k"] == "bin":
                        blocks.append(df["bi"])
                    else:
                        ok = False
                        break
                elif df["kind"] == "call":
                    blocks.append(df["bi"])
                else:
                    ok = False
                    break
        if ok and blocks:
            out[lab] = blocks
    return out


def _stored_enum_edges(body, s):
    """switch on a stored decision (`match self.source()? { Kind::A => .. }`, a private enum): {label: blocks that construct the variant(s)
    this edge stands for}"""
    from . import guards
    t = body.blocks[s]["term"]
    src = paths.switch_source(body, t)
    if src is None or src[0] != "discr" or not guards._is_plain_enum(src[1]["enum"]):
        return {}
    subj = flow.resolve_place(body, src[1]["ops"][0])
    if subj is None:
        return {}
    wrap = guards._wrapper_depth(subj[1])
    if wrap is None:
        return {}
    vals = paths.discr_values(t, src[1])
    out = {}
    for lab, _ in body.succ_edges(s):
        v = vals.get(lab)
        if v is None:
            continue
        names = set(v[6:].split("|")) if v.startswith("OTHER:") else {v}
        sites = guards._enum_def_sites(body, subj[0], names, wrap, src[1]["enum"])
        if sites:
            out[lab] = sites
    return out


def definitely_good(body, key, at_block, entry=False):
    """True when P is Some/Ok on every path reaching the terminator of at_block (entry: the state assumed on entering the body)"""
    order = [b for b in _rpo(body) if not body.blocks[b]["cleanup"]]
    preds = body.preds()
    IN, OUT = {}, {}
    static_edges, stored = {}, {}
    for bi in order:
        t = body.blocks[bi]["term"]
        static_edges[bi] = _edge_sets(body, bi, key) if t["k"] == "switch" else set()
        stored[bi] = _stored_bool_edges(body, bi) if t["k"] == "switch" and not static_edges[bi] else {}
        if t["k"] == "switch" and not static_edges[bi] and not stored[bi]:
            stored[bi] = _stored_enum_edges(body, bi)

    def transfer(bi, cur, upto_term=True):
        for st in body.blocks[bi]["stmts"]:
            e = _stmt_effect(body, st, key)
            if e == "set":
                cur = True
            elif e == "kill":
                cur = False
        t = body.blocks[bi]["term"]
        if upto_term and t["k"] == "call" and _call_kills(body, bi, t, key):
            cur = False
        return cur

    def edge_value(p, lab):
        if OUT.get(p) is None:
            return None
        if lab in static_edges[p]:
            return True
        blocks = stored[p].get(lab)
        if blocks:
            vs = [OUT.get(ab) for ab in blocks]
            if all(v is True for v in vs):
                return True
        return OUT[p]

    for _ in range(60):
        changed = False
        for bi in order:
            if bi == 0:
                new_in = entry
            else:
                vals = [edge_value(p, lab) for p, lab in preds.get(bi, [])]
                vals = [v for v in vals if v is not None]
                new_in = None if not vals else all(vals)
            if new_in is None:
                continue
            new_out = transfer(bi, new_in)
            if IN.get(bi) != new_in or OUT.get(bi) != new_out:
                IN[bi], OUT[bi] = new_in, new_out
                changed = True
        if not changed:
            break
    if IN.get(at_block) is None:
        return False
    return bool(transfer(at_block, IN[at_block], upto_term=False))


def _rpo(body):
    seen = set()
    order = []
    stack = [(0, iter([tb for _, tb in body.succ_edges(0)]))]
    seen.add(0)
    while stack:
        x, it = stack[-1]
        adv = False
        for tb in it:
            if tb in seen or body.blocks[tb]["cleanup"]:
                continue
            seen.add(tb)
            stack.append((tb, iter([t2 for _, t2 in body.succ_edges(tb)])))
            adv = True
            break
        if not adv:
            order.append(x)
            stack.pop()
    order.reverse()
    return order
