"""C19 - all-or-nothing object writes (DESIGN.md section 3, C19)."""
from .. import flow, guards, inline, paths
from ..facts import callee_def, short
from ..report import AnchorMissing
from . import fscore, streamerr
from .sigcore import first_writes_from, is_err_write

DONE = "s3s_fs::fs::FileWriter::<'a>::done"
CLIENT_REJECTIONS_EXCLUDED = ("InternalError",)


def error_codes_reachable(db, body, starts):
    """S3ErrorCode variants constructed in blocks reachable from the given blocks"""
    r = flow.reach(body, starts)
    out = []
    for bi in r:
        for st in body.blocks[bi]["stmts"]:
            rv = st["rv"]
            if rv["k"] == "agg" and rv.get("adt", "").endswith("::S3ErrorCode"):
                out.append((bi, rv["variant"]))
    return out


def rule_r1(chk, db):
    """verify-before-commit: no client rejection after FileWriter::done succeeded"""
    # every backend method is studied with its helpers inlined: a commit inside a shared helper is a commit of each method that uses it
    from . import c18
    from ..roles import Roles
    methods = c18.s3_methods(db, Roles(db))
    sites = [(b, bi, t) for _, b in sorted(methods.items()) for bi, t in b.calls() if short(callee_def(t)) == "done" and "FileWriter" in callee_def(t)]
    chk.floor("R1", len(sites), 4, "FileWriter::done call sites")
    for b, bi, t in sites:
        root = db.root_of(b)
        key = short(root.name)
        o = flow.outcomes_of_call(b, bi)
        cont = o.get("Continue") | o.get("Ok")
        if not cont:
            chk.fail("R1", key, b.loc(bi), "the result of done() is not tested")
            continue
        starts = [flow.edge_target(b, e) for e in cont]
        codes = [(cb, v) for cb, v in error_codes_reachable(db, b, starts) if v not in CLIENT_REJECTIONS_EXCLUDED]
        # codes inside await/`try_!` error conversions of *internal* failures are InternalError; anything else is a client rejection
        chk.verdict(not codes, "R1", key, b.loc(codes[0][0]) if codes else b.loc(bi),
                    "after the object was committed (done() renamed the temp file into place) the request can still be rejected with %s: "
                    "the client sees a failure but the object is stored" % sorted({v for _, v in codes}))
        # feeding: the writer is fed from the request body only through copy_bytes whose Continue edge dominates done()
        cps = [(cb, ct) for cb, ct in b.calls() if short(callee_def(ct)) in ("copy_bytes", "copy")]
        for cb, ct in cps:
            if not flow.can_reach(b, cb, bi):
                continue
            oc = flow.outcomes_of_call(b, cb)
            c2 = oc.get("Continue") | oc.get("Ok")
            # a loop (multipart concatenation) re-enters the copy: the requirement is on the path from the last copy to done
            chk.verdict(bool(c2) and flow.must_pass(b, [bi], c2, start=cb), "R2", key + ".copy-before-commit#%d" % cb, b.loc(cb),
                        "done() is reachable from the copy without the copy having succeeded: a failed body would still be committed")


LIMITERS = ("take", "take_while", "take_until", "limit", "truncate", "split_to", "split_off")


def rule_r2b(chk, db):
    """the writers copy the request body as it is: no adapter on the way from `input.body` to the copy cuts the stream off after a number of
    bytes (a stream that is not polled to its end never reports the error that arrives after the last data frame: bad final chunk signature,
    missing final chunk, transport error - and the upload is committed)"""
    from . import c18
    from ..roles import Roles
    n = 0
    for name, b in sorted(c18.s3_methods(db, Roles(db)).items()):
        for bi, t in b.calls():
            if short(callee_def(t)) != "copy_bytes" or not t["args"]:
                continue
            sl = flow.backward(b, t["args"][0], at=bi)
            if not any(f == "body" and a.endswith("Input") for a, f in sl.fields):
                continue
            n += 1
            cut = []
            for _, x, _ in sl.calls:
                d = callee_def(x)
                cb = db.bodies.get(x["callee"].get("resolved") or "") or db.bodies.get(d)
                if short(d) in LIMITERS and ("stream" in d.lower() or "Stream" in d or "bytes" in d.lower()):
                    cut.append(short(d))
                elif cb is not None and cb.crate == "s3s_fs" and "Stream" in cb.raw.get("ret", "") and any(cb.locals[l] in ("usize", "u64") for l in range(1, cb.argc + 1)):
                    cut.append(short(d))        # a stream adapter of the backend that takes a length (bytes_stream)
            chk.verdict(not cut, "R2", "body-copied-whole@%s#%d" % (short(name), bi), b.loc(bi),
                        "the request body passes %s before it is copied: the stream is cut off after a byte count instead of being read to its end, so an "
                        "error after the last data frame is never seen and the object is committed" % sorted(set(cut)))
    chk.floor("R2.body", n, 2, "copies of a request body into a temp file (put_object, upload_part)")


def rule_r2(chk, db):
    b = db.body("s3s_fs::utils::copy_bytes")
    if b is None:
        raise AnchorMissing("copy_bytes not found")
    n = streamerr.check(chk, "R2", db, b, "copying the request body", end_only_at_eof=True)
    chk.floor("R2", n, 1, "source-stream reads in copy_bytes")
    # write_all / flush errors propagate
    for x in db.nested(b):
        for bi, t in x.calls():
            if short(callee_def(t)) in ("write_all", "flush"):
                o = flow.outcomes_of_call(x, bi)
                br = o.get("Break") | o.get("Err")
                fw = first_writes_from(x, br) if br else []
                chk.verdict(bool(fw) and all(is_err_write(w) for w in fw), "R2", "copy_bytes.%s-error#%d" % (short(callee_def(t)), bi), x.loc(bi),
                            "an error of %s is not propagated" % short(callee_def(t)), nontrivial=False)


def rule_r3(chk, db, conf):
    # who-may-write object content: no create/write/OpenOptions on a confined *object or part* path outside prepare_file_write
    prep = [b for b in fscore.fs_bodies(db) if any(st["rv"]["k"] == "agg" and st["rv"].get("adt", "").endswith("::FileWriter") for _, _, st in b.stmts())]
    if len(prep) != 1:
        raise AnchorMissing("FileWriter is constructed in %d bodies (expected one: prepare_file_write)" % len(prep))
    proot = db.root_of(prep[0])
    tg = fscore.temp_guard(db)
    if tg is None:
        raise AnchorMissing("no type of the backend removes a temp file in its Drop impl")
    G, PATHF, _ = tg
    prep = inline.inlined(db, prep[0])       # the guard may be built by a constructor of its own (`TmpFile::armed(path)`)
    w_aggs = [(bi, st["rv"]) for bi, si, st in prep.stmts() if st["rv"]["k"] == "agg" and st["rv"].get("adt", "").endswith("::FileWriter")]
    g_aggs = [(bi, st["rv"]) for bi, si, st in prep.stmts() if st["rv"]["k"] == "agg" and st["rv"].get("adt", "").rsplit("::", 1)[-1] == G]
    if not w_aggs or not g_aggs:
        raise AnchorMissing("construction of the FileWriter / of the temp-file guard %s not found in prepare_file_write" % G)
    for bi, rv in g_aggs:
        m = dict(zip(rv["fields"], rv["ops"]))
        armed = cleanup_flag(db)
        v0 = _state_value(prep, m.get(armed[0])) if armed else None
        chk.verdict(bool(armed) and v0 is not None and v0 in armed[1], "R3", "cleanup-armed-initially", prep.loc(bi),
                    "a new %s does not start in the state in which Drop removes the temp file (field %s = %s, Drop cleans under %s)" % (
                        G, armed[0] if armed else "?", v0, sorted(map(str, armed[1])) if armed else "?"))
        # the writer's file <- File::create(<the guarded path>)
        wbi, wrv = w_aggs[0]
        creates = []
        sl = None
        for f_, o_ in zip(wrv["fields"], wrv["ops"]):
            s_ = flow.backward(prep, o_, at=wbi)
            cs_ = [(cb, t) for cb, t, _ in s_.calls if short(callee_def(t)) in ("create", "create_new") and "File" in callee_def(t)]
            if cs_ and (G == "FileWriter" or f_ not in [ff for ff, oo in zip(wrv["fields"], wrv["ops"]) if G in (prep.locals[flow.op_place(oo)["l"]] if flow.op_place(oo) else "")]):
                creates, sl = cs_, s_
                break
        ok = False
        for cb, t in creates:
            s2 = flow.backward(prep, t["args"][0], at=cb)
            s3 = flow.backward(prep, m[PATHF], at=bi)
            ok = bool({c_ for c_, _, _ in s2.calls} & {c_ for c_, _, _ in s3.calls})
        chk.verdict(ok, "R3", "writer-is-temp-file", prep.loc(bi), "the FileWriter's writer is not a file created at the guarded temp path")
        # no cancellation point between creating the file and arming its cleanup: the created file is not the output of an awaited future
        awaited = [cb for cb, t, _ in (sl.calls if sl else []) if callee_def(t).endswith("future::Future::poll") or callee_def(t).endswith("IntoFuture::into_future")]
        yields = [x for x in prep.live_blocks() if prep.blocks[x]["term"]["k"] == "yield" and creates and
                  any(flow.can_reach(prep, cb, x) for cb, _ in creates) and flow.can_reach(prep, x, bi)]
        chk.verdict(bool(creates) and not awaited and not yields, "R3", "create-then-arm-without-await", prep.loc((awaited or yields or [bi])[0]),
                    "the temp file is created by an awaited operation before the guard (whose Drop removes it) exists: a request future dropped "
                    "at that await leaves the file behind")
    object_fns = {n for n in conf if short(n) in ("get_object_path", "resolve_upload_part_path")}
    for b, bi, t, idxs in fscore.effects(db):
        nm = short(callee_def(t))
        if nm not in ("create", "create_new", "write", "open") or (nm == "open" and "OpenOptions" not in callee_def(t)):
            continue
        if db.root_of(b) is proot:
            continue
        c = fscore.classify_path(db, b, t["args"][idxs[0]], bi, conf)
        hit = [d for _, d in c["conf"] if d in object_fns]
        chk.verdict(not hit, "R3", "direct-write@%s#%d" % (short(db.root_of(b).name), bi), b.loc(bi),
                    "object content is written directly at its final path (%s -> %s) instead of through the temp-file writer" % ([short(h) for h in hit], nm))
    # done(): clean_tmp = false only after rename succeeded; rename(tmp, dest)
    d = db.body(DONE)
    inner = max(db.nested(d), key=lambda x: len(x.blocks)) if d else None
    if inner is None:
        raise AnchorMissing("FileWriter::done not found")
    inner = inline.inlined(db, inner)       # `done()` may be staged (`ensure_dest_dir().await?; self.commit().await`)
    ren = [(bi, t) for bi, t in inner.calls() if short(callee_def(t)) == "rename"]
    chk.verdict(len(ren) == 1, "R3", "done.rename", inner.loc(ren[0][0]) if ren else inner.loc(), "done() performs %d renames (expected one)" % len(ren))
    # the commit is the rename and nothing else: no other effect of done() touches the destination (removing the previous object "to make
    # room" turns the commit into remove-then-rename with an await in between: a request dropped there loses the old object)
    DESTRUCTIVE = ("remove_file", "remove_dir", "remove_dir_all", "write", "create", "create_new", "copy", "set_len", "truncate", "hard_link", "symlink")
    for bi, t in inner.calls():
        nm = short(callee_def(t))
        d_ = callee_def(t)
        if nm not in DESTRUCTIVE or not ("fs::" in d_ or "File" in d_):
            continue
        hit = False
        for a in t["args"]:
            sl_ = flow.backward(inner, a, at=bi)
            f_ = {f for a_, f in sl_.fields if a_ in ("FileWriter",)} | ({"dest_path"} if any(short(callee_def(x)) == "dest_path" for _, x, _ in sl_.calls) else set())
            if "dest_path" in f_:
                hit = True
        chk.verdict(not hit, "R3", "done.only-rename-touches-destination:%s" % nm, inner.loc(bi),
                    "done() applies %s to the destination path besides the rename: the commit is no longer one atomic step (a request dropped between "
                    "the two leaves the key without its previous content)" % nm)
    for bi, t in ren:
        s0 = flow.backward(inner, t["args"][0], at=bi)
        s1 = flow.backward(inner, t["args"][1], at=bi)
        f0 = {f for a, f in s0.fields if a in ("FileWriter", G)}
        f1 = {f for a, f in s1.fields if a in ("FileWriter", G)} | ({"dest_path"} if any(short(callee_def(x)) == "dest_path" for _, x, _ in s1.calls) else set())
        chk.verdict(PATHF in f0 and "dest_path" in f1 and PATHF not in f1, "R3", "done.rename-direction", inner.loc(bi),
                    "rename is not <guarded temp path> -> dest_path (from %s to %s)" % (sorted(f0), sorted(f1)))
        o = flow.outcomes_of_call(inner, bi)
        cont = o.get("Continue") | o.get("Ok")
        armed = cleanup_flag(db)
        n_dis = 0
        for b2, si, st in inner.stmts():
            nmz = flow.proj_names(flow.norm_proj(st["dst"]["proj"]))
            if armed and nmz[-1:] == [armed[0]]:
                nv = _state_value(inner, st["rv"]["ops"][0]) if st["rv"]["k"] == "use" else (st["rv"].get("variant") if st["rv"]["k"] == "agg" else None)
                if nv is not None and nv in armed[1]:
                    continue        # (re-)arming is always safe
                n_dis += 1
                chk.verdict(bool(cont) and flow.must_pass(inner, [b2], cont), "R3", "done.clean_tmp-after-rename", inner.loc(b2),
                            "the temp-file cleanup is switched off on a path where the rename did not succeed: a failed commit would leave the temp file behind")
        if n_dis == 0:
            chk.advisory("done() never switches the temp-file cleanup off (harmless: after the rename there is nothing left to remove)")
        oks = [w["bi"] for w in flow.return_writes(inner) if w["kind"] == "Ok"]
        chk.verdict(bool(cont) and flow.must_pass(inner, oks, cont), "R3", "done.ok-only-after-rename", inner.loc(bi), "done() can return Ok without the rename having succeeded")
    # Drop removes the temp file in the armed state
    drops = tg[2]
    chk.floor("R3.drop", len(drops), 1, "Drop impl of the temp-file guard")
    armed = cleanup_flag(db)
    for b in drops:
        rm = [(bi, t) for bi, t in b.calls() if short(callee_def(t)) == "remove_file"]
        ok = False
        for bi, t in rm:
            sl = flow.backward(b, t["args"][0], at=bi)
            ok = (G, PATHF) in sl.fields and bool(armed)
        chk.verdict(ok, "R3", "drop-cleans-temp", b.loc(), "Drop for %s does not remove %s under a state field of its own" % (G, PATHF))


def _state_value(body, op):
    """value of a small state operand: True/False for a bool literal, the variant name for a unit enum variant"""
    if op is None:
        return None
    c = flow.const_of(body, op)
    if c is not None and c.get("c") == "int" and c.get("ty") == "bool":
        return c.get("v") == "1"
    p = flow.op_place(op)
    df = flow.single_def(body, p["l"]) if p is not None and not p["proj"] else None
    for _ in range(4):
        if df is not None and df["kind"] == "assign" and df["rv"]["k"] == "use" and flow.op_place(df["rv"]["ops"][0]) is not None:
            q = flow.op_place(df["rv"]["ops"][0])
            df = flow.single_def(body, q["l"]) if not q["proj"] else None
        else:
            break
    if df is not None and df["kind"] == "assign" and df["rv"]["k"] == "agg" and df["rv"].get("agg") == "adt":
        return df["rv"].get("variant")
    return None


_FLAG = {}


def cleanup_flag(db):
    """(field name, set of values) such that Drop for FileWriter removes the temp file exactly when the field has one of these values:
    found from the switch that guards remove_file in the Drop impl (a bool field, or a small enum field), whatever the field is called"""
    if db.dir in _FLAG:
        return _FLAG[db.dir]
    res = None
    tg = fscore.temp_guard(db)
    for b in (tg[2] if tg else []):
        for bi, t in b.calls():
            if short(callee_def(t)) != "remove_file":
                continue
            for s2 in b.live_blocks():
                t2 = b.blocks[s2]["term"]
                if t2["k"] != "switch":
                    continue
                dsl = flow.backward(b, t2["discr"], at=s2)
                fs = [f for a, f in dsl.fields if a == tg[0] and f not in (tg[1], "dest_path", "writer")]
                if len(fs) != 1:
                    continue
                edges = b.succ_edges(s2)
                reaching = [(s2, lab) for lab, tb in edges if bi in flow.reach(b, [tb], stop_blocks=frozenset([s2]))]
                if not reaching or len(reaching) == len(edges) or not flow.must_pass(b, [bi], reaching):
                    continue
                src = paths.switch_source(b, t2)
                vals = set()
                if src is not None and src[0] == "discr":
                    dv = paths.discr_values(t2, src[1])
                    for _, lab in reaching:
                        v = dv.get(lab)
                        if v is None:
                            continue
                        vals |= set(v[6:].split("|")) if v.startswith("OTHER:") else {v}
                else:
                    pol = src[2] if src is not None and src[0] in ("local", "call") and len(src) > 2 and isinstance(src[2], bool) else True
                    bv = paths.bool_values(t2, pol)
                    vals = {bv.get(lab) for _, lab in reaching} - {None}
                if vals:
                    res = (fs[0], vals)
    _FLAG.clear()
    _FLAG[db.dir] = res
    return res


def _path_producers(db, body, sl, depth=0):
    """(body, slice of its returned value) for the functions of the backend whose result flows into the slice (two levels)"""
    out = []
    for _, t, _ in sl.calls:
        cb = db.bodies.get(t["callee"].get("resolved") or "") or db.bodies.get(callee_def(t))
        if cb is None or cb.crate != "s3s_fs" or cb.kind not in ("Fn", "AssocFn"):
            continue
        ib = inline.inlined(db, db.innermost_user_body(cb))
        psl = flow.backward(ib, {"p": {"l": 0, "proj": []}})
        for w in flow.return_writes(ib):
            ops = w.get("rv", {}).get("ops") or (w.get("term", {}).get("args") if w.get("term") else None) or []
            for o in ops:
                s2 = flow.backward(ib, o, at=w["bi"])
                psl.calls += s2.calls
                psl.fields |= s2.fields
        out.append((ib, psl))
        if depth < 1:
            out += _path_producers(db, ib, psl, depth + 1)
    return out


def rule_r4(chk, db, conf):
    prep = [b for b in fscore.fs_bodies(db) if any(st["rv"]["k"] == "agg" and st["rv"].get("adt", "").endswith("::FileWriter") for _, _, st in b.stmts())][0]
    tg = fscore.temp_guard(db)
    if tg is None:
        raise AnchorMissing("no type of the backend removes a temp file in its Drop impl")
    G, PATHF, _ = tg
    raw_prep = prep
    prep = inline.inlined(db, prep)
    # temp name <- atomic RMW on tmp_file_counter
    rmw = [(bi, t) for bi, t in prep.calls() if "sync::atomic::Atomic" in callee_def(t)]
    names = [short(callee_def(t)) for _, t in rmw]
    ok = False
    lit_roots = [db.root_of(raw_prep)]
    for bi, si, st in prep.stmts():
        rv = st["rv"]
        if rv["k"] == "agg" and rv.get("adt", "").rsplit("::", 1)[-1] == G:
            m = dict(zip(rv["fields"], rv["ops"]))
            sl = flow.backward(prep, m[PATHF], at=bi)
            # the name may be produced by a helper of the backend (`self.next_tmp_path()?`): its return value is part of the derivation
            producers = _path_producers(db, prep, sl)
            all_calls = [t for _, t, _ in sl.calls] + [t for pb, psl in producers for _, t, _ in psl.calls]
            all_fields = set(sl.fields)
            for pb, psl in producers:
                all_fields |= set(psl.fields)
            ok = any(short(callee_def(t)).startswith("fetch_") and "sync::atomic::Atomic" in callee_def(t) for t in all_calls) and \
                ("FileSystem", "tmp_file_counter") in all_fields
            rmw += [(0, t) for t in all_calls if "sync::atomic::Atomic" in callee_def(t) and (0, t) not in rmw]
            names = [short(callee_def(t)) for _, t in rmw]
            conf_ok = any(callee_def(t) in conf or callee_def(t).endswith("Absolutize::absolutize_virtually") for t in all_calls)
            lit_roots += [db.root_of(pb) for pb, _ in producers]
            chk.verdict(conf_ok, "R4", "temp-path-confined", prep.loc(bi), "the temp path does not go through the confinement function", nontrivial=False)
    chk.verdict(ok, "R4", "distinct-temp-names", prep.loc(rmw[0][0]) if rmw else prep.loc(),
                "temp file names are not derived from an atomic read-modify-write of the counter (atomic ops used: %s): concurrent writers can share a temp file" % names)
    # literal agreement between prepare_file_write and clean_old_tmp_files (the literals may be named constants, the tests may sit in
    # a predicate helper or in a closure)
    def lits_of(roots):
        out = []
        seen = set()
        work = [y for r in roots for y in db.nested(r)]
        while work:
            x = work.pop()
            if x.name in seen:
                continue
            seen.add(x.name)
            for bl in x.blocks:
                if bl["cleanup"]:
                    continue
                ops = [o for st in bl["stmts"] for o in st["rv"]["ops"]]
                if bl["term"]["k"] == "call":
                    ops += [flow.const_of(x, a) or a for a in bl["term"]["args"]]
                    hb = db.bodies.get(bl["term"]["callee"].get("resolved") or "") or db.bodies.get(callee_def(bl["term"]))
                    if hb is not None and hb.crate == "s3s_fs" and hb.kind in ("Fn", "AssocFn") and len(seen) < 60:
                        work += db.nested(hb)       # a private helper that formats the name / tests it (possibly behind the confinement wrapper)
                for o in ops:
                    if not isinstance(o, dict):
                        continue
                    if o.get("c") in ("str", "bstr"):
                        out.append(o["v"])
                    elif o.get("c") == "item":
                        out += [v for v in (db.const_str(o["def"]) or []) if isinstance(v, str)]
        return out
    fmt_lits = lits_of(lit_roots)
    cl = db.body("s3s_fs::fs::clean_old_tmp_files")
    if cl is None:
        chk.anchor_missing("R4", "clean_old_tmp_files not found")
        return
    pre = suf = None
    work = list(db.nested(cl))
    seen = set()
    while work:
        x = work.pop()
        if x.name in seen:
            continue
        seen.add(x.name)
        for bi, t in x.calls():
            if short(callee_def(t)) in ("starts_with", "ends_with"):
                args = list(paths.str_args(x, t))
                for a in t["args"]:
                    c = flow.const_of(x, a)
                    if c is not None and c.get("c") == "item":
                        args += [v for v in (db.const_str(c["def"]) or []) if isinstance(v, str)]
                if short(callee_def(t)) == "starts_with":
                    pre = (args or [pre])[0]
                else:
                    suf = (args or [suf])[0]
            hb = db.bodies.get(t["callee"].get("resolved") or "") or db.bodies.get(callee_def(t))
            if hb is not None and hb.crate == "s3s_fs" and hb.kind in ("Fn", "AssocFn") and len(seen) < 20:
                work += db.nested(hb)
            for a in t["args"]:         # a predicate handed over as a function item (`.is_some_and(is_tmp_file_name)`)
                if isinstance(a, dict) and a.get("c") == "fn" and db.body(a.get("def", "")) is not None and db.body(a["def"]).crate == "s3s_fs" and len(seen) < 20:
                    work += db.nested(db.body(a["def"]))
    chk.verdict(pre is not None and suf is not None and any(pre in l for l in fmt_lits) and any(suf in l for l in fmt_lits), "R4", "cleanup-matches-temp-names", cl.loc(),
                "clean_old_tmp_files matches %r...%r but prepare_file_write formats names from %s" % (pre, suf, fmt_lits[:4]))


def run(chk, db, tier):
    conf = fscore.confining_fns(db)
    chk.rule("R1", "verify-before-commit: after FileWriter::done() succeeded no client-rejection error (anything but InternalError) is reachable")
    chk.rule("R2", "body errors abort before commit: copy_bytes returns Err on the first stream/write error; done() only after the copy succeeded")
    chk.rule("R3", "temp-then-rename typestate: content written only through FileWriter; rename(tmp, dest); clean_tmp cleared only after the rename; Drop removes the temp file")
    chk.rule("R4", "distinct temp names from an atomic fetch_add; cleanup pattern agrees with the naming")
    chk.guard("R1", rule_r1, db)
    chk.guard("R2", rule_r2, db)
    chk.guard("R2", rule_r2b, db)
    chk.guard("R3", rule_r3, db, conf)
    chk.guard("R4", rule_r4, db, conf)
    # prerequisite for "a rejected upload leaves the previous content": the body the backend copies ends only because its source ended - an
    # adapter that reports the end early would turn a corrupted or truncated tail into a successful, committed upload (decided for C08)
    from . import c08
    from ..report import Sub
    sub = Sub(chk, "C08")
    sub.rule("R6", "end-of-stream provenance: body adapters return Ready(None) only because their source ended, never from a size hint")
    sub.guard("R6", c08.rule_r6, db)


META = {
    "level": "other",
    "explanation": "Commit ordering and the temp-file typestate of the s3s-fs writers as dominance/reachability facts: no client rejection is "
                   "reachable after done() renamed the temp file into place; the body copy must have succeeded before done(); object content is "
                   "written only through the FileWriter (temp file, then rename tmp->dest, cleanup flag cleared only after the rename, Drop removes "
                   "the temp file); temp names come from an atomic counter. Crash points inside rename and concurrent schedules are not decided. Also: no await point between creating the temp file and arming its cleanup; the body copy finishes successfully only because its source ended; end-of-stream provenance of the body adapters (C08.R6) as a prerequisite.",
    "not_decided": ["crash points inside rename", "concurrent schedules (only distinct temp files are decided)", "partial fs::copy in copy_object",
                    "metadata side files written after the commit"],
    "assumptions": ["rustc nightly MIR construction", "fs::rename within one directory tree is atomic (POSIX)"],
}
