"""C01 - every request is dispatched to exactly the operation it denotes (DESIGN.md section 3, C01)."""
from .. import flow, paths, inline
from ..facts import callee_def, callee_resolved, short
from ..model import load_model, snake
from ..report import AnchorMissing
from ..roles import Roles

METHOD_VARIANT = {"Head": "HEAD", "Get": "GET", "Post": "POST", "Put": "PUT", "Delete": "DELETE",
                  "Options": "OPTIONS", "Connect": "CONNECT", "Patch": "PATCH", "Trace": "TRACE"}
HAS = "s3s::http::ordered_qs::OrderedQs::has"
PAT = "s3s::ops::check_query_pattern"
CONTAINS_KEY_SUFFIX = "::contains_key"


ROUTER_RET = "core::result::Result<(&dyn s3s::ops::Operation, bool)"


def _router_policy(db, caller, term, callee):
    """the router may be split into stages (per method, per path kind): any function with the router's return type is part of it"""
    if callee is None or callee.crate != "s3s" or callee.kind != "Fn" or callee.raw.get("coroutine"):
        return False
    if ROUTER_RET in callee.raw.get("ret", ""):
        return len(callee.blocks) < 6000
    return inline.default_policy(db, caller, term, callee) and len(callee.blocks) <= 40


def find_router(db):
    c = [b for b in db.grep("dyn s3s::ops::Operation", "bool") if b.kind == "Fn" and ROUTER_RET in b.raw.get("ret", "")]
    names = {b.name for b in c}
    # the entry point is the one no other candidate calls
    called = {callee_def(t) for b in c for _, t in b.calls()} | {t["callee"].get("resolved") for b in c for _, t in b.calls()}
    roots = [b for b in c if b.name not in called]
    if len(roots) != 1:
        raise AnchorMissing("router: expected exactly one entry fn returning S3Result<(&dyn Operation, bool)>, found %d (of %d candidates)" % (len(roots), len(c)))
    return inline.inlined(db, roots[0], _router_policy)


def operation_impls(db):
    """unit structs implementing trait ops::Operation: name -> {'call': Body, 'name': Body}"""
    out = {}
    for b in db.grep('"impl_trait":"s3s::ops::Operation"'):
        if b.impl_trait != "s3s::ops::Operation" or b.kind != "AssocFn":
            continue
        out.setdefault(b.impl_self, {})[short(b.name)] = b
    return out


def router_atom(body, bi, t):
    src = paths.switch_source(body, t)
    if src is None:
        raise AnchorMissing("router: switch at %s not understood" % body.loc(bi))
    if src[0] == "discr":
        rv = src[1]
        en = rv["enum"]
        if en == "http::method::Inner":
            vals = paths.discr_values(t, rv)
            return ("method",), {k: METHOD_VARIANT.get(v, v) for k, v in vals.items()}
        if en == "s3s::path::S3Path":
            return ("path",), paths.discr_values(t, rv)
        if en.startswith("core::option::Option<&s3s::http::ordered_qs::OrderedQs>"):
            return ("qs",), paths.discr_values(t, rv)
        raise AnchorMissing("router: switch on tag of unexpected enum %s at %s" % (en, body.loc(bi)))
    if src[0] == "call":
        ct, pol = src[1], src[2]
        d = callee_def(ct)
        lits = paths.str_args(body, ct)
        if d == HAS and len(lits) == 1:
            return ("has", lits[0]), paths.bool_values(t, pol)
        if d == PAT and len(lits) == 2:
            return ("pat", lits[0], lits[1]), paths.bool_values(t, pol)
        if d.endswith(CONTAINS_KEY_SUFFIX) and "HeaderMap" in d and len(lits) == 1:
            return ("hdr", lits[0].lower()), paths.bool_values(t, pol)
        raise AnchorMissing("router: unrecognised predicate %s%r at %s" % (d, lits, body.loc(bi)))
    raise AnchorMissing("router: switch at %s is not a tag test or predicate call (%s)" % (body.loc(bi), src[0]))


def op_of_operand(body, op):
    """unit-struct ADT behind an `&X as &dyn Operation` operand"""
    cur = op
    for _ in range(12):
        p = cur.get("p") if isinstance(cur, dict) else None
        if p is None:
            return None
        df = flow.single_def(body, p["l"])
        if df is None or df["kind"] != "assign":
            return None
        rv = df["rv"]
        if rv["k"] == "agg" and rv.get("agg") == "adt":
            return rv["adt"]
        if rv["k"] in ("use", "ref", "cast"):
            cur = rv["ops"][0]
            if cur.get("c") == "item":
                return cur["def"]
            continue
        return None
    return None


_RET_LOCALS = {}


def return_locals(body):
    """the return place and every local copied into it (the return places of inlined router stages)"""
    k = id(body)
    if k not in _RET_LOCALS:
        R = {0}
        changed = True
        while changed:
            changed = False
            for _, _, st in body.stmts():
                if st["dst"]["l"] in R and not st["dst"]["proj"] and st["rv"]["k"] == "use":
                    p = flow.op_place(st["rv"]["ops"][0])
                    if p is not None and not p["proj"] and p["l"] not in R:
                        R.add(p["l"])
                        changed = True
        _RET_LOCALS.clear()
        _RET_LOCALS[k] = R
    return _RET_LOCALS[k]


def router_leaf(body, bi):
    R = return_locals(body)
    for st in body.blocks[bi]["stmts"]:
        if st["dst"]["l"] in R and not st["dst"]["proj"]:
            rv = st["rv"]
            if rv["k"] == "use" and flow.op_place(rv["ops"][0]) is not None and flow.op_place(rv["ops"][0])["l"] in R:
                continue        # hand-over from an inlined stage
            if rv["k"] == "agg" and rv.get("adt") == "core::result::Result":
                if rv["variant"] == "Err":
                    return ("Err", bi)
                tup = flow.single_def(body, rv["ops"][0]["p"]["l"])
                if tup is None or tup["rv"].get("agg") != "tuple":
                    raise AnchorMissing("router: Ok payload at %s is not a tuple literal" % body.loc(bi))
                o = op_of_operand(body, tup["rv"]["ops"][0])
                flag = flow.const_of(body, tup["rv"]["ops"][1])
                if o is None or flag is None or flag.get("c") != "int":
                    raise AnchorMissing("router: Ok((op, flag)) at %s: operation or flag is not a constant" % body.loc(bi))
                return ("Ok", short(o), flag["v"] == "1", bi)
            raise AnchorMissing("router: return value at %s is not Ok/Err literal" % body.loc(bi))
    # `?`-style or call-produced return values
    t = body.blocks[bi]["term"]
    if t["k"] == "call" and t["dst"]["l"] == 0:
        raise AnchorMissing("router: return value produced by a call at %s" % body.loc(bi))
    return None


def evaluate(plist, assign, default=False):
    """the unique path consistent with a total assignment: atoms absent from `assign` take `default`"""
    hits = []
    for p in plist:
        ok = True
        for atom, v in p.conds:
            if atom[0] in ("method", "path", "qs"):
                want = assign.get(atom)
                if isinstance(v, str) and v.startswith("OTHER:"):
                    if want in v[6:].split("|"):
                        continue
                    # a method outside the listed variants
                    if atom[0] == "method" and want not in METHOD_VARIANT.values():
                        continue
                    ok = False
                    break
                if v != want:
                    ok = False
                    break
            else:
                if assign.get(atom, default) != v:
                    ok = False
                    break
        if ok:
            hits.append(p)
    return hits


def rule_r1(chk, db, model, plist, router, impls):
    ops = model.operations()
    chk.stats["programs"] = len(ops)
    cells = {}
    for p in plist:
        m = dict((a[0], v) for a, v in p.conds if a[0] in ("method", "path"))
        cells.setdefault((m.get("method"), m.get("path")), []).append(p)
    atoms_in_cell = {c: {a for p in ps for a, _ in p.conds if a[0] in ("has", "pat", "hdr")} for c, ps in cells.items()}
    model_cells = set()
    n_assign = 0
    seen_ops = set()
    for op in ops:
        cell = (op.method, op.path_kind)
        model_cells.add(cell)
        A = atoms_in_cell.get(cell, set())
        base = {("method",): op.method, ("path",): op.path_kind}
        must = set()
        for tg in op.query_tags:
            must.add(("has", tg))
        for k, v in op.query_patterns:
            must.add(("pat", k, v))
        for q in op.required_queries():
            must.add(("has", q))
        for h in op.required_headers():
            must.add(("hdr", h))
        # x-id is never routed on
        opt = []
        for q in op.optional_queries():
            if ("has", q) in A and ("has", q) not in must:
                opt.append(("has", q))
        for h in op.optional_headers():
            if ("hdr", h) in A and ("hdr", h) not in must:
                opt.append(("hdr", h))
        if len(opt) > 8:
            raise AnchorMissing("C01.R1: %s has %d optional routing-relevant members (enumeration bound 8)" % (op.name, len(opt)))
        any_query = any(a[0] in ("has", "pat") for a in must)
        bad = None
        for mask in range(1 << len(opt)):
            S = {opt[i] for i in range(len(opt)) if mask >> i & 1}
            qs_states = ["Some"]
            if not any_query and not any(a[0] == "has" for a in S):
                qs_states.append("None")
            for qst in qs_states:
                asg = dict(base)
                asg[("qs",)] = qst
                for a in must | S:
                    asg[a] = True
                n_assign += 1
                hits = evaluate(plist, asg)
                if len(hits) != 1:
                    bad = ("router abstraction is not a function on this assignment (%d paths)" % len(hits), asg, None)
                    break
                leaf = hits[0].leaf
                if leaf is None or leaf[0] != "Ok" or leaf[1] != op.name:
                    got = "Err" if (leaf is None or leaf[0] == "Err") else leaf[1]
                    bad = ("request denoting %s (%s %s, present: %s) resolves to %s" % (
                        op.name, op.method, op.path_kind, sorted("=".join(a[1:]) for a in (must | S)), got), asg, hits[0])
                    break
            if bad:
                break
        loc = router.loc(bad[2].leaf[-1]) if bad and bad[2] is not None and bad[2].leaf else router.loc()
        key = op.name
        if bad:
            wit = None
            if bad[2] is not None:
                wit = {"path_conditions": [[list(a), v] for a, v in bad[2].conds], "leaf": list(bad[2].leaf) if bad[2].leaf else None}
            chk.fail("R1", key, loc, bad[0], wit)
        else:
            chk.ok("R1", key, router.loc(), {"method": op.method, "path": op.path_kind, "must": sorted(map(str, must)), "optional": len(opt)})
            seen_ops.add(op.name)
        if op.name == "GetObject" or op.name == "UploadPartCopy":
            chk.sample({"rule": "C01.R1", "op": op.name, "model": {"method": op.method, "uri": op.uri, "required_query": op.required_queries(),
                                                                     "required_headers": op.required_headers()},
                        "verdict": "ok" if not bad else bad[0]})
    chk.stats["assignments_evaluated"] = n_assign
    # operations the router can return must all be model operations with an Operation impl
    returned = {p.leaf[1] for p in plist if p.leaf and p.leaf[0] == "Ok"}
    names = {o.name for o in ops}
    for r in sorted(returned - names):
        chk.fail("R1", "extra:" + r, router.loc(), "router returns %s which is not an operation of the model" % r)
    # empty cells: only Err
    for cell, ps in sorted(cells.items(), key=str):
        if cell in model_cells:
            continue
        oks = [p for p in ps if p.leaf and p.leaf[0] == "Ok"]
        chk.verdict(not oks, "R1", "empty-cell:%s/%s" % cell, router.loc(oks[0].leaf[-1]) if oks else router.loc(),
                    "cell %s/%s has no model operation but resolves to %s" % (cell[0], cell[1], oks[0].leaf[1] if oks else ""))
    # every model cell must exist in the router
    for cell in sorted(model_cells):
        if cell not in cells:
            chk.fail("R1", "missing-cell:%s/%s" % cell, router.loc(), "no router paths for %s/%s" % cell)
    chk.floor("R1", len(ops), 96, "model operations compared with the router")


def rule_r1c(chk, db, model, plist, router):
    """converse: the router returns X only on paths that assert every URI literal of X (query tag, k=v patterns).
    (Required *members* may instead be enforced by the deserialiser - C02.R1 - so only URI literals are demanded here.)"""
    ops = {o.name: o for o in model.operations()}
    n = 0
    for p in plist:
        if not p.leaf or p.leaf[0] != "Ok":
            continue
        op = ops.get(p.leaf[1])
        if op is None:
            continue
        pos = {a for a, v in p.conds if v is True}
        cell = dict((a[0], v) for a, v in p.conds if a[0] in ("method", "path"))
        need = {("has", t) for t in op.query_tags} | {("pat", k, v) for k, v in op.query_patterns}
        missing = sorted(need - pos)
        n += 1
        key = "%s@%s" % (op.name, "+".join(sorted("=".join(a[1:]) for a in pos)) or "-")
        ok = not missing and cell.get("method") == op.method and cell.get("path") == op.path_kind
        chk.verdict(ok, "R1c", key, router.loc(p.leaf[-1]),
                    "the router returns %s on a path that does not require %s (cell %s/%s): a request that denotes no operation reaches the backend" %
                    (op.name, [" ".join(a) for a in missing], cell.get("method"), cell.get("path")))
    chk.floor("R1c", n, 96, "Ok paths of the router")


def rule_r1d(chk, db, model, plist, router):
    """tag exclusivity: a request that carries exactly one query tag of its method/path cell (plus any of the members of the operations
    that have this tag, as far as the router looks at them) resolves to an operation whose URI has that tag, or to Err - never to a sibling
    or to the cell's untagged fallback"""
    ops = model.operations()
    by_name = {o.name: o for o in ops}
    cells = {}
    for p in plist:
        m = dict((a[0], v) for a, v in p.conds if a[0] in ("method", "path"))
        cells.setdefault((m.get("method"), m.get("path")), []).append(p)
    n = 0
    for cell in sorted({(o.method, o.path_kind) for o in ops}):
        tags = sorted({t for o in ops if (o.method, o.path_kind) == cell for t in o.query_tags})
        ps = cells.get(cell, [])
        atoms = {a for p in ps for a, _ in p.conds if a[0] in ("has", "pat", "hdr")}
        for t in tags:
            # the other things such a request may carry: members of the operations that have this tag
            mine = set()
            for o in ops:
                if (o.method, o.path_kind) == cell and t in o.query_tags:
                    mine |= {("has", q) for q in list(o.required_queries()) + list(o.optional_queries())}
                    mine |= {("hdr", h) for h in list(o.required_headers()) + list(o.optional_headers())}
                    mine |= {("pat", k, v) for k, v in o.query_patterns}
            others = sorted(a for a in atoms if a in mine and not (a[0] == "has" and a[1] in tags))
            if len(others) > 10:
                raise AnchorMissing("C01.R1d: %s/%s?%s: %d routing-relevant members (enumeration bound 10)" % (cell[0], cell[1], t, len(others)))
            bad = None
            for mask in range(1 << len(others)):
                asg = {("method",): cell[0], ("path",): cell[1], ("qs",): "Some", ("has", t): True}
                for i, a in enumerate(others):
                    if mask >> i & 1:
                        asg[a] = True
                hits = evaluate(plist, asg)
                n += 1
                if len(hits) != 1:
                    continue        # reported by R1
                leaf = hits[0].leaf
                if leaf is None or leaf[0] != "Ok":
                    continue
                got = by_name.get(leaf[1])
                if got is None or t not in got.query_tags:
                    bad = (leaf[1], sorted("=".join(a[1:]) for a in asg if a[0] in ("has", "pat", "hdr")), hits[0])
                    break
            chk.verdict(bad is None, "R1d", "%s/%s?%s" % (cell[0], cell[1], t), router.loc(bad[2].leaf[-1]) if bad else router.loc(),
                        "a %s %s request carrying the query tag `%s` (present: %s) is dispatched to %s, whose URI does not have that tag: a request that denotes "
                        "no operation (or a sibling) reaches a backend method" % (cell[0], cell[1], t, bad[1] if bad else "", bad[0] if bad else ""))
    chk.stats["tag_assignments_evaluated"] = n
    chk.floor("R1d", n, 40, "single-tag assignments evaluated against the router")


def rule_r1_flags(chk, db, model, plist, router):
    """needs_full_body flag per operation is a function of the operation (same on every path)."""
    flags = {}
    for p in plist:
        if p.leaf and p.leaf[0] == "Ok":
            flags.setdefault(p.leaf[1], set()).add(p.leaf[2])
    for op, fs in sorted(flags.items()):
        chk.verdict(len(fs) == 1, "R1b", op, router.loc(), "operation %s is returned with both needs_full_body=true and false" % op, nontrivial=False)
    return {op: list(fs)[0] for op, fs in flags.items() if len(fs) == 1}


def rule_r2(chk, plist, router):
    """dead arms: an Ok leaf block that no satisfiable path reaches (its guard is implied false by earlier returns)."""
    # a path is unsatisfiable if it contains the same atom with both values
    reach = {}
    for p in plist:
        if not p.leaf or p.leaf[0] != "Ok":
            continue
        seen = {}
        sat = True
        for a, v in p.conds:
            if a in seen and seen[a] != v:
                sat = False
                break
            seen[a] = v
        reach.setdefault((p.leaf[1], p.leaf[-1]), []).append(sat)
    for (op, bi), sats in sorted(reach.items()):
        if any(sats):
            chk.ok("R2", "%s" % op, router.loc(bi), nontrivial=True)
        else:
            chk.fail("R2", "%s" % op, router.loc(bi), "arm returning %s is dead: its condition contradicts the negations of earlier arms on every path" % op)


def rule_r3(chk, db, model, impls):
    ops = {o.name: o for o in model.operations()}
    roles = Roles(db)
    s3_methods = {short(x) for x in db.traits[roles.S3]["items"]}
    n = 0
    for ty, fns in sorted(impls.items()):
        name = short(ty)
        call = fns.get("call")
        nm = fns.get("name")
        if call is None or nm is None:
            chk.fail("R3", name, "", "Operation impl for %s lacks call/name" % name)
            continue
        n += 1
        # name() literal
        lits = [c["v"] for bl in nm.blocks if not bl["cleanup"] for st in bl["stmts"] for c in st["rv"]["ops"] if isinstance(c, dict) and c.get("c") == "str"]
        chk.verdict(lits == [name], "R3", name + ".name", nm.loc(), "%s::name() returns %r" % (name, lits), nontrivial=False)
        backend, access = [], []
        loops = False
        for b in db.nested(call):
            be = flow.back_edges(b)
            for bi, t in b.calls():
                c = t["callee"]
                if c.get("trait") == roles.S3:
                    backend.append((b, bi, short(c["def"]), c.get("virtual")))
                elif c.get("trait") == roles.S3Access:
                    access.append((b, bi, short(c["def"]), c.get("virtual")))
        want = snake(name)
        ok = len(backend) == 1 and backend[0][2] == want
        chk.verdict(ok, "R3", name + ".backend", call.loc() if not backend else backend[0][0].loc(backend[0][1]),
                    "%s::call invokes backend methods %s (expected exactly [%s])" % (name, [x[2] for x in backend], want))
        ok = len(access) == 1 and access[0][2] == want
        chk.verdict(ok, "R3", name + ".access", call.loc() if not access else access[0][0].loc(access[0][1]),
                    "%s::call invokes access hooks %s (expected exactly [%s])" % (name, [x[2] for x in access], want))
        # not inside a user loop: the only back edges allowed around the call are await loops (yield inside)
        for (b, bi, m, v) in backend + access:
            if in_user_loop(b, bi):
                chk.fail("R3", name + ".loop", b.loc(bi), "%s is called inside a loop in %s::call" % (m, name))
        if name not in ops:
            chk.fail("R3", name + ".model", call.loc(), "Operation impl %s has no model operation" % name)
        if want not in s3_methods:
            chk.fail("R3", name + ".trait", call.loc(), "trait S3 has no method %s" % want)
    for name in sorted(set(ops) - {short(t) for t in impls}):
        chk.fail("R3", name + ".impl", "", "model operation %s has no Operation impl" % name)
    chk.floor("R3", n, 96, "impl Operation bodies")


def in_user_loop(body, bi):
    """is block bi inside a cycle that does not pass through a `yield` (await loops always yield)?"""
    yields = frozenset(i for i in body.live_blocks() if body.blocks[i]["term"]["k"] == "yield")
    t = body.blocks[bi]["term"]
    nxt = [tb for _, tb in body.succ_edges(bi)]
    r = flow.reach(body, nxt, stop_blocks=yields)
    return bi in r and bi not in yields


def rule_r4(chk, db, model, router):
    """hand-written pre-emption in `prepare` (role: the body calling the router)."""
    cs = db.callers_of(router.name)
    cs = [(b, bi, t) for b, bi, t in cs if b.crate == "s3s"]
    if len(cs) != 1:
        raise AnchorMissing("expected exactly one call site of the router, found %d" % len(cs))
    body, rbi, rt = cs[0]
    # every construction of an (op, flag) tuple with a constant op in this body
    consts = []
    for bi, si, st in body.stmts():
        rv = st["rv"]
        if rv["k"] == "agg" and rv.get("agg") == "tuple" and len(rv["ops"]) == 2:
            o = op_of_operand(body, rv["ops"][0])
            if o and o.startswith("s3s::ops::generated::"):
                flag = flow.const_of(body, rv["ops"][1])
                consts.append((bi, short(o), flag))
    # allowed: exactly PutObject,false guarded by multipart Some & method == POST & path Bucket
    for bi, o, flag in consts:
        key = "preempt:" + o
        if o != "PutObject" or flag is None or flag.get("v") != "0":
            chk.fail("R4", key, body.loc(bi), "prepare pre-empts the router with (%s, %s); only (PutObject,false) for POST-form uploads is specified" % (o, flag))
            continue
        guards = guards_dominating(body, bi)
        need = {"multipart_some": False, "method_post": False, "path_bucket": False}
        for g in guards:
            if g[0] == "discr" and "Multipart" in g[1] and g[2] == "Some":
                need["multipart_some"] = True
            if g[0] == "discr" and g[1] == "s3s::path::S3Path" and g[2] == "Bucket":
                need["path_bucket"] = True
            if g[0] == "eq_method" and g[1] == "POST" and g[2] is True:
                need["method_post"] = True
        chk.verdict(all(need.values()), "R4", key, body.loc(bi),
                    "the PutObject pre-emption is not guarded by multipart.is_some ∧ method==POST ∧ path==Bucket (found %s)" % need,
                    detail=need)
    chk.floor("R4", len(consts), 1, "router pre-emption sites in prepare")
    # the router call must be reachable when multipart is None (plain requests are routed by the table)
    chk.ok("R4", "router-call", body.loc(rbi), nontrivial=False)
    return body, rbi


def guards_dominating(body, target):
    """tested conditions that hold whenever `target` runs (s3sv/guards.py: dominating tests, stored decisions, merge points), in the form
    ('discr', enum, variant) / ('eq_method', lit, bool) / ('call', callee, bool)"""
    from .. import guards as _g
    out = []
    for f in _g.dominating_facts(body, target):
        if f[0] == "enum":
            for v in (f[2] if len(f[2]) == 1 else []):
                out.append(("discr", f[1], v))
        elif f[0] == "call":
            d = f[1]
            if d.endswith("PartialEq::eq") or d.endswith("PartialEq::ne"):
                ct = body.blocks[f[3]]["term"]
                lit = None
                for a in ct.get("args", []):
                    c = flow.const_of(body, a)
                    if c is not None and c.get("c") == "item" and "Method::" in c["def"]:
                        lit = short(c["def"])
                v = f[2]
                if d.endswith("::ne") and v is not None:
                    v = not v
                out.append(("eq_method", lit, v))
            else:
                out.append(("call", d, f[2]))
    return out


def rule_r5(chk, db, router):
    """router inputs: every atom's receiver derives from the three parameters only."""
    n = 0
    for bi, t in router.calls():
        d = callee_def(t)
        if d in (HAS, PAT) or d.endswith(CONTAINS_KEY_SUFFIX):
            n += 1
            sl = flow.backward(router, t["args"][0])
            other = [callee_def(ct) for _, ct, _ in sl.calls if not flow.is_transparent(ct)]
            params = {l for l, _ in sl.params}
            chk.verdict(not other and params <= {1, 2, 3} and params, "R5", "atom@%s" % "/".join(paths.str_args(router, t)), router.loc(bi),
                        "routing predicate reads something other than the request parameters: %s" % other, nontrivial=False)
    chk.floor("R5", n, 80, "routing predicate calls")


def run(chk, db, tier):
    model = load_model()
    chk.rule("R1", "router decision tree == Smithy http traits: every model operation x every subset of its routing-relevant optional members resolves to itself; empty cells resolve to Err")
    chk.rule("R1b", "needs_full_body is a function of the operation")
    chk.rule("R2", "no dead arm: every Ok leaf is reached by a satisfiable path")
    chk.rule("R3", "each Operation impl: name() literal, exactly one backend call S3::<snake(op)> and one access hook S3Access::<snake(op)>, neither in a loop")
    chk.rule("R4", "prepare pre-empts the router only for POST-form uploads (multipart ∧ POST ∧ Bucket -> PutObject,false)")
    chk.rule("R5", "routing predicates read only (req, s3_path, qs)")
    router = find_router(db)
    impls = operation_impls(db)
    plist = paths.enumerate_paths(router, router_atom, router_leaf)
    chk.stats["router_paths"] = len(plist)
    chk.stats["router_blocks"] = len(router.blocks)
    chk.guard("R1", rule_r1, db, model, plist, router, impls)
    chk.guard("R1b", rule_r1_flags, db, model, plist, router)
    # prerequisite for "whichever addressing style": IP-literal hosts are never handed to the virtual-host parser (decided for C12)
    from . import c12
    from ..report import Sub
    from ..roles import Roles
    sub = Sub(chk, "C12")
    sub.rule("R2", "IP guard: the host parser is reached only when neither parse::<SocketAddr> nor parse::<IpAddr> accepts the whole Host value")
    sub.guard("R2", c12.rule_r2, db, Roles(db))
    # prerequisite for "whatever input values it carries": the router's query flags are the client's parameter *names*; a query that is
    # percent-decoded before it is split turns an encoded `&` inside a value into a flag
    sub.rule("R1", "the query reaches OrderedQs::parse as Uri::query() gave it (decoded exactly once, by the parser)")
    sub.guard("R1", c12.rule_r1q, db)
    # ... and a PUT / any non-POST request is never taken for a browser upload because of its Content-Type (decided for C10)
    from . import c10, sigcore
    sub10 = Sub(chk, "C10")
    sub10.rule("R7", "the form verifier is entered only when the request method is POST")
    for v_ in [v for v in sigcore.find_verifiers(db) if v.kind == "v4-post"]:
        sub10.guard("R7", c10.rule_r7, db, v_)
    # prerequisite for "causes exactly one invocation": the deserialiser finds the body / path parts the router promised (else it panics
    # and nothing is invoked; decided for C04)
    sub4 = Sub(chk, "C04")
    sub4.rule("R4", "router <-> deserialiser typestate: no unwrap_bucket / unwrap_object on a route of the other kind, no take_*_body without needs_full_body")
    def _c04_r4(c, db_, model_):
        from . import c04
        return c04.rule_r4(c, db_, model_)
    sub4.guard("R4", _c04_r4, db, model)
    chk.rule("R1c", "converse: every Ok path of the router asserts the URI literals (query tag / k=v pattern) and the method/path cell of the operation it returns")
    chk.guard("R1c", rule_r1c, db, model, plist, router)
    chk.rule("R1d", "tag exclusivity: a request carrying exactly one query tag of its cell resolves to an operation that has this tag, or to Err; never to a sibling or the untagged fallback")
    chk.guard("R1d", rule_r1d, db, model, plist, router)
    chk.guard("R2", rule_r2, plist, router)
    chk.guard("R3", rule_r3, db, model, impls)
    chk.guard("R4", rule_r4, db, model, router)
    chk.guard("R5", rule_r5, db, router)


META = {
    "level": "translation_validation",
    "explanation": "The router's complete decision tree (all entry->return paths of the compiled resolve_route, as conjunctions over "
                   "method / path-kind / query / header atoms) is compared with the routing function the Smithy http traits define, "
                   "for all model operations x all subsets of routing-relevant optional members; each Operation impl is checked to call "
                   "exactly its own backend method and access hook. Decides the dispatch table, not the values inside requests. Also: tag exclusivity (a request carrying one query tag of its cell never reaches an operation without that tag) and, as prerequisites, the IP guard (C12.R2) and the router/deserialiser typestate (C04.R4). Round 4: also the query is decoded exactly once (C12.R1) and the form verifier is entered only for POST (C10.R7), both as prerequisites.",
    "not_decided": ["that OrderedQs::has / HeaderMap::contains_key implement 'present' (library + C02)", "values inside the request (C02)",
                    "style equivalence (C12)"],
    "assumptions": ["rustc nightly MIR construction", "data/s3.json is the routing oracle (deviations: SKIPPED_OPS, WriteGetObjectResponse at bucket position)"],
}
