"""C09 - results do not depend on body framing: the structural part (no byte is lost or judged early at a frame boundary).

The property quantifies over all partitions of a body into frames and all Pending schedules; that is not decided here.  What *is* in the shape
of the code, and is necessary for it: an incremental parser must (a) never hand out or judge bytes that a later frame may still extend, and
(b) carry every byte it has not consumed into the next step.  The rules below decide these carry / termination conditions for the three
hand-written incremental readers (multipart form parser, file-part scanner, chunk reader) as dataflow facts.
"""
from .. import flow, inline, writes
from ..facts import callee_def, short
from ..report import AnchorMissing
from .sigcore import first_writes_from, is_err_write

MP = "s3s::http::multipart::"
CH = "s3s::http::aws_chunked_stream::"
SEARCH = ("memchr::memchr::memchr", "memchr::memchr::memchr_iter", "memchr::memchr::memchr2", "memchr::memchr::memchr3", "memchr::memmem::find",
          "memchr::memmem::find_iter")
APPEND = ("extend_from_slice", "extend", "push", "put", "put_slice", "append", "write_all", "reserve", "push_str", "extend_from_within")
SHRINK = ("clear", "truncate", "drain", "split_off", "retain", "remove", "swap_remove", "pop", "take", "set_len", "resize", "dedup", "replace")


def _loop_blocks(b):
    """blocks of real loops (the small polling loop an `.await` expands to is not one)"""
    from .c08 import natural_loops
    out = set()
    for head, blocks in natural_loops(b).items():
        out |= blocks
    return out


def _is_yield(t):
    d = callee_def(t)
    return d.startswith("transform_stream::") and short(d).startswith("yield")


def _user_body(db, name):
    b = db.body(name)
    if b is None:
        return None
    return inline.inlined(db, db.innermost_user_body(b))


def rule_r1(chk, db):
    """the line splitter hands out a line only when it has seen its terminator"""
    cands = [b for b in db.bodies.values() if b.crate == "s3s" and b.kind == "AssocFn" and b.name.startswith(MP) and "Option<&" in b.raw.get("ret", "") and
             any(callee_def(t) in SEARCH for _, t in b.calls())]
    chk.floor("R1", len(cands), 1, "line splitters in the multipart parser (a method that searches for the line feed and returns Option<&[u8]>)")
    for b0 in cands:
        b = inline.inlined(db, b0)
        found = set()
        for bi, t in b.calls():
            d = callee_def(t)
            if d in SEARCH:
                o = flow.outcomes_of_call(b, bi, extra_transparent=lambda x: callee_def(x).endswith("IntoIterator::into_iter"))
                found |= o.get("Some")
                # items of an iterator of positions
                for b2, t2 in b.calls():
                    if callee_def(t2).endswith("iterator::Iterator::next"):
                        sl = flow.backward(b, t2["args"][0], at=b2)
                        if any(cb == bi for cb, _, _ in sl.calls):
                            found |= flow.outcomes_of_call(b, b2).get("Some")
        somes = [w for w in flow.return_writes(b) if w["kind"] == "Some"]
        chk.floor("R1." + short(b0.name), len(somes), 1, "Some(line) returns of %s" % short(b0.name))
        for w in somes:
            ok = bool(found) and flow.must_pass(b, [w["bi"]], found)
            chk.verdict(ok, "R1", "%s.terminated#%d" % (short(b0.name), w["bi"]), b.loc(w["bi"]),
                        "%s returns the unterminated rest of the buffer as if it were a complete line: whether `--boun` is the boundary line depends on where "
                        "the transport cut the frame (a form whose first frame is shorter than the boundary line is refused as malformed)" % short(b0.name))


def _vec_local(b, op):
    """the owned buffer local an argument views"""
    for l, pr in (flow.resolve_chain(b, op) or []):
        if not pr and l < len(b.locals) and not b.locals[l].startswith("&") and ("Vec<" in b.locals[l] or "BytesMut" in b.locals[l] or "String" in b.locals[l]):
            return l
    r = flow.resolve_place(b, op)
    return r[0] if r and not r[1] else None


def rule_r2(chk, db):
    """every frame is appended to the buffer the form parser re-reads; the buffer never shrinks between attempts"""
    b = _user_body(db, MP + "transform_multipart")
    if b is None:
        raise AnchorMissing("transform_multipart not found")
    tp = [(bi, t) for bi, t in b.calls() if short(callee_def(t)) == "try_parse" and callee_def(t).startswith(MP)]
    if len(tp) != 1:
        raise AnchorMissing("transform_multipart: %d calls of try_parse" % len(tp))
    tbi, tt = tp[0]
    buf = None
    for a in tt["args"]:
        l = _vec_local(b, a)
        if l is not None and "Vec<u8>" in b.locals[l]:
            buf = l
    if buf is None:
        raise AnchorMissing("transform_multipart: the byte buffer given to try_parse was not found")
    loops = _loop_blocks(b)
    nexts = [bi for bi, t in b.calls() if short(callee_def(t)) == "next" and "stream" in callee_def(t).lower()]
    appended_from_frame = False
    bad = []
    for df in b.defs().get(buf, []):
        if df["bi"] not in loops:
            continue
        if df["kind"] == "mutarg":
            nm = short(callee_def(df["term"]))
            if nm in APPEND:
                for a in df["term"]["args"][1:]:
                    sl = flow.backward(b, a, at=df["bi"])
                    if any(cb in nexts for cb, _, _ in sl.calls):
                        appended_from_frame = True
            elif nm in SHRINK or not flow.is_transparent(df["term"]):
                if nm not in ("as_slice", "as_ref", "deref", "len", "is_empty", "as_mut", "deref_mut", "try_parse"):
                    bad.append((df["bi"], nm))
        elif df["kind"] in ("assign", "call"):
            bad.append((df["bi"], "reassigned"))
    chk.verdict(appended_from_frame, "R2", "frames-accumulate", b.loc(tbi), "the frames read from the body are not appended to the buffer try_parse re-reads")
    chk.verdict(not bad, "R2", "buffer-never-shrinks", b.loc(bad[0][0]) if bad else b.loc(tbi),
                "the parse buffer is %s inside the read loop: bytes of earlier frames are lost, so the outcome depends on where the frames were cut" %
                ", ".join(sorted({x for _, x in bad})))


def rule_r3(chk, db):
    """what the form parser did not consume is handed to the file-part scanner"""
    b = inline.inlined(db, db.body(MP + "try_parse"))
    if b is None:
        raise AnchorMissing("try_parse not found")
    fs = [(bi, t) for bi, t in b.calls() if callee_def(t).startswith(MP + "FileStream") and short(callee_def(t)) == "new"]
    chk.floor("R3", len(fs), 1, "FileStream::new call sites in try_parse")
    for bi, t in fs:
        ok = False
        for a in t["args"]:
            sl = flow.backward(b, a, at=bi)
            if ("CrlfLines", "slice") in sl.fields and any(rv.get("variant") == "Some" for _, rv in sl.aggs):
                ok = True
        chk.verdict(ok, "R3", "remainder-to-file-stream", b.loc(bi), "the bytes that follow the part headers in the parse buffer are not passed to FileStream::new: "
                    "file bytes that arrived in the same frame as the headers are dropped")


def rule_r4(chk, db):
    """chunk reader: the bytes left over by one read are the starting bytes of the next"""
    gens = [inline.inlined(db, b) for b in db.grep("transform_stream::yielder::Yielder") if b.crate == "s3s" and b.name.startswith(CH) and
            any(_is_yield(t) for _, t in b.calls())]
    gens = [b for b in gens if any(short(callee_def(t)) in ("read_meta_bytes", "read_data") for _, t in b.calls())]
    if len(gens) != 1:
        raise AnchorMissing("chunk reader generator: %d candidates" % len(gens))
    g = gens[0]
    reads = [(bi, t) for bi, t in g.calls() if short(callee_def(t)) in ("read_meta_bytes", "read_data") and callee_def(t).startswith(CH)]
    chk.floor("R4", len(reads), 2, "read_meta_bytes / read_data call sites in the chunk reader")
    read_blocks = {bi for bi, _ in reads}
    loops = _loop_blocks(g)
    for bi, t in reads:
        # the leftover parameter: the Bytes-typed argument
        prev = [a for a in t["args"] if flow.op_place(a) is not None and "bytes::bytes::Bytes" in g.locals[flow.op_place(a)["l"]] and
                not g.locals[flow.op_place(a)["l"]].startswith("&")]
        if len(prev) != 1:
            chk.fail("R4", "carry#%d" % bi, g.loc(bi), "cannot identify the leftover-bytes argument of %s" % short(callee_def(t)))
            continue
        root = flow.resolve_place(g, prev[0])
        l = root[0] if root else flow.op_place(prev[0])["l"]
        # the carried bytes may live in a field of the reader's state and be moved out for the call (`mem::take(&mut self.prev_bytes)`):
        # then that field is the carried variable
        field = None
        tk = flow.single_def(g, l)
        if tk is not None and tk["kind"] == "call" and callee_def(tk["term"]) in ("core::mem::take", "core::mem::replace") and tk["term"]["args"]:
            src = flow.resolve_place(g, tk["term"]["args"][0])
            if src is not None and flow.fields_only(src[1]):
                l, field = src[0], flow.fields_only(src[1])
        # every definition of the carried variable inside the read loop comes from the result of a read
        bad = []
        n_in_loop = 0
        if field is None:
            defs_ = [df for df in g.defs().get(l, [])]
        else:
            defs_ = []
            for b2, s2, st2 in g.stmts():
                rp = flow.resolve_place(g, {"p": st2["dst"]}) if st2["dst"]["proj"] else None
                if rp is not None and rp[0] == l and flow.fields_only(rp[1]) == field:
                    defs_.append({"kind": "assign", "rv": st2["rv"], "bi": b2})
            for b2, t2 in g.calls():
                rp = flow.resolve_place(g, {"p": t2["dst"]}) if t2["dst"]["proj"] else None
                if rp is not None and rp[0] == l and flow.fields_only(rp[1]) == field:
                    defs_.append({"kind": "call", "term": t2, "bi": b2})
        for df in defs_:
            if df["kind"] == "mutarg" or df["bi"] not in loops:
                continue
            n_in_loop += 1
            if df["kind"] == "assign":
                sl = flow.backward(g, df["rv"]["ops"][0], at=df["bi"]) if df["rv"].get("ops") else None
                if sl is None or not any(cb in read_blocks for cb, _, _ in sl.calls):
                    bad.append(df["bi"])
            elif df["kind"] == "call" and df["bi"] not in read_blocks:
                bad.append(df["bi"])
        sl0 = flow.backward(g, prev[0], at=bi)
        derives = any(cb in read_blocks and cb != bi for cb, _, _ in sl0.calls) or bi not in loops
        chk.verdict(derives and not bad, "R4", "carry#%d" % bi, g.loc(bad[0]) if bad else g.loc(bi),
                    "the leftover bytes given to %s do not (only) come from what the previous read returned: bytes that arrived in the same frame as "
                    "the previous token are dropped or replaced" % short(callee_def(t)))


# ------------------------------------------------------------------------------------------------------------------------------
# R6: "no byte here yet" is not a verdict
# ------------------------------------------------------------------------------------------------------------------------------

ACCESSORS = ("first", "last", "get", "split_first", "split_last", "split_first_chunk", "first_chunk", "split_at_checked")
TRANSPORT_VARIANTS = ("Underlying",)


def _readers(db):
    """the coroutine bodies that pull frames from the transport, with their helpers inlined"""
    out = []
    for b in db.bodies.values():
        if b.crate != "s3s" or not (b.name.startswith(MP) or b.name.startswith(CH)) or "::tests::" in b.name:
            continue
        if any(short(callee_def(t)) == "next" and "stream" in callee_def(t).lower() for _, t in b.calls()):
            out.append(b)
    roots = inline.roots_with(db, out, lambda x: any(short(callee_def(t)) == "next" and "stream" in callee_def(t).lower() for _, t in x.calls()))
    return roots


def _pull_blocks(b):
    return {bi for bi, t in b.calls() if short(callee_def(t)) == "next" and "stream" in callee_def(t).lower()}


def _is_byte_view(b, op):
    """the operand is (a view of) a byte buffer: Bytes, &[u8], Vec<u8>, BytesMut"""
    p = flow.op_place(op)
    if p is None:
        return False
    tys = [b.locals[p["l"]]] if p["l"] < len(b.locals) else []
    for l, _ in (flow.resolve_chain(b, op) or []):
        if l < len(b.locals):
            tys.append(b.locals[l])
    return any(("bytes::bytes::Bytes" in ty) or ("[u8]" in ty) or ("Vec<u8>" in ty) or ("BytesMut" in ty) for ty in tys)


def _len_operand(b, op, lr, at_bi):
    """the buffer key whose length the operand is, or None"""
    from .. import lenrel
    p = flow.op_place(op)
    if p is None or p["proj"]:
        return None
    pt = lenrel.Point(at_bi, None)
    d = lr.one_def(b, p["l"], pt)
    if d is None or d[0] == "param":
        return None
    if d[0] == "stmt":
        rv = d[3]["rv"]
        if rv["k"] == "un" and rv.get("op") == "PtrMetadata":
            return lr.key_of(b, rv["ops"][0], lenrel.Point(d[1], d[2])), rv["ops"][0]
        if rv["k"] in ("use", "cast") and flow.op_place(rv["ops"][0]) is not None:
            return _len_operand(b, rv["ops"][0], lr, d[1])
        return None
    t = d[2]
    if callee_def(t) in lenrel.LEN_FNS and t["args"]:
        return lr.key_of(b, t["args"][0], lenrel.Point(d[1], None)), t["args"][0]
    return None


def absent_edges(db, b):
    """edges taken when the byte buffer at hand has no (further) byte: list of (edge, what, block).  Only tests whose outcome can really be
    `absent` are listed (a look-ahead whose position is provably inside the buffer is not)."""
    from .. import lenrel, paths
    from .c04_panics import _lr
    lr = _lr(db)
    out = []
    # (A) comparisons of a length with a constant
    for bi in b.live_blocks():
        t = b.blocks[bi]["term"]
        if t["k"] != "switch":
            continue
        src = paths.switch_source(b, t)
        if not src or src[0] != "bin":
            continue
        rv, pol, dbi = src[1], src[2], src[3]
        op_ = rv["op"]
        if op_ not in ("Eq", "Ne", "Lt", "Le", "Gt", "Ge"):
            continue
        for i in (0, 1):
            lk = _len_operand(b, rv["ops"][i], lr, dbi)
            c = flow.const_int_eval(b, rv["ops"][1 - i])
            if lk is None or lk[0] is None or c is None or not _is_byte_view(b, lk[1]):
                continue
            o = op_ if i == 0 else {"Lt": "Gt", "Le": "Ge", "Gt": "Lt", "Ge": "Le"}.get(op_, op_)
            # truth value of `len o c` that means len == 0 (and excludes len >= 1)
            empty_when = {("Eq", 0): True, ("Ne", 0): False, ("Lt", 1): True, ("Ge", 1): False, ("Le", 0): True, ("Gt", 0): False}.get((o, c))
            if empty_when is None:
                continue
            if lr.len_lower(b, lk[0], lenrel.Point(bi, None)) >= 1:
                continue        # an earlier test on the same, unchanged buffer already excluded the empty case (match lowering re-tests)
            vals = paths.bool_values(t, pol)
            for lab, v in vals.items():
                if v is empty_when:
                    out.append(((bi, lab), "length test", bi))
    for bi, t in b.calls():
        d = callee_def(t)
        sh = short(d)
        if not t["args"]:
            continue
        # (B) is_empty / has_remaining
        if sh in ("is_empty", "has_remaining") and _is_byte_view(b, t["args"][0]) and ("bytes::" in d or "core::slice" in d or "alloc::vec" in d or "core::str" in d):
            o = flow.outcomes_of_call(b, bi)
            for e in (o.get("true") if sh == "is_empty" else o.get("false")):
                out.append((e, sh, bi))
        # (C) Option-producing look-ahead
        elif sh in ACCESSORS and d.startswith("core::slice::") and _is_byte_view(b, t["args"][0]):
            pt = lenrel.Point(bi, None)
            key = lr.key_of(b, t["args"][0], pt)
            if key is not None:
                if sh in ("first", "last", "split_first", "split_last") and lr.len_lower(b, key, pt) >= 1:
                    continue
                if sh == "get" and len(t["args"]) == 2:
                    ip = flow.op_place(t["args"][1])
                    ity = b.locals[ip["l"]] if ip is not None and ip["l"] < len(b.locals) else ("usize" if ip is None else "")
                    if "usize" in ity and "Range" not in ity and lr.le_len(b, t["args"][1], key, pt, strict=True):
                        continue
            o = flow.outcomes_of_call(b, bi)
            for e in o.get("None"):
                out.append((e, sh + "() is None", bi))
            for b2, t2 in b.calls():
                d2 = callee_def(t2)
                if not d2.startswith("core::option::Option") or not t2["args"]:
                    continue
                p2 = flow.op_place(t2["args"][0])
                if p2 is None or p2["l"] not in o.carriers:
                    continue
                s2 = short(d2)
                o2 = flow.outcomes_of_call(b, b2)
                if s2 in ("is_none", "is_none_or"):
                    es = o2.get("true")
                elif s2 in ("is_some", "is_some_and"):
                    es = o2.get("false")
                elif s2 == "map_or" and len(t2["args"]) >= 2:
                    c = flow.const_of(b, t2["args"][1])
                    v = None if c is None else str(c.get("v"))
                    es = o2.get("true") if v in ("1", "True", "true") else o2.get("false") if v in ("0", "False", "false") else set()
                else:
                    continue
                for e in es:
                    out.append((e, "%s().%s" % (sh, s2), b2))
    return out


def _verdict_blocks(b):
    """blocks that conclude: a (non-transport) error is built, or the reader completes normally"""
    out = {}
    for bi, si, st in b.stmts():
        rv = st["rv"]
        if rv["k"] == "agg" and rv.get("agg") == "adt" and rv.get("adt", "").endswith("Error") and rv.get("adt", "").startswith("s3s::") and \
                rv.get("variant") not in TRANSPORT_VARIANTS:
            out[bi] = "%s::%s" % (short(rv["adt"]), rv.get("variant"))
    for w in flow.return_writes(b):
        if w["kind"] in ("Ok",) and w["bi"] not in out:
            out[w["bi"]] = "normal completion"
    return out


def rule_r6(chk, db):
    """absence of a byte in the current buffer leads to another pull, never directly to a verdict"""
    readers = _readers(db)
    chk.floor("R6", len(readers), 4, "stream-pulling reader bodies in the multipart / chunk modules")
    n = 0
    for b in readers:
        pulls = _pull_blocks(b)
        verdicts = _verdict_blocks(b)
        seen = set()
        for e, what, tb in absent_edges(db, b):
            if (e, tb) in seen:
                continue
            seen.add((e, tb))
            n += 1
            try:
                start = flow.edge_target(b, e)
            except KeyError:
                continue
            r = flow.reach(b, [start], stop_blocks=frozenset(pulls))
            hit = sorted(x for x in r if x in verdicts and x not in pulls)
            # a transport that has ended is a verdict the reader may take: those paths pass a pull and are cut above
            name = b.name.replace("s3s::http::", "").replace("::{closure#0}", "")
            chk.verdict(not hit, "R6", "%s:%s@%d" % (name, what.replace(" ", "-"), _line_key(b, tb)), b.loc(hit[0]) if hit else b.loc(tb),
                        "when the buffer at hand has no further byte (%s, line %s) the reader concludes `%s` without pulling another frame: the outcome "
                        "depends on where the transport cut the body (an empty frame or a cut right here changes it)"
                        % (what, b.loc(tb).split(":")[-1], verdicts[hit[0]] if hit else ""))
    chk.floor("R6.tests", n, 1, "emptiness / look-ahead tests in the readers")


def _line_key(b, bi):
    """ordinal of the test among the tests of its kind in the body (stable under edits elsewhere in the file)"""
    return sorted(b.live_blocks()).index(bi)


# ------------------------------------------------------------------------------------------------------------------------------
# R7: a token longer than one byte is never searched for inside a single frame
# ------------------------------------------------------------------------------------------------------------------------------

MULTI_SEARCH = ("memchr::memmem::find", "memchr::memmem::find_iter", "memchr::memmem::rfind", "memchr::memmem::rfind_iter", "core::str::<impl str>::find",
                "core::str::<impl str>::rfind", "core::str::<impl str>::split_once", "core::slice::<impl [T]>::windows", "core::str::<impl str>::contains")
SINGLE_SEARCH = ("memchr::memchr::memchr", "memchr::memchr::memchr_iter", "memchr::memchr::memchr2", "memchr::memchr::memchr3", "memchr::memchr::memrchr")


def _needle_len(b, t):
    """length of the constant needle of a multi-byte-capable search; None when it is not a constant"""
    d = callee_def(t)
    idx = 1
    if d.endswith("windows"):
        return flow.const_int_eval(b, t["args"][1]) if len(t["args"]) > 1 else None
    if len(t["args"]) <= idx:
        return None
    c = flow.const_of(b, t["args"][idx])
    if c is None:
        return None
    if c.get("c") in ("str", "bstr"):
        return len(c["v"].encode("utf-8", "surrogateescape")) if isinstance(c["v"], str) else len(c["v"])
    if c.get("c") == "int" and c.get("ty") in ("char", "u8"):
        return 1
    return None


def rule_r7(chk, db):
    """token searches in the per-frame code of the readers: one-byte needles, or a haystack that includes the bytes carried from earlier frames"""
    readers = _readers(db)
    n = 0
    for r in readers:
        root = db.bodies.get(r.name) or r
        for b in [r] + [x for x in db.nested(root, include_self=False)]:
            for bi, t in b.calls():
                d = callee_def(t)
                if d in SINGLE_SEARCH:
                    n += 1
                    chk.ok("R7", "%s:%s" % (b.name.replace("s3s::http::", ""), short(d)), b.loc(bi), "one-byte needle", nontrivial=False)
                    continue
                if d not in MULTI_SEARCH or not t["args"]:
                    continue
                n += 1
                k = _needle_len(b, t)
                sl = flow.backward(b, t["args"][0], at=bi)
                roots = set(sl.locals) | {l for l, _ in sl.params}
                tys = [b.locals[l] for l in roots if l < len(b.locals)]
                carried = any(("Vec<u8>" in ty or "BytesMut" in ty or "String" in ty) for ty in tys)
                if b.kind == "Closure" and any(l == 1 and pr for l, pr in sl.params):
                    carried = True      # a captured variable of the enclosing reader (not the frame the closure was handed): not judged
                ok = (k == 1) or carried
                chk.verdict(ok, "R7", "%s:%s" % (b.name.replace("s3s::http::", ""), short(d)), b.loc(bi),
                            "a token of %s bytes is searched for inside one frame only (%s): when the transport cuts the body inside the token it is not found"
                            % (k if k is not None else "several", short(d)))
    chk.floor("R7", n, 2, "token searches in the reader bodies and their closures")


# ------------------------------------------------------------------------------------------------------------------------------
# R8: the scan over candidate positions looks at every candidate
# ------------------------------------------------------------------------------------------------------------------------------

def rule_r8(chk, db):
    """file-part scanner: the loop over candidate delimiter positions is left only when the candidates are exhausted or one of them matched
    (completely, or as a prefix that is carried)"""
    from .c08 import natural_loops
    gens = [b for b in _readers(db) if b.name.startswith(MP) and any(_is_yield(t) for _, t in b.calls())]
    if len(gens) != 1:
        raise AnchorMissing("file-part scanner generator: %d candidates" % len(gens))
    g = gens[0]
    loops = natural_loops(g)
    n = 0
    for nb, t in g.calls():
        if not callee_def(t).endswith("iterator::Iterator::next") or not t["args"]:
            continue
        sl = flow.backward(g, t["args"][0], at=nb)
        if not any(callee_def(c) in SEARCH for _, c, _ in sl.calls):
            continue
        inner = None
        for head, blocks in loops.items():
            if nb in blocks and (inner is None or len(blocks) < len(inner)):
                inner = blocks
        if inner is None:
            continue
        n += 1
        o = flow.outcomes_of_call(g, nb)
        allowed = set(o.get("None"))
        for b2, t2 in g.calls():
            if b2 in inner and short(callee_def(t2)) in ("starts_with", "eq", "ends_with") and callee_def(t2).startswith(("core::slice", "core::cmp", "core::str", "bytes::")):
                allowed |= flow.outcomes_of_call(g, b2).get("true")
        outside = frozenset(x for x in g.live_blocks() if x not in inner)
        r = flow.reach_from_edges(g, [e for e in o.get("Some") if e not in allowed], removed=frozenset(allowed), stop_blocks=outside)
        bad = []
        for x in sorted(r & inner):
            for lab, tb in g.succ_edges(x):
                if tb not in inner and not g.blocks[tb]["cleanup"] and (x, lab) not in allowed:
                    term = g.blocks[tb]["term"]
                    if term["k"] == "unreachable" and not g.blocks[tb]["stmts"]:
                        continue
                    bad.append((x, tb))
        chk.verdict(not bad, "R8", "candidate-scan#%d" % n, g.loc(bad[0][0]) if bad else g.loc(nb),
                    "the scan over candidate delimiter positions is abandoned before all candidates were looked at and without one of them matching: "
                    "a delimiter (or its first bytes at the end of the frame) behind an earlier carriage return is delivered as file content")
    chk.floor("R8", n, 1, "candidate loops (iteration over search hits) in the file-part scanner")


def rule_r5(chk, db):
    """file-part scanner: a possible boundary prefix at the end of a frame is kept and re-scanned together with the next frame"""
    gens = [b for b in db.grep("transform_stream::yielder::Yielder") if b.crate == "s3s" and b.name.startswith(MP) and any(_is_yield(t) for _, t in b.calls())]
    if len(gens) != 1:
        raise AnchorMissing("file-part scanner generator: %d candidates" % len(gens))
    g = inline.inlined(db, gens[0])
    nexts = [bi for bi, t in g.calls() if short(callee_def(t)) == "next" and "stream" in callee_def(t).lower()]
    # the carry buffer: an owned Vec<u8> that receives both a frame and the un-yielded remainder
    ok = False
    where = g.loc()
    for l in range(len(g.locals)):
        if g.locals[l] != "alloc::vec::Vec<u8>":
            continue
        from_frame = from_rest = False
        for df in g.defs().get(l, []):
            if df["kind"] != "mutarg" or short(callee_def(df["term"])) not in APPEND:
                continue
            for a in df["term"]["args"][1:]:
                sl = flow.backward(g, a, at=df["bi"])
                if any(cb in nexts for cb, _, _ in sl.calls):
                    from_frame = True
                # the remainder of the buffer that was being scanned (a Bytes local that is also split / yielded)
                if any("bytes::bytes::Bytes" in g.locals[x] for x in sl.locals) and any(short(callee_def(c)) in ("split_to", "deref", "as_ref") for _, c, _ in sl.calls):
                    from_rest = True
        if from_frame and from_rest:
            # and the scan buffer is rebuilt from it
            for bi, t in g.calls():
                if short(callee_def(t)) in ("from", "into", "freeze", "copy_from_slice") and t["args"]:
                    sl = flow.backward(g, t["args"][0], at=bi)
                    if l in sl.locals:
                        ok = True
                        where = g.loc(bi)
    chk.verdict(ok, "R5", "boundary-prefix-carried", where, "a possible boundary prefix at the end of a frame is not kept together with the next frame: "
                "a boundary split across two frames is delivered to the backend as file content")


HINTS = ("::is_end_stream", "::size_hint", "::remaining_length", "::exact", "::upper", "::lower")
PULLS = ("next", "try_next", "poll_next", "poll_frame", "frame", "collect", "poll_next_unpin")


def rule_r9(chk, db):
    """buffered bodies: whether another frame is pulled is decided by the stream ending, never by a length hint.  A body collector that stops
    because `remaining_length()` / `size_hint()` says nothing remains returns a truncated body whenever the transport's hint is inexact - and
    only when the body arrives in more than one frame."""
    n = 0
    for b in db.bodies.values():
        if b.crate != "s3s" or "::tests::" in b.name or not any(h[2:] in b.text for h in HINTS):
            continue
        root = db.root_of(b).name
        if not (root.startswith("s3s::http::body::") or root.startswith("s3s::ops::") or root.startswith("s3s::http::multipart") or root.startswith("s3s::http::aws_chunked_stream")):
            continue
        if short(root) in ("poll_next", "poll_frame", "size_hint", "is_end_stream", "remaining_length"):
            continue        # the adapters themselves: C08.R6
        pulls = {bi for bi, t in b.calls() if short(callee_def(t)) in PULLS and ("stream" in callee_def(t).lower() or "body" in callee_def(t).lower() or "Body" in callee_def(t))}
        if not pulls:
            continue
        oks = {w["bi"] for w in flow.return_writes(b) if w["kind"] in ("Ok", "Some", "use", "call")}
        for sb in b.live_blocks():
            t = b.blocks[sb]["term"]
            if t["k"] != "switch":
                continue
            sl = flow.backward(b, t["discr"], at=sb)
            hint = sorted({short(callee_def(x)) for _, x, _ in sl.calls if any(callee_def(x).endswith(h) for h in HINTS)})
            if not hint:
                continue
            n += 1
            edges = b.succ_edges(sb)
            reach = {lab: flow.reach(b, [tb], stop_blocks=frozenset([sb])) for lab, tb in edges}
            pulling = [lab for lab in reach if reach[lab] & pulls]
            quiet = [lab for lab in reach if not (reach[lab] & pulls) and (reach[lab] & oks)]
            # the quiet side is an error return when all its first return writes are Err
            quiet = [lab for lab in quiet if not all(is_err_write(w) for w in first_writes_from(b, [(sb, lab)]))]
            chk.verdict(not (pulling and quiet), "R9", "end-by-hint@%s#%d" % (short(root), sb), b.loc(sb),
                        "whether %s pulls another frame is decided by a length hint (%s): when the hint is inexact the body is returned after its first "
                        "frame(s) - the outcome depends on how the transport frames the body" % (short(root), ", ".join(hint)))
    chk.stats["hint_switches"] = n


def run(chk, db, tier):
    chk.rule("R1", "the multipart line splitter returns Some(line) only after it has found the line's terminator")
    chk.rule("R2", "transform_multipart: every frame is appended to the buffer try_parse re-reads; the buffer is never cleared / truncated / replaced in the loop")
    chk.rule("R3", "try_parse hands the unconsumed rest of the parse buffer to the file-part scanner")
    chk.rule("R4", "chunk reader: the leftover bytes given to each read are what the previous read returned")
    chk.rule("R5", "file-part scanner: a boundary prefix at the end of a frame is carried and re-scanned with the next frame")
    chk.rule("R6", "absence is not a verdict: where a reader finds no (further) byte in the buffer at hand, every path pulls another frame before it reports a format error or completes")
    chk.rule("R7", "token searches in per-frame code use one-byte needles, or run over a buffer that includes the bytes carried from earlier frames")
    chk.rule("R8", "file-part scanner: the loop over candidate delimiter positions ends only by exhaustion or by a (complete or carried-prefix) match")
    chk.guard("R1", rule_r1, db)
    chk.guard("R2", rule_r2, db)
    chk.guard("R3", rule_r3, db)
    chk.guard("R4", rule_r4, db)
    chk.guard("R5", rule_r5, db)
    chk.guard("R6", rule_r6, db)
    chk.guard("R7", rule_r7, db)
    chk.guard("R8", rule_r8, db)
    chk.rule("R9", "buffered bodies: pulling the next frame is never decided by a length hint (remaining_length / size_hint / is_end_stream)")
    chk.guard("R9", rule_r9, db)


META = {
    "level": "other",
    "explanation": "The property quantifies over all partitions of a request body into frames and all Pending schedules; that quantifier is NOT decided. "
                   "Decided: eight structural necessary conditions of it, as dataflow / dominance facts over the three hand-written incremental readers - "
                   "the line splitter hands out only terminated lines; the form parser's buffer accumulates every frame and never shrinks; the unconsumed "
                   "rest goes to the file-part scanner; the chunk reader threads its leftover bytes from read to read; the file-part scanner carries a "
                   "boundary prefix across frames; finding no (further) byte in the buffer at hand always leads to another pull before a format error or "
                   "completion is concluded (empty frames are neutral, look-ahead beyond the buffer is undecided); a token longer than one byte is never "
                   "searched for inside a single frame; the scan over candidate delimiter positions ends only by exhaustion or a match. Breaking any of "
                   "them makes the outcome depend on where the transport cuts the frames. Round 4: in the body collectors a length hint never decides whether another frame is pulled (R9).",
    "not_decided": ["the schedule / partition quantifier itself", "Pending wake-up orders", "parser state equivalence after arbitrary prefixes",
                    "plain streamed bodies (pass-through, see C08.R6)", "buffered XML bodies beyond R9 (collection delegated to http_body_util::BodyExt::collect)"],
    "assumptions": ["rustc nightly MIR construction", "memchr / memchr_iter return positions of the searched byte"],
}
