"""C09 - results do not depend on body framing: the structural part (no byte is lost or judged early at a frame boundary).

The property quantifies over all partitions of a body into frames and all Pending schedules; that is not decided here.  What *is* in the shape
of the code, and is necessary for it: an incremental parser must (a) never hand out or judge bytes that a later frame may still extend, and
(b) carry every byte it has not consumed into the next step.  The rules below decide these carry / termination conditions for the three
hand-written incremental readers (multipart form parser, file-part scanner, chunk reader) as dataflow facts.
"""
from .. import flow, inline, writes
from ..facts import callee_def, short
from ..report import AnchorMissing

MP = "s3s::http::multipart::"
CH = "s3s::http::aws_chunked_stream::"
SEARCH = ("memchr::memchr::memchr", "memchr::memchr::memchr_iter", "memchr::memchr::memchr2", "memchr::memchr::memchr3", "memchr::memmem::find",
          "memchr::memmem::find_iter")
APPEND = ("extend_from_slice", "extend", "push", "put", "put_slice", "append", "write_all", "reserve", "push_str", "extend_from_within")
SHRINK = ("clear", "truncate", "drain", "split_off", "retain", "remove", "swap_remove", "pop", "take", "set_len", "resize", "dedup", "replace")


def _loop_blocks(b):
    """blocks of real loops (the small polling loop an `.await` expands to is not one)"""
    from .c08 import natural_loops
    out = set()
    for head, blocks in natural_loops(b).items():
        out |= blocks
    return out


def _is_yield(t):
    d = callee_def(t)
    return d.startswith("transform_stream::") and short(d).startswith("yield")


def _user_body(db, name):
    b = db.body(name)
    if b is None:
        return None
    return inline.inlined(db, db.innermost_user_body(b))


def rule_r1(chk, db):
    """the line splitter hands out a line only when it has seen its terminator"""
    cands = [b for b in db.bodies.values() if b.crate == "s3s" and b.kind == "AssocFn" and b.name.startswith(MP) and "Option<&" in b.raw.get("ret", "") and
             any(callee_def(t) in SEARCH for _, t in b.calls())]
    chk.floor("R1", len(cands), 1, "line splitters in the multipart parser (a method that searches for the line feed and returns Option<&[u8]>)")
    for b0 in cands:
        b = inline.inlined(db, b0)
        found = set()
        for bi, t in b.calls():
            d = callee_def(t)
            if d in SEARCH:
                o = flow.outcomes_of_call(b, bi, extra_transparent=lambda x: callee_def(x).endswith("IntoIterator::into_iter"))
                found |= o.get("Some")
                # items of an iterator of positions
                for b2, t2 in b.calls():
                    if callee_def(t2).endswith("iterator::Iterator::next"):
                        sl = flow.backward(b, t2["args"][0], at=b2)
                        if any(cb == bi for cb, _, _ in sl.calls):
                            found |= flow.outcomes_of_call(b, b2).get("Some")
        somes = [w for w in flow.return_writes(b) if w["kind"] == "Some"]
        chk.floor("R1." + short(b0.name), len(somes), 1, "Some(line) returns of %s" % short(b0.name))
        for w in somes:
            ok = bool(found) and flow.must_pass(b, [w["bi"]], found)
            chk.verdict(ok, "R1", "%s.terminated#%d" % (short(b0.name), w["bi"]), b.loc(w["bi"]),
                        "%s returns the unterminated rest of the buffer as if it were a complete line: whether `--boun` is the boundary line depends on where "
                        "the transport cut the frame (a form whose first frame is shorter than the boundary line is refused as malformed)" % short(b0.name))


def _vec_local(b, op):
    """the owned buffer local an argument views"""
    for l, pr in (flow.resolve_chain(b, op) or []):
        if not pr and l < len(b.locals) and not b.locals[l].startswith("&") and ("Vec<" in b.locals[l] or "BytesMut" in b.locals[l] or "String" in b.locals[l]):
            return l
    r = flow.resolve_place(b, op)
    return r[0] if r and not r[1] else None


def rule_r2(chk, db):
    """every frame is appended to the buffer the form parser re-reads; the buffer never shrinks between attempts"""
    b = _user_body(db, MP + "transform_multipart")
    if b is None:
        raise AnchorMissing("transform_multipart not found")
    tp = [(bi, t) for bi, t in b.calls() if short(callee_def(t)) == "try_parse" and callee_def(t).startswith(MP)]
    if len(tp) != 1:
        raise AnchorMissing("transform_multipart: %d calls of try_parse" % len(tp))
    tbi, tt = tp[0]
    buf = None
    for a in tt["args"]:
        l = _vec_local(b, a)
        if l is not None and "Vec<u8>" in b.locals[l]:
            buf = l
    if buf is None:
        raise AnchorMissing("transform_multipart: the byte buffer given to try_parse was not found")
    loops = _loop_blocks(b)
    nexts = [bi for bi, t in b.calls() if short(callee_def(t)) == "next" and "stream" in callee_def(t).lower()]
    appended_from_frame = False
    bad = []
    for df in b.defs().get(buf, []):
        if df["bi"] not in loops:
            continue
        if df["kind"] == "mutarg":
            nm = short(callee_def(df["term"]))
            if nm in APPEND:
                for a in df["term"]["args"][1:]:
                    sl = flow.backward(b, a, at=df["bi"])
                    if any(cb in nexts for cb, _, _ in sl.calls):
                        appended_from_frame = True
            elif nm in SHRINK or not flow.is_transparent(df["term"]):
                if nm not in ("as_slice", "as_ref", "deref", "len", "is_empty", "as_mut", "deref_mut", "try_parse"):
                    bad.append((df["bi"], nm))
        elif df["kind"] in ("assign", "call"):
            bad.append((df["bi"], "reassigned"))
    chk.verdict(appended_from_frame, "R2", "frames-accumulate", b.loc(tbi), "the frames read from the body are not appended to the buffer try_parse re-reads")
    chk.verdict(not bad, "R2", "buffer-never-shrinks", b.loc(bad[0][0]) if bad else b.loc(tbi),
                "the parse buffer is %s inside the read loop: bytes of earlier frames are lost, so the outcome depends on where the frames were cut" %
                ", ".join(sorted({x for _, x in bad})))


def rule_r3(chk, db):
    """what the form parser did not consume is handed to the file-part scanner"""
    b = inline.inlined(db, db.body(MP + "try_parse"))
    if b is None:
        raise AnchorMissing("try_parse not found")
    fs = [(bi, t) for bi, t in b.calls() if callee_def(t).startswith(MP + "FileStream") and short(callee_def(t)) == "new"]
    chk.floor("R3", len(fs), 1, "FileStream::new call sites in try_parse")
    for bi, t in fs:
        ok = False
        for a in t["args"]:
            sl = flow.backward(b, a, at=bi)
            if ("CrlfLines", "slice") in sl.fields and any(rv.get("variant") == "Some" for _, rv in sl.aggs):
                ok = True
        chk.verdict(ok, "R3", "remainder-to-file-stream", b.loc(bi), "the bytes that follow the part headers in the parse buffer are not passed to FileStream::new: "
                    "file bytes that arrived in the same frame as the headers are dropped")


def rule_r4(chk, db):
    """chunk reader: the bytes left over by one read are the starting bytes of the next"""
    gens = [b for b in db.grep("transform_stream::yielder::Yielder") if b.crate == "s3s" and b.name.startswith(CH)]
    gens = [b for b in gens if any(short(callee_def(t)) in ("read_meta_bytes", "read_data") for _, t in b.calls())]
    if len(gens) != 1:
        raise AnchorMissing("chunk reader generator: %d candidates" % len(gens))
    g = inline.inlined(db, gens[0])
    reads = [(bi, t) for bi, t in g.calls() if short(callee_def(t)) in ("read_meta_bytes", "read_data") and callee_def(t).startswith(CH)]
    chk.floor("R4", len(reads), 2, "read_meta_bytes / read_data call sites in the chunk reader")
    read_blocks = {bi for bi, _ in reads}
    loops = _loop_blocks(g)
    for bi, t in reads:
        # the leftover parameter: the Bytes-typed argument
        prev = [a for a in t["args"] if flow.op_place(a) is not None and "bytes::bytes::Bytes" in g.locals[flow.op_place(a)["l"]] and
                not g.locals[flow.op_place(a)["l"]].startswith("&")]
        if len(prev) != 1:
            chk.fail("R4", "carry#%d" % bi, g.loc(bi), "cannot identify the leftover-bytes argument of %s" % short(callee_def(t)))
            continue
        root = flow.resolve_place(g, prev[0])
        l = root[0] if root else flow.op_place(prev[0])["l"]
        # every definition of the carried variable inside the read loop comes from the result of a read
        bad = []
        n_in_loop = 0
        for df in g.defs().get(l, []):
            if df["kind"] == "mutarg" or df["bi"] not in loops:
                continue
            n_in_loop += 1
            if df["kind"] == "assign":
                sl = flow.backward(g, df["rv"]["ops"][0], at=df["bi"]) if df["rv"].get("ops") else None
                if sl is None or not any(cb in read_blocks for cb, _, _ in sl.calls):
                    bad.append(df["bi"])
            elif df["kind"] == "call" and df["bi"] not in read_blocks:
                bad.append(df["bi"])
        sl0 = flow.backward(g, prev[0], at=bi)
        derives = any(cb in read_blocks and cb != bi for cb, _, _ in sl0.calls) or bi not in loops
        chk.verdict(derives and not bad, "R4", "carry#%d" % bi, g.loc(bad[0]) if bad else g.loc(bi),
                    "the leftover bytes given to %s do not (only) come from what the previous read returned: bytes that arrived in the same frame as "
                    "the previous token are dropped or replaced" % short(callee_def(t)))


def rule_r5(chk, db):
    """file-part scanner: a possible boundary prefix at the end of a frame is kept and re-scanned together with the next frame"""
    gens = [b for b in db.grep("transform_stream::yielder::Yielder") if b.crate == "s3s" and b.name.startswith(MP) and any(_is_yield(t) for _, t in b.calls())]
    if len(gens) != 1:
        raise AnchorMissing("file-part scanner generator: %d candidates" % len(gens))
    g = inline.inlined(db, gens[0])
    nexts = [bi for bi, t in g.calls() if short(callee_def(t)) == "next" and "stream" in callee_def(t).lower()]
    # the carry buffer: an owned Vec<u8> that receives both a frame and the un-yielded remainder
    ok = False
    where = g.loc()
    for l in range(len(g.locals)):
        if g.locals[l] != "alloc::vec::Vec<u8>":
            continue
        from_frame = from_rest = False
        for df in g.defs().get(l, []):
            if df["kind"] != "mutarg" or short(callee_def(df["term"])) not in APPEND:
                continue
            for a in df["term"]["args"][1:]:
                sl = flow.backward(g, a, at=df["bi"])
                if any(cb in nexts for cb, _, _ in sl.calls):
                    from_frame = True
                # the remainder of the buffer that was being scanned (a Bytes local that is also split / yielded)
                if any("bytes::bytes::Bytes" in g.locals[x] for x in sl.locals) and any(short(callee_def(c)) in ("split_to", "deref", "as_ref") for _, c, _ in sl.calls):
                    from_rest = True
        if from_frame and from_rest:
            # and the scan buffer is rebuilt from it
            for bi, t in g.calls():
                if short(callee_def(t)) in ("from", "into", "freeze", "copy_from_slice") and t["args"]:
                    sl = flow.backward(g, t["args"][0], at=bi)
                    if l in sl.locals:
                        ok = True
                        where = g.loc(bi)
    chk.verdict(ok, "R5", "boundary-prefix-carried", where, "a possible boundary prefix at the end of a frame is not kept together with the next frame: "
                "a boundary split across two frames is delivered to the backend as file content")


def run(chk, db, tier):
    chk.rule("R1", "the multipart line splitter returns Some(line) only after it has found the line's terminator")
    chk.rule("R2", "transform_multipart: every frame is appended to the buffer try_parse re-reads; the buffer is never cleared / truncated / replaced in the loop")
    chk.rule("R3", "try_parse hands the unconsumed rest of the parse buffer to the file-part scanner")
    chk.rule("R4", "chunk reader: the leftover bytes given to each read are what the previous read returned")
    chk.rule("R5", "file-part scanner: a boundary prefix at the end of a frame is carried and re-scanned with the next frame")
    chk.guard("R1", rule_r1, db)
    chk.guard("R2", rule_r2, db)
    chk.guard("R3", rule_r3, db)
    chk.guard("R4", rule_r4, db)
    chk.guard("R5", rule_r5, db)


META = {
    "level": "other",
    "explanation": "The property quantifies over all partitions of a request body into frames and all Pending schedules; that quantifier is NOT decided. "
                   "Decided: five structural necessary conditions of it, as dataflow / dominance facts over the three hand-written incremental readers - "
                   "the line splitter hands out only terminated lines; the form parser's buffer accumulates every frame and never shrinks; the unconsumed "
                   "rest goes to the file-part scanner; the chunk reader threads its leftover bytes from read to read; the file-part scanner carries a "
                   "boundary prefix across frames. Breaking any of them makes the outcome depend on where the transport cuts the frames.",
    "not_decided": ["the schedule / partition quantifier itself", "Pending wake-up orders", "parser state equivalence after arbitrary prefixes",
                    "buffered XML bodies (store_all_unlimited) and plain streamed bodies (pass-through, see C08.R6)"],
    "assumptions": ["rustc nightly MIR construction", "memchr / memchr_iter return positions of the searched byte"],
}
