"""C14 - timestamps, ranges, copy sources keep their meaning through text (DESIGN.md section 3, C14)."""
from .. import flow, guards, inline, paths
from ..facts import callee_def, short
from ..report import AnchorMissing
from .c12 import is_decoder

TS = "s3s::dto::timestamp::"
RG = "s3s::dto::range::"
ENCODERS = ("urlencoding::encode", "urlencoding::enc::encode", "percent_encoding::utf8_percent_encode", "percent_encoding::percent_encode")

UTC_SOURCES = ("assume_utc", "from_unix_timestamp", "from_unix_timestamp_nanos", "now_utc")
ANY_SOURCES = ("OffsetDateTime::parse", "assume_offset", "now_local")


def const_literals(db, name, depth=0):
    """all str/bstr literals in the initialiser of a const, following nested const items / promoted bodies"""
    out = []
    b = db.body(name)
    if b is None or depth > 4:
        return out
    for x in [b] + list(db.nested(b, include_self=False)):
        for bl in x.blocks:
            if bl["cleanup"]:
                continue
            for st in bl["stmts"]:
                for o in st["rv"]["ops"]:
                    if isinstance(o, dict):
                        if o.get("c") in ("str", "bstr"):
                            out.append(o["v"])
                        elif o.get("c") == "item":
                            out += const_literals(db, o["def"], depth + 1)
            t = bl["term"]
            if t["k"] == "call":
                for a in t["args"]:
                    if isinstance(a, dict) and a.get("c") in ("str", "bstr"):
                        out.append(a["v"])
    return out


def literal_zone(lits):
    return any(l.strip() in ("Z", "GMT", "UTC", "UT") or l.endswith(" GMT") or l.endswith("Z") and len(l) <= 2 for l in lits)


def _is_utc_const(b, op, at):
    s2 = flow.backward(b, op, at=at)
    return any(cst.get("c") == "item" and cst["def"].endswith("UtcOffset::UTC") for cst in s2.consts)


def offset_kinds(b, op, at, seen=None, depth=0):
    """abstract value of an OffsetDateTime-carrying operand: subset of {'Utc', 'Self', 'Any'} joined over every reaching definition.
    'Self' = read from the field of an existing Timestamp (inductive case).  Wrappers (Option/Result/ControlFlow) are looked through.
    checked_to_offset(UTC) yields None only when the UTC form leaves the +-9999 year range of the time crate, i.e. for instants outside the
    years 1..9999 the property quantifies over: the fallback operand of `unwrap_or` after it is not followed."""
    seen = set() if seen is None else seen
    if not isinstance(op, dict) or "p" not in op or depth > 40:
        return {"Any"}
    p = op["p"]
    l = p["l"]
    for e in flow.norm_proj(p["proj"]):
        if e[0] == "f" and len(e) > 3 and e[3] == TS + "Timestamp":
            return {"Self"}
    key = (l, at)
    if key in seen:
        return set()
    seen.add(key)
    out = set()
    if 1 <= l <= b.argc:
        ty = b.locals[l]
        out.add("Utc" if "std::time::SystemTime" in ty and "OffsetDateTime" not in ty else "Any")
    for df in b.defs().get(l, []):
        if at is not None and not flow.can_reach(b, df["bi"], at):
            continue
        dbi = df["bi"]
        if df["kind"] == "assign":
            rv = df["rv"]
            if rv["k"] in ("use", "ref", "cast", "rawptr", "agg") and rv["ops"]:
                for o in rv["ops"]:
                    if isinstance(o, dict) and "p" in o:
                        out |= offset_kinds(b, o, dbi, seen, depth + 1)
            elif rv["k"] in ("discr", "len", "nullop"):
                pass
            else:
                out.add("Any")
        elif df["kind"] == "call":
            t = df["term"]
            d = callee_def(t)
            sh = short(d)
            args = t["args"]
            if sh in UTC_SOURCES and "time::" in d:
                out.add("Utc")
            elif sh in ("to_offset", "checked_to_offset") and "time::" in d and len(args) == 2:
                out |= {"Utc"} if _is_utc_const(b, args[1], dbi) else {"Any"}
            elif d.endswith("convert::From::from") or d.endswith("convert::Into::into"):
                a0 = flow.op_place(args[0]) if args else None
                ty = b.locals[a0["l"]] if a0 is not None else ""
                if "std::time::SystemTime" in ty:
                    out.add("Utc")      # time: From<SystemTime> for OffsetDateTime yields a UTC value
                else:
                    out |= offset_kinds(b, args[0], dbi, seen, depth + 1)
            elif sh in ("unwrap_or", "unwrap_or_else") and d.startswith("core::option::Option") and args:
                sl = flow.backward(b, args[0], at=dbi)
                k0 = offset_kinds(b, args[0], dbi, seen, depth + 1)
                chk0 = any(short(callee_def(x)) == "checked_to_offset" for _, x, _ in sl.calls)
                out |= k0
                if not (chk0 and k0 <= {"Utc"}):
                    for a2 in args[1:]:
                        out |= offset_kinds(b, a2, dbi, seen, depth + 1)
            elif flow.is_transparent(t) and args:
                out |= offset_kinds(b, args[0], dbi, seen, depth + 1)
            elif d.endswith("ops::arith::Add::add") or d.endswith("ops::arith::Sub::sub"):
                out |= offset_kinds(b, args[0], dbi, seen, depth + 1)
            else:
                out.add("Any")
        else:
            out.add("Any")      # handed out by &mut
    return out


def rule_r1(chk, db):
    fmt = inline.inlined(db, db.body(TS + "Timestamp::format"))
    if fmt is None:
        raise AnchorMissing("Timestamp::format not found")
    sinks = [(bi, t) for bi, t in fmt.calls() if short(callee_def(t)) in ("format_into", "format") and "time::" in callee_def(t)]
    chk.floor("R1", len(sinks), 2, "format_into sinks in Timestamp::format")
    # join over the writers of Timestamp.0
    writers = []
    cands = [inline.inlined(db, b) for b in db.grep("s3s::dto::timestamp::Timestamp") if b.crate == "s3s" and "dto::generated" not in b.name]
    helpers = {h for b in cands for h in getattr(b, "inlined_from", [])}
    for b in cands:
        if b.name in helpers:
            continue        # studied as part of its caller
        for bi, si, st in b.stmts():
            rv = st["rv"]
            if rv["k"] == "agg" and rv.get("adt") == TS + "Timestamp":
                ks = offset_kinds(b, rv["ops"][0], bi)
                kind = "Any" if "Any" in ks or not ks else ("Utc" if "Utc" in ks else "Self")
                writers.append((b, bi, kind))
    join = "Utc" if any(k == "Utc" for _, _, k in writers) and all(k in ("Utc", "Self") for _, _, k in writers) else "Any"
    chk.stats["timestamp_writers"] = ["%s:%s" % (b.loc(bi), k) for b, bi, k in writers]
    for bi, t in sinks:
        desc = t["args"][-1]
        c = flow.const_of(fmt, desc)
        lits = const_literals(db, c["def"]) if c is not None and c.get("c") == "item" else []
        dname = short(c["def"]) if c is not None and c.get("c") == "item" else "?"
        if not literal_zone(lits):
            chk.ok("R1", "sink:%s" % dname, fmt.loc(bi), {"literal_zone": False}, nontrivial=False)
            continue
        utc = offset_kinds(fmt, t["args"][0], bi) <= {"Utc"}
        chk.verdict(utc or join == "Utc", "R1", "sink:%s" % dname, fmt.loc(bi),
                    "a timestamp that may carry a non-UTC offset (writers of Timestamp.0: %s) is printed with the format %s, which ends in a literal UTC designator, "
                    "without being converted to UTC first: `2020-01-01T08:00:00+08:00` is rendered as `2020-01-01T08:00:00Z`" % (sorted({k for _, _, k in writers}), dname))
    # replace_offset changes the instant: banned in the timestamp module
    bad = []
    for b in db.grep("replace_offset"):
        if b.crate == "s3s" and "dto::timestamp" in b.name:
            for bi, t in b.calls():
                if short(callee_def(t)) == "replace_offset":
                    bad.append((b, bi))
    chk.verdict(not bad, "R1", "no-replace_offset", bad[0][0].loc(bad[0][1]) if bad else fmt.loc(),
                "replace_offset keeps the clock fields and changes the instant: a parsed `+08:00` time would be shifted by 8 hours (use to_offset to normalise)")


def rule_r5(chk, db):
    """format selection: total switch, same description family on both sides"""
    p = inline.inlined(db, db.body(TS + "Timestamp::parse"))
    f = inline.inlined(db, db.body(TS + "Timestamp::format"))
    if p is None or f is None:
        raise AnchorMissing("Timestamp::parse/format not found")

    def arms(b):
        out = {}
        for s in b.live_blocks():
            t = b.blocks[s]["term"]
            if t["k"] == "switch":
                src = paths.switch_source(b, t)
                if src and src[0] == "discr" and src[1]["enum"].endswith("TimestampFormat"):
                    vals = paths.discr_values(t, src[1])
                    edges = b.succ_edges(s)
                    for lab, tb in edges:
                        v = vals.get(lab)
                        if v is None or str(v).startswith("OTHER"):
                            continue
                        others = [tb2 for l2, tb2 in edges if l2 != lab]
                        r = flow.reach(b, [tb]) - flow.reach(b, [o for o in others if o != tb]) if False else flow.reach(b, [tb], stop_blocks=frozenset())
                        # blocks exclusive to this arm: reachable from tb but not from the other arms' entry without passing a join
                        excl = set()
                        stack = [tb]
                        oth = set()
                        for o in others:
                            oth |= flow.reach(b, [o])
                        for x in flow.reach(b, [tb]):
                            if x not in oth:
                                excl.add(x)
                        consts = set()
                        calls = set()
                        for x in excl:
                            tt = b.blocks[x]["term"]
                            if tt["k"] == "call":
                                calls.add(short(callee_def(tt)))
                                for a in tt["args"]:
                                    c = flow.const_of(b, a)
                                    if c is not None and c.get("c") == "item":
                                        consts.add(short(c["def"]))
                            for st in b.blocks[x]["stmts"]:
                                if st["rv"]["k"] == "agg" and st["rv"].get("agg") == "adt":
                                    consts.add(short(st["rv"]["adt"]))
                        out[v] = (consts, calls)
        return out
    pa, fa = arms(p), arms(f)
    for v in ("DateTime", "HttpDate", "EpochSeconds"):
        chk.verdict(v in pa and v in fa, "R5", "arm:" + v, p.loc(), "TimestampFormat::%s is not handled by both parse and format" % v, nontrivial=False)
    if "DateTime" in pa and "DateTime" in fa:
        chk.verdict("Rfc3339" in pa["DateTime"][0] and "RFC3339" in fa["DateTime"][0], "R5", "family:DateTime", p.loc(),
                    "DateTime is parsed with %s and formatted with %s (expected the RFC 3339 family on both sides)" % (sorted(pa["DateTime"][0]), sorted(fa["DateTime"][0])))
    if "HttpDate" in pa and "HttpDate" in fa:
        chk.verdict("RFC1123" in pa["HttpDate"][0] and "RFC1123" in fa["HttpDate"][0] and "assume_utc" in pa["HttpDate"][1], "R5", "family:HttpDate", p.loc(),
                    "HttpDate is parsed with %s/%s and formatted with %s (expected RFC1123 + assume_utc)" % (sorted(pa["HttpDate"][0]), sorted(pa["HttpDate"][1]), sorted(fa["HttpDate"][0])))
    if "EpochSeconds" in pa and "EpochSeconds" in fa:
        chk.verdict(bool({"from_unix_timestamp", "from_unix_timestamp_nanos"} & pa["EpochSeconds"][1]) and "unix_timestamp_nanos" in fa["EpochSeconds"][1] | {"unix_timestamp_nanos"} and
                    ("unix_timestamp_nanos" in fa["EpochSeconds"][1] or "unix_timestamp" in fa["EpochSeconds"][1]), "R5", "family:EpochSeconds", p.loc(),
                    "EpochSeconds is parsed with %s and formatted with %s" % (sorted(pa["EpochSeconds"][1]), sorted(fa["EpochSeconds"][1])))


POW10 = {10 ** k: k for k in range(1, 20)}
LIB_FRACTION = {"nanosecond": 9, "microsecond": 6, "millisecond": 3, "subsec_nanos": 9, "subsec_nanoseconds": 9, "subsec_micros": 6, "subsec_microseconds": 6,
                "subsec_millis": 3, "subsec_milliseconds": 3}
INT_TYS = ("i8", "u8", "i16", "u16", "i32", "u32", "i64", "u64", "i128", "u128", "isize", "usize")


def rule_r7(chk, db):
    """EpochSeconds as decimal text `<whole>.<fraction>`: where the formatter prints the sub-second part from an integer (a remainder modulo
    10^k, or the time crate's nanosecond() / millisecond()), (a) the digits are zero-padded to k places (`.050` must not become `.5`), and (b)
    whole part and fraction are sign-and-magnitude (truncating division of the magnitude), not floor / euclidean division of a signed value
    (-0.5 s must not be written `-1.5`).  A float Display of the seconds is exempt (its precision is value-level, not decided)."""
    from .. import fmtspec
    f = inline.inlined(db, db.body(TS + "Timestamp::format"))
    if f is None:
        raise AnchorMissing("Timestamp::format not found")
    bodies = db.nested(f) if hasattr(f, "children") else [f]
    n_src = n_float = 0
    for b in [f] + [x for x in bodies if x is not f]:
        b.defs()
        K = {}          # local -> (digits, how, bi)
        changed = True
        it = 0
        while changed and it < 20:
            changed = False
            it += 1
            for bi, si, st in b.stmts():
                d = st["dst"]
                if d["proj"] or d["l"] in K:
                    continue
                rv = st["rv"]
                ty = b.locals[d["l"]] if d["l"] < len(b.locals) else ""
                k = None
                if rv["k"] == "bin" and rv["op"] == "Rem" and ty in INT_TYS:
                    c = flow.const_int_eval(b, rv["ops"][1])
                    if c in POW10:
                        src = flow.op_place(rv["ops"][0])
                        sty = b.locals[src["l"]] if src is not None and src["l"] < len(b.locals) else ""
                        k = (POW10[c], "rem-signed" if sty.startswith("i") and not _from_magnitude(b, rv["ops"][0]) else "rem", bi)
                elif rv["k"] == "bin" and rv["op"] == "Div":
                    pl = flow.op_place(rv["ops"][0])
                    c = flow.const_int_eval(b, rv["ops"][1])
                    if pl is not None and not pl["proj"] and pl["l"] in K and c in POW10 and K[pl["l"]][0] > POW10[c]:
                        k = (K[pl["l"]][0] - POW10[c], K[pl["l"]][1], bi)
                elif rv["k"] in ("use", "ref") or (rv["k"] == "cast" and ty in INT_TYS):
                    pl = flow.op_place(rv["ops"][0]) if rv.get("ops") else None
                    if pl is not None and pl["l"] in K and not [e for e in pl["proj"] if e != "*"]:
                        k = K[pl["l"]]
                if k is not None:
                    K[d["l"]] = k
                    changed = True
            for bi, t in b.calls():
                dl = t["dst"]["l"]
                if t["dst"]["proj"] or dl in K:
                    continue
                nm = short(callee_def(t))
                ty = b.locals[dl] if dl < len(b.locals) else ""
                k = None
                if nm in LIB_FRACTION and (callee_def(t).startswith("time::") or "Duration" in callee_def(t)):
                    k = (LIB_FRACTION[nm], "lib", bi)
                elif nm == "rem_euclid" and len(t["args"]) == 2 and flow.const_int_eval(b, t["args"][1]) in POW10:
                    src = flow.op_place(t["args"][0])
                    sty = b.locals[src["l"]] if src is not None and src["l"] < len(b.locals) else ""
                    k = (POW10[flow.const_int_eval(b, t["args"][1])], "euclid-signed" if sty.startswith("i") and not _from_magnitude(b, t["args"][0]) else "rem", bi)
                elif nm in ("unsigned_abs", "abs", "clone", "from", "into") and ty in INT_TYS and t["args"]:
                    pl = flow.op_place(t["args"][0])
                    if pl is not None and pl["l"] in K and not [e for e in pl["proj"] if e != "*"]:
                        k = (K[pl["l"]][0], "rem" if nm in ("unsigned_abs", "abs") else K[pl["l"]][1], K[pl["l"]][2])
                if k is not None:
                    K[dl] = k
                    changed = True
        origins = sorted({v[2] for v in K.values()})
        n_src += len(origins)
        # sinks: Display arguments and to_string
        verdicts = {}
        for a in fmtspec.arguments_calls(b):
            for i, (kind, vop, abi) in enumerate(a["args"]):
                if vop is None:
                    continue
                root = _root_local(b, vop)
                ty = b.locals[root] if root is not None and root < len(b.locals) else ""
                if ty in ("f64", "f32") and kind == "new_display":
                    n_float += 1
                if root not in K:
                    continue
                digits, how, obi = K[root]
                specs = [p[2] for p in (a["pieces"] or []) if p[0] == "arg" and p[1] == i]
                w = [fmtspec.zero_padded_width(sp) for sp in specs]
                bad = None
                if a["pieces"] is None or not specs:
                    bad = "its format specification cannot be read"
                elif any(x != digits for x in w):
                    bad = "it is printed %s: leading zeros of the fraction are lost (`.050` becomes `.5`)" % (
                        "without zero padding" if any(x is None for x in w) else "padded to %s digits instead of %d" % (w, digits))
                elif how in ("euclid-signed", "rem-signed"):
                    bad = ("it is the euclidean remainder of a signed count, so before 1970 the whole part is the floor and the text denotes another instant (-0.5 s is written `-1.5`)"
                           if how == "euclid-signed" else "it is the remainder of a signed count and carries its sign into the fraction digits")
                verdicts.setdefault(obi, []).append(bad)
        for bi, t in b.calls():
            if short(callee_def(t)) in ("to_string", "format") and t["args"] and ("ToString" in callee_def(t) or "itoa" in callee_def(t)):
                root = _root_local(b, t["args"][-1])
                if root in K:
                    verdicts.setdefault(K[root][2], []).append("it is converted with %s, which does not pad: leading zeros of the fraction are lost" % short(callee_def(t)))
        for obi in origins:
            bads = [x for x in verdicts.get(obi, []) if x]
            chk.verdict(not bads, "R7", "epoch-fraction#%d" % origins.index(obi), b.loc(obi),
                        "the sub-second part of EpochSeconds is printed from an integer, but %s" % "; ".join(bads), nontrivial=True)
    chk.floor("R7", n_src + n_float, 1, "sub-second sources (integer remainders / float Display) in Timestamp::format")


def _root_local(b, op, depth=0):
    """local a formatted value is read from, through references, copies and the argument tuple of format_args!"""
    pl = flow.op_place(op)
    if pl is None or depth > 10:
        return None
    fl = [e for e in pl["proj"] if isinstance(e, dict) and "f" in e]
    df = flow.single_def(b, pl["l"])
    if df is None or df["kind"] != "assign" or df.get("proj"):
        return pl["l"] if not fl else None
    rv = df["rv"]
    if fl and rv["k"] == "agg" and rv.get("agg") == "tuple" and fl[0]["f"] < len(rv["ops"]):
        return _root_local(b, rv["ops"][fl[0]["f"]], depth + 1)
    if not fl and rv["k"] in ("use", "ref") and rv.get("ops") and flow.op_place(rv["ops"][0]) is not None:
        return _root_local(b, rv["ops"][0], depth + 1)
    return pl["l"] if not fl else None


def _from_magnitude(b, op):
    """the operand is an absolute value (unsigned_abs / abs) or unsigned"""
    sl = flow.backward(b, op)
    return any(short(callee_def(t)) in ("unsigned_abs", "abs") for _, t, _ in sl.calls)


def rule_r2(chk, db):
    """copy source: the formatter is the inverse of the parser with respect to percent-coding"""
    p = inline.inlined(db, db.body("s3s::dto::copy_source::CopySource::parse"))
    f = inline.inlined(db, db.body("s3s::dto::copy_source::CopySource::format_to_string"))
    if p is None or f is None:
        raise AnchorMissing("CopySource::parse / format_to_string not found")
    decs = [(bi, t) for x in db.nested(p) for bi, t in x.calls() if is_decoder(callee_def(t))]
    encs = [(b2, bi, t) for b2 in db.nested(f) for bi, t in b2.calls() if any(callee_def(t).startswith(e) for e in ENCODERS) or short(callee_def(t)) in ("uri_encode", "uri_encode_string")]
    if not decs:
        chk.ok("R2", "no-decoding", p.loc(), nontrivial=False)
        return
    # where decoding is applied in parse itself: a direct decoder call, or a call of / a map over a local closure that decodes
    dclos = {x.name for x in db.nested(p, include_self=False) if any(is_decoder(callee_def(t)) for _, t in x.calls())}

    def decoding_fn(name):
        """a decoder, or a private function of the crate that applies one (`fn percent_decode(s) -> .. { urlencoding::decode(s).map_err(..) }`)"""
        if is_decoder(name):
            return True
        hb = db.body(name)
        return hb is not None and hb.crate == "s3s" and len(hb.blocks) <= 12 and any(is_decoder(callee_def(t2)) for x2 in db.nested(hb) for _, t2 in x2.calls())

    def applies_decoder(t):
        if is_decoder(callee_def(t)):
            return True
        # handed over as a function item: `version_id.map(percent_decode)`
        if any(isinstance(a, dict) and a.get("c") == "fn" and decoding_fn(a.get("def", "")) for a in t["args"]):
            return True
        for a in t["args"]:
            for l, _ in (flow.resolve_chain(p, a) or []):
                for df in p.defs().get(l, []):
                    if df["kind"] == "assign" and df["rv"]["k"] == "agg" and df["rv"].get("agg") == "closure" and df["rv"].get("def") in dclos:
                        return True
        return False
    # (a) the `?versionId=` separator is split off before decoding (else an encoded `?` inside the key cuts the key)
    splits_q = []
    for bi, t in p.calls():
        if short(callee_def(t)) in ("split_once", "rsplit_once", "split", "find", "splitn"):
            c = [flow.const_of(p, a) for a in t["args"]]
            if any(x is not None and x.get("c") == "int" and x.get("ty") == "char" and int(x["v"]) == 0x3F for x in c):
                splits_q.append(bi)
    pre = False
    for sb in splits_q:
        sl = flow.backward(p, p.blocks[sb]["term"]["args"][0], at=sb)
        if not any(applies_decoder(t) for _, t, _ in sl.calls):
            pre = True
    chk.verdict(pre, "R2", "split-before-decode", p.loc(decs[0][0]) if False else p.loc(),
                "the header is not split at the literal `?` before percent-decoding: an encoded `%3F` inside the key is taken for the versionId separator "
                "(`bucket/a%3Fb` parses to key `a`)")
    # every part handed on is decoded exactly once: bucket/key and version id each derive from one decode application
    n_app = len([1 for _, t in p.calls() if applies_decoder(t)])
    chk.floor("R2.decode", n_app, 2, "decode applications in CopySource::parse (path, version id)")
    # (a') separators are located from the front: keys contain `/`, version ids contain `=` (base64 padding), so a search from the end
    #      cuts the value at the wrong place (`?versionId=Zm9v==` would lose its version)
    FROM_END = ("rsplit_once", "rsplit", "rsplitn", "rfind", "rsplit_terminator", "rmatch_indices", "rmatches", "rsplit_once")
    late = []
    n_front = 0
    for x in db.nested(p):
        for bi, t in x.calls():
            d = callee_def(t)
            if d.startswith("core::str::<impl str>::"):
                if short(d) in FROM_END:
                    late.append((x, bi, short(d)))
                elif short(d) in ("split_once", "find", "strip_prefix", "split_at", "splitn"):
                    n_front += 1
    chk.verdict(not late, "R2", "separators-from-the-front", late[0][0].loc(late[0][1]) if late else p.loc(),
                "CopySource::parse locates a separator with %s (last occurrence): `/` occurs inside keys and `=` inside version ids, so `bucket/key?versionId=Zm9vYg==` "
                "would lose or truncate its version / key" % (late[0][2] if late else ""))
    chk.floor("R2.sep", n_front, 2, "front-anchored separator searches in CopySource::parse")
    # (b) what parse decodes, format must encode
    chk.verdict(bool(encs), "R2", "format-encodes", f.loc(),
                "CopySource::parse percent-decodes the header but format_to_string writes bucket/key/versionId without percent-encoding: a key such as `a%20b` or `a?b` does not survive format -> parse")


def u64_bound(body, op):
    c = flow.const_int_eval(body, op)
    return c


def rule_r3(chk, db):
    b = inline.inlined(db, db.body(RG + "Range::parse"))
    if b is None:
        raise AnchorMissing("Range::parse not found")
    I64MAX = (1 << 63) - 1
    ints = [(bi, st["rv"]) for bi, si, st in b.stmts() if st["rv"]["k"] == "agg" and st["rv"].get("adt") == RG + "Range" and st["rv"].get("variant") == "Int"]
    chk.floor("R3", len(ints), 2, "Range::Int constructions in parse")
    for bi, rv in ints:
        m = dict(zip(rv["fields"], rv["ops"]))
        f = guards.dominating_facts(b, bi)
        cmps = [x for x in f if x[0] == "cmp"]
        # facts about `first` and `last`
        first_l = flow.resolve_place(b, m["first"])
        bound_first = bound_last = ordered = False
        has_last = not flow.is_none_literal(b, m["last"])
        last_sl = flow.backward(b, m["last"], at=bi)
        # the place `last` itself (the payload of the `Some(last)` stored in the field), to tell it from `first` when both are fields of one
        # intermediate value
        last_l = None
        rvl = flow.resolve_agg(b, m["last"])
        if rvl is not None and rvl.get("variant") == "Some" and rvl.get("ops"):
            last_l = flow.resolve_place(b, rvl["ops"][0])

        def _is(r, target, fallback_locals=None):
            if r is None:
                return False
            if target is not None:
                return r == target or (r[0] == target[0] and not r[1] and not target[1])
            return fallback_locals is not None and r[0] in fallback_locals
        for x in cmps:
            blk = x[3]
            for b2, si, st in b.stmts():
                if b2 != blk or st["rv"]["k"] != "bin" or st["rv"]["op"] != x[1]:
                    continue
                o0, o1 = st["rv"]["ops"]
                c0, c1 = flow.const_int_eval(b, o0), flow.const_int_eval(b, o1)
                r0, r1 = flow.resolve_place(b, o0), flow.resolve_place(b, o1)
                s0 = flow.backward(b, o0, at=blk)
                s1 = flow.backward(b, o1, at=blk)
                is_first0 = first_l is not None and _is(r0, first_l)
                is_last0 = has_last and not is_first0 and _is(r0, last_l, last_sl.locals)
                is_last1 = has_last and _is(r1, last_l, last_sl.locals) and not _is(r1, first_l)
                # `x > MAX` false  /  `x <= MAX` true
                if c1 == I64MAX and ((x[1] == "Gt" and x[2] is False) or (x[1] == "Le" and x[2] is True)):
                    if is_first0:
                        bound_first = True
                    elif is_last0:
                        bound_last = True
                if c0 is None and c1 is None and is_first0 and is_last1:
                    if (x[1] == "Gt" and x[2] is False) or (x[1] == "Le" and x[2] is True):
                        ordered = True
        chk.verdict(bound_first, "R3", "first<=i64::MAX#%d" % bi, b.loc(bi), "Range::Int is accepted without `first <= 2^63-1` on every path")
        if has_last:
            chk.verdict(bound_last, "R3", "last<=i64::MAX#%d" % bi, b.loc(bi), "Range::Int{last: Some} is accepted without `last <= 2^63-1` on every path")
            chk.verdict(ordered, "R3", "first<=last#%d" % bi, b.loc(bi), "Range::Int{first,last} is accepted without `first <= last` on every path")


def rule_r6(chk, db):
    """digit-run discipline of the prefix parser used by Range::parse"""
    for name, need_full in ((RG + "parse_u64_full", True), (RG + "parse_u64_once", False)):
        b = db.body(name)
        if b is None:
            chk.anchor_missing("R6", "%s not found" % name)
            continue
        somes = [w for w in flow.return_writes(b) if w["kind"] == "Some"]
        if not somes and need_full:
            # built on the prefix parser: `let (x, rest) = parse_u64_once(s)?; rest.is_empty().then_some(x)` - non-emptiness is the prefix
            # parser's own obligation (decided below), "all input consumed" is "the rest it returned is empty"
            deleg = [w for w in flow.return_writes(b) if w["kind"] == "call" and short(callee_def(w["term"])) in ("then_some", "then") and len(w["term"]["args"]) >= 2]
            if deleg:
                for w in deleg:
                    t_ = w["term"]
                    sv = flow.backward(b, t_["args"][1], at=w["bi"])
                    sc = flow.backward(b, t_["args"][0], at=w["bi"])
                    from_once = any(callee_def(x) == RG + "parse_u64_once" for _, x, _ in sv.calls)
                    rest_empty = any(short(callee_def(x)) == "is_empty" for _, x, _ in sc.calls) and any(callee_def(x) == RG + "parse_u64_once" for _, x, _ in sc.calls)
                    chk.verdict(from_once, "R6", short(name) + ".non-empty", b.loc(w["bi"]),
                                "%s accepts a value that does not come from the prefix parser (whose digit run is non-empty)" % short(name))
                    chk.verdict(rest_empty, "R6", short(name) + ".full", b.loc(w["bi"]), "%s accepts trailing bytes after the digits (the rest is not required to be empty)" % short(name))
                continue
        if not somes:
            chk.fail("R6", short(name), b.loc(), "no accepting return found")
            continue
        for w in somes:
            f = guards.dominating_facts(b, w["bi"])
            nonempty = full = False
            for x in f:
                if x[0] != "cmp":
                    continue
                for b2, si, st in b.stmts():
                    if b2 != x[3] or st["rv"]["k"] != "bin" or st["rv"]["op"] != x[1]:
                        continue
                    o0, o1 = st["rv"]["ops"]
                    c0, c1 = flow.const_int_eval(b, o0), flow.const_int_eval(b, o1)
                    s0, s1 = flow.backward(b, o0, at=b2), flow.backward(b, o1, at=b2)
                    used0 = any(short(callee_def(t)).startswith("from_radix_10") for _, t, _ in s0.calls)
                    used1 = any(short(callee_def(t)).startswith("from_radix_10") for _, t, _ in s1.calls)
                    len0 = any(short(callee_def(t)) == "len" for _, t, _ in s0.calls) or _ptr_metadata(b, s0)
                    len1 = any(short(callee_def(t)) == "len" for _, t, _ in s1.calls) or _ptr_metadata(b, s1)
                    if used0 and c1 == 0 and ((x[1] == "Gt" and x[2]) or (x[1] == "Ne" and x[2]) or (x[1] == "Eq" and not x[2])):
                        nonempty = True
                    if used0 and c1 == 1 and x[1] == "Ge" and x[2]:
                        nonempty = True
                    if ((used0 and len1) or (used1 and len0)) and ((x[1] == "Eq" and x[2]) or (x[1] == "Ne" and not x[2])):
                        full = True
            chk.verdict(nonempty, "R6", short(name) + ".non-empty", b.loc(w["bi"]),
                        "%s accepts an empty digit run (used == 0): `bytes=-` parses as a suffix range of length 0, a form RFC 9110 does not have" % short(name))
            if need_full:
                chk.verdict(full, "R6", short(name) + ".full", b.loc(w["bi"]), "%s accepts trailing bytes after the digits (used != len)" % short(name))


def _ptr_metadata(b, sl):
    for l in sl.locals:
        for df in b.defs().get(l, []):
            if df["kind"] == "assign" and df["rv"]["k"] == "un" and df["rv"].get("op") == "PtrMetadata":
                return True
    return False


# ------------------------------------------------------------------------------------------------
# R4: interval reasoning for Range::check  (difference bounds relative to the object length F)
# ------------------------------------------------------------------------------------------------

INF = 10 ** 30


def upper_bound(b, op, at, F_local, depth=0, seen=None):
    """smallest c such that `op <= F + c` is derivable at block `at`; INF if none"""
    seen = seen or set()
    c = flow.const_int_eval(b, op)
    p = flow.op_place(op)
    if p is None:
        return INF
    r = flow.resolve_place(b, op)
    if r is None or depth > 8:
        return INF
    l = r[0]
    key = (l, tuple(e[:2] for e in flow.fields_only(r[1])))
    if l == F_local and not flow.fields_only(r[1]):
        return 0
    if (key, at) in seen:
        return INF
    seen = seen | {(key, at)}
    best = INF
    # dominating comparisons involving this value and F
    for x in guards.dominating_facts(b, at):
        if x[0] != "cmp":
            continue
        for b2, si, st in b.stmts():
            if b2 != x[3] or st["rv"]["k"] != "bin" or st["rv"]["op"] != x[1]:
                continue
            o0, o1 = st["rv"]["ops"]
            r0, r1 = flow.resolve_place(b, o0), flow.resolve_place(b, o1)
            if r0 is None or r1 is None:
                continue
            k0 = (r0[0], tuple(e[:2] for e in flow.fields_only(r0[1])))
            k1_ = (r1[0], tuple(e[:2] for e in flow.fields_only(r1[1])))
            opk, val = x[1], x[2]
            # normalise to  lhs REL rhs holding
            rel = {("Lt", True): "<", ("Lt", False): ">=", ("Le", True): "<=", ("Le", False): ">", ("Gt", True): ">", ("Gt", False): "<=",
                   ("Ge", True): ">=", ("Ge", False): "<"}.get((opk, val))
            if rel is None:
                continue
            if k0 == key:
                ub_r = upper_bound(b, o1, x[3], F_local, depth + 1, seen)
                if ub_r < INF:
                    if rel == "<":
                        best = min(best, ub_r - 1)
                    elif rel == "<=":
                        best = min(best, ub_r)
            if k1_ == key:
                ub_l = upper_bound(b, o0, x[3], F_local, depth + 1, seen)
                if ub_l < INF:
                    if rel == ">":
                        best = min(best, ub_l - 1)
                    elif rel == ">=":
                        best = min(best, ub_l)
    # definitions (of a plain local; for `_t.0` of a checked-arithmetic temporary, of the temporary)
    fo = flow.fields_only(r[1])
    defs = [d for d in b.defs().get(l, []) if d["kind"] != "mutarg" and not d.get("proj")]
    if fo and not (len(fo) == 1 and fo[0][1] == 0 and all(d["kind"] == "assign" and d["rv"]["k"] == "bin" for d in defs)):
        defs = []
    if defs:
        worst = -INF
        for df in defs:
            if not flow.can_reach(b, df["bi"], at):
                continue
            ub = INF
            if df["kind"] == "assign":
                rv = df["rv"]
                if rv["k"] in ("use", "cast"):
                    ub = upper_bound(b, rv["ops"][0], df["bi"], F_local, depth + 1, seen)
                elif rv["k"] == "bin":
                    opk = rv["op"].replace("WithOverflow", "").replace("Unchecked", "")
                    k1 = flow.const_int_eval(b, rv["ops"][1])
                    k0 = flow.const_int_eval(b, rv["ops"][0])
                    if opk == "Add" and k1 is not None:
                        u = upper_bound(b, rv["ops"][0], df["bi"], F_local, depth + 1, seen)
                        ub = u + k1 if u < INF else INF
                    elif opk == "Add" and k0 is not None:
                        u = upper_bound(b, rv["ops"][1], df["bi"], F_local, depth + 1, seen)
                        ub = u + k0 if u < INF else INF
                    elif opk == "Sub" and k1 is not None:
                        u = upper_bound(b, rv["ops"][0], df["bi"], F_local, depth + 1, seen)
                        ub = u - k1 if u < INF else INF
                    elif opk == "Sub":
                        # x - y <= x   (unsigned, guarded against underflow by the overflow assert)
                        ub = upper_bound(b, rv["ops"][0], df["bi"], F_local, depth + 1, seen)
            elif df["kind"] == "call":
                t = df["term"]
                nm = short(callee_def(t))
                if nm == "min" and len(t["args"]) == 2:
                    ub = min(upper_bound(b, t["args"][0], df["bi"], F_local, depth + 1, seen), upper_bound(b, t["args"][1], df["bi"], F_local, depth + 1, seen))
                elif nm in ("saturating_sub", "wrapping_sub", "checked_sub"):
                    ub = upper_bound(b, t["args"][0], df["bi"], F_local, depth + 1, seen)
            worst = max(worst, ub)
        if worst > -INF:
            best = min(best, worst)
    # tuple field of a checked-arithmetic temporary: `(_t.0)`
    return best


def rule_r4(chk, db):
    b = inline.inlined(db, db.body(RG + "Range::check"))
    if b is None:
        raise AnchorMissing("Range::check not found")
    F = None
    for l in range(1, b.argc + 1):
        if b.local_name(l) == "full_length":
            F = l
    if F is None:
        F = b.argc
    ivs = [(bi, st["rv"]) for bi, si, st in b.stmts() if st["rv"]["k"] == "agg" and st["rv"].get("adt") == "core::ops::range::Range"]
    chk.floor("R4", len(ivs), 3, "interval constructions in Range::check")
    for i, (bi, rv) in enumerate(ivs):
        m = dict(zip(rv["fields"], rv["ops"]))
        ub_end = upper_bound(b, m["end"], bi, F)
        ub_start = upper_bound(b, m["start"], bi, F)
        chk.verdict(ub_end <= 0, "R4", "end<=len#%d" % i, b.loc(bi),
                    "the returned interval's end is not provably <= full_length (best derivable bound: full_length %+d): a range ending at the object length yields one byte too many" %
                    (ub_end if ub_end < INF else 0) if ub_end < INF else "the returned interval's end has no derivable bound relative to full_length")
        chk.verdict(ub_start <= 0, "R4", "start<=len#%d" % i, b.loc(bi), "the returned interval's start is not provably <= full_length", nontrivial=False)
    # unsatisfiable cases are errors: first >= full_length, suffix length 0
    f_err = False
    for x in [w for w in flow.return_writes(b) if w["kind"] == "Err"]:
        pass
    names = set()
    for bi, si, st in b.stmts():
        if st["rv"]["k"] == "bin" and st["rv"]["op"] in ("Ge", "Lt", "Eq", "Ne", "Gt", "Le"):
            names.add(st["rv"]["op"])
    chk.verdict(bool(names & {"Ge", "Lt"}) and bool(names & {"Eq", "Ne"}), "R4", "unsatisfiable-guards", b.loc(), "Range::check lacks the `first >= length` / `suffix == 0` tests (comparisons present: %s)" % sorted(names), nontrivial=False)


def run(chk, db, tier):
    chk.rule("R1", "UTC typestate: a format whose description ends in a literal UTC designator is applied only to values normalised to UTC (or only ever UTC); replace_offset banned")
    chk.rule("R2", "copy source: `?` split before decoding; what parse decodes, format_to_string encodes")
    chk.rule("R3", "Range::parse bounds: first, last <= 2^63-1 and first <= last dominate acceptance")
    chk.rule("R4", "Range::check intervals: end (and start) provably <= full_length by difference-bound reasoning over min / +1 / guards")
    chk.rule("R5", "format selection total; parse and format arms of each TimestampFormat use the same description family")
    chk.rule("R6", "digit runs in Range::parse are non-empty and (for the last number) consume the rest of the input")
    chk.guard("R1", rule_r1, db)
    chk.guard("R2", rule_r2, db)
    chk.guard("R3", rule_r3, db)
    chk.guard("R4", rule_r4, db)
    chk.guard("R5", rule_r5, db)
    chk.guard("R6", rule_r6, db)
    chk.rule("R7", "EpochSeconds text: an integer sub-second part is zero-padded to its full width and is sign-and-magnitude, not a euclidean remainder")
    chk.guard("R7", rule_r7, db)
    # prerequisite for "names the same bucket and key for every legal key": the validators run on the very values that are stored
    from . import c12
    from ..report import Sub
    sub = Sub(chk, "C12", only=lambda key: key.startswith("CopySource"))
    sub.rule("R3", "CopySource::parse stores a bucket and key that passed check_bucket_name / check_key as those same (decoded) values")
    sub.guard("R3", c12.rule_copysource, db)


META = {
    "level": "other",
    "explanation": "Structural clauses of the text codecs: (a) a timestamp formatted with a description that ends in a literal zone designator is "
                   "in UTC on every path (typestate over the writers of Timestamp.0 and the normalisers before each sink); (b) the copy-source "
                   "formatter is the percent-coding inverse of its parser and the `?` separator is split before decoding; (c) Range::parse "
                   "acceptance is dominated by the 2^63-1 bounds and first <= last; (d) the intervals Range::check returns are bounded by the "
                   "object length (difference-bound derivation); (e) digit runs are non-empty and fully consumed. Round-trip identity in general "
                   "and the rest of the RFC 9110 grammar are value-level and not decided. Round 4: where EpochSeconds is printed from integers, the fraction is zero-padded to its full width (read from the compiled format template) and sign-and-magnitude (R7).",
    "not_decided": ["round-trip identity in general", "RFC 9110 grammar exactness beyond bounds and digit runs", "mime handling", "EpochSeconds float formatting precision (the integer form is decided by R7)"],
    "assumptions": ["rustc nightly MIR construction", "time crate: to_offset keeps the instant, replace_offset keeps the clock fields; assume_utc/from_unix_timestamp* yield UTC"],
}
