"""C10 - POST form uploads (DESIGN.md section 3, C10)."""
from .. import flow, guards, inline, paths
from ..facts import callee_def, short
from ..report import AnchorMissing
from ..roles import Roles
from . import sigcore


def rule_r1(chk, db, v):
    """the form becomes visible (SignatureContext.multipart = Some) only after verification; who-may-write S3Extensions.multipart"""
    body = v.body
    writes = []
    covered = {body.name} | set(getattr(body, "inlined_from", []))       # the verifier is studied with its helpers inlined
    for b in [body] + [x for x in db.grep("multipart") if x.name not in covered]:
        if b.crate != "s3s":
            continue
        for bi, si, st in b.stmts():
            pf = flow.proj_fields(flow.norm_proj(st["dst"]["proj"]))
            if pf and pf[-1] == ("SignatureContext", "multipart"):
                writes.append((b, bi, st))
    chk.floor("R1", len(writes), 1, "writes to SignatureContext.multipart")
    for b, bi, st in writes:
        rv = st["rv"]
        is_none = rv["k"] == "agg" and rv.get("variant") == "None" or (rv["k"] == "use" and flow.is_none_literal(b, rv["ops"][0]))
        if is_none:
            continue
        if b is not body:
            chk.fail("R1", "form-visible@" + db.root_of(b).name.replace("s3s::", ""), b.loc(bi), "SignatureContext.multipart is set outside the POST verifier")
            continue
        ok = v.cmp is not None and flow.must_pass(body, [bi], v.cmp["eq"])
        chk.verdict(ok, "R1", "form-visible-after-verify", body.loc(bi), "the parsed form is published (self.multipart = Some) on a path that has not passed the signature comparison")
    # S3Extensions.multipart: written only from SignatureContext.multipart
    ext = []
    for b in db.grep("multipart"):
        if b.crate != "s3s":
            continue
        for bi, si, st in b.stmts():
            pf = flow.proj_fields(flow.norm_proj(st["dst"]["proj"]))
            if pf and pf[-1] == ("S3Extensions", "multipart"):
                ext.append((b, bi, st))
    chk.floor("R1.ext", len(ext), 1, "writes to S3Extensions.multipart")
    for b, bi, st in ext:
        sl = flow.backward(b, st["rv"]["ops"][0], at=bi)
        if ("SignatureContext", "multipart") not in sl.fields:
            # the write sits in a helper that receives the value as a parameter: look at it where the helper is used
            try:
                ctx = inline.contexts_of(db, b, bi)
            except Exception:
                ctx = []
            oks = []
            for ib, cbi in ctx:
                hit = False
                for st2 in ib.blocks[cbi]["stmts"]:
                    pf2 = flow.proj_fields(flow.norm_proj(st2["dst"]["proj"]))
                    if pf2 and pf2[-1] == ("S3Extensions", "multipart"):
                        s2 = flow.backward(ib, st2["rv"]["ops"][0], at=cbi)
                        hit = ("SignatureContext", "multipart") in s2.fields
                oks.append(hit)
            if oks and all(oks):
                chk.ok("R1", "s3ext.multipart@" + db.root_of(b).name.replace("s3s::", ""), b.loc(bi), {"in_context": len(oks)})
                continue
        chk.verdict(("SignatureContext", "multipart") in sl.fields, "R1", "s3ext.multipart@" + db.root_of(b).name.replace("s3s::", ""), b.loc(bi),
                    "req.s3ext.multipart is written from something other than the verifier's SignatureContext.multipart")


def rule_r2(chk, db, v):
    """policy enforcement: the policy must be decoded and evaluated, not only signature-checked"""
    body = v.body
    # locals that hold info.policy
    starts = set()
    for bi, si, st in body.stmts():
        for o in st["rv"]["ops"]:
            p = flow.op_place(o)
            if p is not None and ("PostSignatureInfo", "policy") in flow.proj_fields(flow.norm_proj(p["proj"])):
                if not st["dst"]["proj"]:
                    starts.add(st["dst"]["l"])
    if not starts:
        raise AnchorMissing("POST verifier never reads PostSignatureInfo.policy")
    T, calls = flow.forward(body, starts)
    sinks = sorted({callee_def(t) for _, t, _ in calls if not flow.is_transparent(t) and "tracing" not in callee_def(t) and "fmt" not in callee_def(t)})
    decoders = [s for s in sinks if "base64" in s.lower() and "is_base64_encoded" not in s and "check" not in s or "serde_json" in s or "from_str" in s or "from_slice" in s]
    chk.stats["policy_sinks"] = sinks
    chk.verdict(bool(decoders), "R2", "policy-not-evaluated", body.loc(),
                "the POST policy is only signature-checked: it flows into %s and is never decoded, so its expiration and conditions are not enforced" %
                [short(s) for s in sinks])


def rule_r3(chk, db, v, roles):
    body = v.body
    ok = False
    at = None
    for bi, t in body.calls():
        d = callee_def(t)
        if d.endswith("cmp::PartialEq::ne") or d.endswith("cmp::PartialEq::eq"):
            if paths.str_args(body, t) == ["AWS4-HMAC-SHA256"]:
                s0 = flow.backward(body, t["args"][0], at=bi)
                if ("PostSignatureInfo", "x_amz_algorithm") in s0.fields:
                    o = flow.outcomes_of_call(body, bi)
                    eq = o.get("false") if d.endswith("::ne") else o.get("true")
                    ok = bool(eq) and flow.must_pass(body, v.acc, eq)
                    at = bi
    chk.verdict(ok, "R3", "algorithm", body.loc(at) if at is not None else body.loc(), "x-amz-algorithm other than AWS4-HMAC-SHA256 is not refused")
    # credential / date parse failures are early errors: acceptance dominated by their Continue edges
    for suffix, nm in (("CredentialV4::<'a>::parse", "credential"), ("AmzDate::parse", "date")):
        cs = [(bi, t) for bi, t in body.calls() if callee_def(t).endswith(suffix)]
        okp = False
        for bi, t in cs:
            o = flow.outcomes_of_call(body, bi)
            c = o.get("Continue") | o.get("Ok")
            okp = bool(c) and flow.must_pass(body, v.acc, c)
        chk.verdict(okp, "R3", nm + "-parsed", body.loc(cs[0][0]) if cs else body.loc(), "acceptance possible although x-amz-%s does not parse" % nm, nontrivial=False)
    # PostSignatureInfo::extract: field table
    ex = db.body("s3s::sig_v4::post_signature::PostSignatureInfo::<'a>::extract")
    if ex is None:
        chk.anchor_missing("R3", "PostSignatureInfo::extract not found")
        return
    want = {"policy": "policy", "x_amz_algorithm": "x-amz-algorithm", "x_amz_credential": "x-amz-credential", "x_amz_date": "x-amz-date", "x_amz_signature": "x-amz-signature"}
    for bi, si, st in ex.stmts():
        rv = st["rv"]
        if rv["k"] == "agg" and rv.get("adt", "").endswith("::PostSignatureInfo"):
            for f, o in zip(rv["fields"], rv["ops"]):
                sl = flow.backward(ex, o, at=bi)
                lits = [paths.str_args(ex, t) for _, t, _ in sl.calls if short(callee_def(t)) == "find_field_value"]
                chk.verdict(lits == [[want[f]]], "R3", "field." + f, ex.loc(bi), "PostSignatureInfo.%s is read from form field %s (expected %r)" % (f, lits, want[f]), nontrivial=False)


TRIM = ("core::str::<impl str>::trim", "core::slice::<impl [u8]>::trim_ascii")


def rule_r4(chk, db):
    """the file part reaches the backend whole or not at all: stream errors abort; pre-emption only after successful aggregation"""
    from . import streamerr
    from .c07 import find_prepare
    n = 0
    for name, what in (("s3s::stream::aggregate_unlimited", "buffering of the file part"), ("s3s::http::multipart::transform_multipart", "reading the form")):
        b = db.body(name)
        if b is None:
            # moved (e.g. into an impl block of the stream type): the function of the stream module with that name
            alt = [x for x in db.bodies.values() if x.crate == "s3s" and x.kind in ("Fn", "AssocFn") and short(x.name) == short(name) and
                   x.name.startswith(name.rsplit("::", 1)[0] + "::")]
            b = alt[0] if len(alt) == 1 else None
        if b is None:
            chk.anchor_missing("R4", "%s not found" % name)
            continue
        n += streamerr.check(chk, "R4", db, b, what, end_only_at_eof=(short(b.name) == "aggregate_unlimited"))
    chk.floor("R4", n, 2, "source-stream reads on the POST path")
    prep = find_prepare(db)
    ag = [(bi, t) for bi, t in prep.calls() if short(callee_def(t)) == "aggregate_unlimited"]
    chk.floor("R4.agg", len(ag), 1, "aggregate_unlimited call in prepare")
    from .c01 import op_of_operand
    pre = [bi for bi, si, st in prep.stmts() if st["rv"]["k"] == "agg" and st["rv"].get("agg") == "tuple" and len(st["rv"]["ops"]) == 2 and
           (op_of_operand(prep, st["rv"]["ops"][0]) or "").endswith("::PutObject")]
    for bi, t in ag:
        o = flow.outcomes_of_call(prep, bi)
        cont = o.get("Continue") | o.get("Ok")
        chk.verdict(bool(cont) and bool(pre) and flow.must_pass(prep, pre, cont), "R4", "upload-only-if-file-complete", prep.loc(bi),
                    "the POST upload proceeds to PutObject on a path where buffering the file part did not succeed")
        # the bytes stored are the aggregated bytes
        vs = [(b2, st) for b2, si, st in prep.stmts() if flow.proj_names(flow.norm_proj(st["dst"]["proj"]))[-1:] == ["vec_stream"]]
        okv = False
        for b2, st in vs:
            sl = flow.backward(prep, st["rv"]["ops"][0], at=b2)
            okv = any(cb == bi for cb, _, _ in sl.calls)
        chk.verdict(okv, "R4", "stored-bytes-are-file-part", prep.loc(bi), "s3ext.vec_stream is not built from the aggregated file part", nontrivial=False)


def rule_r5(chk, db):
    """form values verbatim: no trimming adapter in the form parser (a value may legitimately end in CR LF or spaces)"""
    hits = []
    for b in db.grep("s3s::http::multipart"):
        if b.crate != "s3s" or not db.root_of(b).name.startswith("s3s::http::multipart"):
            continue
        for bi, t in b.calls():
            d = callee_def(t)
            if any(d.startswith(p) for p in TRIM):
                hits.append((b, bi, d))
    for b, bi, d in hits:
        chk.fail("R5", "trim@" + db.root_of(b).name.replace("s3s::http::multipart::", ""), b.loc(bi),
                 "the form parser passes text through %s: field values that end in whitespace / CR LF are silently shortened" % short(d))
    # positive control: the matcher recognises a trim call where one is known to exist
    seen = False
    ctl = None
    for cb in db.grep("trim"):
        if cb.crate == "s3s" and (cb.name.startswith("s3s::sig_v4::") or cb.name.startswith("s3s::sig_v2::")):
            if any(any(callee_def(t).startswith(p) for p in TRIM) for _, t in cb.calls()):
                seen, ctl = True, cb
                break
    chk.verdict(seen, "R5", "positive-control", ctl.loc() if ctl else "", "trim matcher finds no trim call in the signing modules (control: header values are trimmed there)", nontrivial=False)
    if not hits:
        chk.ok("R5", "no-trim-in-form-parser", "crates/s3s/src/http/multipart.rs")


LOWERCASE = ("make_ascii_lowercase", "to_ascii_lowercase", "to_lowercase")


def rule_r6(chk, db):
    """producer / consumer agreement on the spelling of form field names: the consumers look names up byte-for-byte against lower-case
    literals (find_field_value, `strip_prefix("x-amz-meta-")`), so the parser must store the names lower-cased"""
    # consumers that compare names case-sensitively
    sensitive = []
    ffv = db.body("s3s::http::multipart::Multipart::find_field_value")
    if ffv is None:
        raise AnchorMissing("Multipart::find_field_value not found")
    cmp_sensitive = cmp_insensitive = 0
    for x in db.nested(ffv):
        for bi, t in x.calls():
            d = callee_def(t)
            if d.endswith(("PartialEq::ne", "PartialEq::eq", "PartialOrd::le", "PartialOrd::lt", "PartialOrd::ge", "PartialOrd::gt", "Ord::cmp")):
                cmp_sensitive += 1
            if short(d) in ("eq_ignore_ascii_case",) or short(d) in LOWERCASE:
                cmp_insensitive += 1
    if cmp_sensitive and not cmp_insensitive:
        sensitive.append(("Multipart::find_field_value", ffv.loc()))
    for b in db.bodies.values():
        if b.crate != "s3s" or not any(callee_def(t).endswith("Multipart::fields") for _, t in b.calls()):
            continue
        for bi, t in b.calls():
            d = callee_def(t)
            if short(d) in ("strip_prefix", "starts_with", "eq", "ne") and d.startswith(("core::str", "core::cmp")):
                lits = [flow.const_of(b, a) for a in t["args"]]
                if any(c is not None and c.get("c") == "str" and c["v"] == c["v"].lower() and c["v"] for c in lits):
                    sensitive.append(("%s: %s(%r)" % (short(b.name), short(d), [c["v"] for c in lits if c][0]), b.loc(bi)))
    chk.floor("R6", len(sensitive), 1, "case-sensitive consumers of form field names")
    # producer: the names of the `fields` handed to Multipart { .. } were lower-cased
    tp = db.body("s3s::http::multipart::try_parse")
    if tp is None:
        raise AnchorMissing("try_parse not found")
    ib = inline.inlined(db, tp)
    aggs = [(bi, st["rv"]) for bi, si, st in ib.stmts() if st["rv"]["k"] == "agg" and st["rv"].get("adt", "").endswith("multipart::Multipart")]
    chk.floor("R6.multipart", len(aggs), 1, "Multipart constructions in try_parse")
    for bi, rv in aggs:
        m = dict(zip(rv["fields"], rv["ops"]))
        if "fields" not in m:
            continue
        sl = flow.backward(ib, m["fields"], at=bi)
        blocks = {cb for cb, _, _ in sl.calls}
        lowered = any(short(callee_def(t)) in LOWERCASE for _, t, _ in sl.calls)
        for cb, t in ib.calls():
            if lowered:
                break
            # a call that applies a closure to the items of the field list
            clos = []
            for a in t["args"]:
                p = flow.op_place(a)
                df = flow.single_def(ib, p["l"]) if p is not None and not p["proj"] else None
                if df and df["kind"] == "assign" and df["rv"]["k"] == "agg" and df["rv"].get("agg") == "closure":
                    clos.append(df["rv"]["def"])
            if clos and t["args"]:
                rs = flow.backward(ib, t["args"][0], at=cb)
                if blocks & {x for x, _, _ in rs.calls} or (sl.locals & rs.locals):
                    for c in clos:
                        cbody = db.body(c)
                        if cbody is not None and any(short(callee_def(t2)) in LOWERCASE for x in db.nested(cbody) for _, t2 in x.calls()):
                            if flow.must_pass(ib, [bi], [(cb, None)]) or cb in flow.reach(ib, [0], stop_blocks=frozenset([bi])):
                                lowered = True
            # a direct call on an item of the list inside a loop
            if short(callee_def(t)) in LOWERCASE and t["args"]:
                rs = flow.backward(ib, t["args"][0], at=cb)
                if sl.locals & rs.locals:
                    lowered = True
        chk.verdict(lowered or not sensitive, "R6", "field-names-lower-cased#%d" % aggs.index((bi, rv)), ib.loc(bi),
                    "the form parser stores field names as the client spelled them, but %s compare(s) names byte-for-byte against lower-case text: "
                    "a field spelled `X-Amz-Meta-Foo` is silently dropped from the object write" % ", ".join(x for x, _ in sensitive[:3]))


def rule_r7(chk, db, v):
    """the form verifier is entered only for POST requests: multipart/form-data is a legal Content-Type of an ordinary PUT as well, and such a
    request carries its credentials in the headers / query, not in a form"""
    from .. import guards
    name = db.root_of(v.body).name
    sites = [(b, bi, t) for b, bi, t in db.callers_of(name) if b.crate == "s3s" and "::tests::" not in b.name]
    chk.floor("R7", len(sites), 1, "call sites of the form verifier")
    def keep_verifier(db_, caller, term, callee):
        if callee is not None and db_.root_of(callee).name == name:
            return False
        return inline.default_policy(db_, caller, term, callee)
    keep_verifier.__name__ = "c10_keep_form_verifier"

    def under_post(x, xbi):
        for f in guards.dominating_facts(x, xbi):
            if f[0] != "call" or not (f[1].endswith("PartialEq::eq") and f[2] is True or f[1].endswith("PartialEq::ne") and f[2] is False):
                continue
            ct = x.blocks[f[3]]["term"]
            cs = [flow.const_of(x, a) for a in ct["args"]]
            if any(c is not None and c.get("c") == "item" and c.get("def") == "http::method::Method::POST" for c in cs):
                return True
        return False
    for b, bi, t in sites:
        ok = under_post(b, bi)
        if not ok:
            # the decision may be stored (`match self.v4_source()? { V4Source::PostForm => .. }`): studied with the classifier inlined
            ib = inline.inlined(db, b, keep_verifier)
            inl = [xbi for xbi, xt in ib.calls() if callee_def(xt) == name]
            ok = bool(inl) and all(under_post(ib, xbi) for xbi in inl)
        chk.verdict(ok, "R7", "form-verifier-only-for-POST@%s" % short(db.root_of(b).name), b.loc(bi),
                    "the POST-form verifier is reached without the request method having been compared with POST: a PUT whose Content-Type is "
                    "multipart/form-data is treated as a browser upload instead of reaching its own operation")


def run(chk, db, tier):
    roles = Roles(db)
    vs = sigcore.run_common(chk, db, {"v4-post"}, ["s3s::sig_v4::methods::calculate_signature"])
    chk.rule("R1", "the parsed form becomes visible only after the signature comparison succeeded; s3ext.multipart only from the verifier")
    chk.rule("R2", "policy enforcement: the signed policy is decoded and evaluated (expiration, conditions) before acceptance")
    chk.rule("R3", "algorithm literal; credential/date must parse; form-field table of PostSignatureInfo")
    for v in vs:
        chk.guard("R1", rule_r1, db, v)
        chk.guard("R2", rule_r2, db, v)
        chk.guard("R3", rule_r3, db, v, roles)
    chk.rule("R4", "stream errors while reading the form / file part abort the upload; PutObject pre-emption only after successful aggregation")
    chk.rule("R5", "form field values are not passed through trimming adapters")
    chk.rule("R6", "field names: consumers compare byte-for-byte against lower-case text, so the parser stores the names lower-cased")
    chk.guard("R4", rule_r4, db)
    chk.guard("R5", rule_r5, db)
    chk.guard("R6", rule_r6, db)
    chk.rule("R7", "the form verifier is entered only when the request method is POST")
    for v in vs:
        chk.guard("R7", rule_r7, db, v)


META = {
    "level": "other",
    "explanation": "V1-V4 for the POST-form verifier (signature over the policy field, compared before acceptance, secret looked up under the "
                   "form's credential); the parsed form is published only on the verified path; forward taint of the policy field shows whether "
                   "it is ever decoded/evaluated; form-field table. The file part's bytes (boundary scanner) and policy semantics are not decided. Also: form field names are stored lower-cased because consumers compare them byte-for-byte; the file part is buffered to the end of its stream. Round 4: the form verifier is entered only when the request method is POST (R7).",
    "not_decided": ["file-part bytes exact (FileStream boundary scanner: C09 territory)", "policy semantics (only its presence on the accept path is checked)",
                    "base64/JSON semantics"],
    "assumptions": ["rustc nightly MIR construction"],
}
