"""C18 - file-system backend == in-memory store: three structural necessary conditions (DESIGN.md section 3, C18)."""
from .. import flow, guards, paths, inline
from ..facts import callee_def, short
from ..report import AnchorMissing
from ..roles import Roles
from . import fscore
from .sigcore import first_writes_from, is_err_write


def s3_methods(db, roles):
    """inner user bodies of `impl S3 for FileSystem` methods: name -> body"""
    out = {}
    for b in fscore.fs_bodies(db):
        if b.kind == "AssocFn" and b.impl_trait == roles.S3 and "FileSystem" in b.impl_self:
            # studied with its (sync / async) helpers inlined, so that extracting a stage of a method does not hide its effects
            out[short(b.name)] = inline.inlined(db, db.innermost_user_body(b))
    return out


def ownership_answers(db):
    """(labels meaning "the caller owns the upload", labels meaning "denied") as the ownership check answers them: `true` / `false`, or the
    variants of a private two-valued enum - read off the check's own body: what it returns under `stored owner == caller` is the grant"""
    v = db.body("s3s_fs::fs::FileSystem::verify_upload_id")
    inner = db.innermost_user_body(v) if v else None
    if inner is None:
        raise AnchorMissing("verify_upload_id not found")
    pos, neg = set(), set()
    for w in flow.return_writes(inner):
        if w["kind"] != "Ok":
            continue
        op = w["rv"]["ops"][0]
        c = flow.const_of(inner, op)
        lab = None
        if c is not None and c.get("ty") == "bool":
            lab = "true" if c.get("v") != "0" else "false"
        else:
            rv = flow.resolve_agg(inner, op)
            if rv is not None and rv.get("variant"):
                lab = rv["variant"]
        if lab is None:
            # a computed boolean (`Ok(stored == caller)`): true is the grant
            return {"true"}, {"false"}
        f = guards.dominating_facts(inner, w["bi"])
        eq = any(x[0] == "call" and ((x[1].endswith("PartialEq::eq") and x[2] is True) or (x[1].endswith("PartialEq::ne") and x[2] is False)) for x in f)
        (pos if eq else neg).add(lab)
    if not pos:
        return {"true"}, {"false"}
    return pos, neg - pos


def rule_r1(chk, db, roles, methods):
    n = 0
    POS, NEG = ownership_answers(db)
    for name, b in sorted(methods.items()):
        # takes an upload id?
        uses_upload = any(("UploadPartInput", "upload_id") == x or x[1] == "upload_id" and x[0].endswith("Input") for x in
                          {f for bi, si, st in b.stmts() for o in st["rv"]["ops"] if flow.op_place(o) for f in flow.proj_fields(flow.norm_proj(flow.op_place(o)["proj"]))})
        if not uses_upload:
            continue
        effs = []
        for bi, t in b.calls():
            idx = fscore.effect_path_args(t)
            d = callee_def(t)
            if idx and (fscore.is_mutating(t) or short(d) == "open"):
                effs.append((bi, short(d)))
            # helpers that mutate: prepare_file_write, delete_upload_id, delete_metadata, save_metadata
            if d.startswith("s3s_fs::fs::FileSystem::") and short(d) in ("prepare_file_write", "delete_upload_id", "delete_metadata", "save_metadata", "save_internal_info"):
                effs.append((bi, short(d)))
        if not effs:
            continue   # pure listing (list_parts)
        n += 1
        vs = [(bi, t) for bi, t in b.calls() if short(callee_def(t)) == "verify_upload_id"]
        if len(vs) != 1:
            chk.fail("R1", name, b.loc(), "%s changes multipart state (%s) but calls verify_upload_id %d times" % (name, sorted({e for _, e in effs}), len(vs)))
            continue
        vbi, vt = vs[0]
        o = flow.outcomes_of_call(b, vbi)
        owner = o.get(*POS)
        other = o.get(*NEG) if NEG else set()
        bad = [(bi, e) for bi, e in effs if not flow.must_pass(b, [bi], owner)]
        chk.verdict(bool(owner) and not bad, "R1", name, b.loc(bad[0][0]) if bad else b.loc(vbi),
                    "%s performs %s without the upload's ownership having been verified (verify_upload_id true edge)" % (name, [e for _, e in bad][:3]))
        fw = first_writes_from(b, other) if other else []
        codes = []
        r = flow.reach_from_edges(b, other) if other else set()
        chk.verdict(bool(fw) and all(is_err_write(w) for w in fw), "R1", name + ".denied-is-error", b.loc(vbi), "a failed ownership check does not end in an error", nontrivial=False)
        # arguments: the request's credentials and the parsed upload id
        s0 = flow.backward(b, vt["args"][1], at=vbi)
        chk.verdict(("S3Request", "credentials") in s0.fields, "R1", name + ".identity", b.loc(vbi), "verify_upload_id is not given the request's credentials", nontrivial=False)
    chk.floor("R1", n, 4, "multipart-mutating methods (upload_part, upload_part_copy, complete, abort)")
    # verify_upload_id compares the stored key with cred.access_key
    v = db.body("s3s_fs::fs::FileSystem::verify_upload_id")
    inner = db.innermost_user_body(v) if v else None
    if inner is None:
        raise AnchorMissing("verify_upload_id not found")
    ok = False
    for bi, t in inner.calls():
        d = callee_def(t)
        if d.endswith("cmp::PartialEq::eq") or d.endswith("cmp::PartialEq::ne"):
            s0, s1 = flow.backward(inner, t["args"][0], at=bi), flow.backward(inner, t["args"][1], at=bi)
            lits0 = any("access_key" in (db.body(rv.get("def", "")).text if db.body(rv.get("def", "")) else "") for _, rv in s0.aggs if rv.get("agg") == "closure") or ("Credentials", "access_key") in s0.fields
            lits1 = any("access_key" in (db.body(rv.get("def", "")).text if db.body(rv.get("def", "")) else "") for _, rv in s1.aggs if rv.get("agg") == "closure") or ("Credentials", "access_key") in s1.fields
            rd0 = any(short(callee_def(x)) in ("from_slice", "read") for _, x, _ in s0.calls)
            rd1 = any(short(callee_def(x)) in ("from_slice", "read") for _, x, _ in s1.calls)
            if (lits0 and rd1) or (lits1 and rd0):
                ok = True
    chk.verdict(ok, "R1", "verify_upload_id.compares-owner", inner.loc(), "verify_upload_id does not compare the stored owner with the caller's access key")
    # a missing upload record is a denial
    ex = [(bi, t) for bi, t in inner.calls() if short(callee_def(t)) == "exists"]
    okm = False
    for bi, t in ex:
        o = flow.outcomes_of_call(inner, bi)
        # `exists().not()` -> true edge of the negation = does not exist
        for w in flow.return_writes(inner):
            if w["kind"] == "Ok":
                c = flow.const_of(inner, w["rv"]["ops"][0])
                rva = flow.resolve_agg(inner, w["rv"]["ops"][0])
                if (c is not None and c.get("v") == "0") or (rva is not None and rva.get("variant") in NEG):
                    f = guards.dominating_facts(inner, w["bi"])
                    if any(x[0] == "call" and x[1].endswith("::exists") and x[2] is False for x in f):
                        okm = True
    chk.verdict(okm, "R1", "verify_upload_id.unknown-upload-denied", inner.loc(), "an unknown upload id is not answered with `false`", nontrivial=False)


def rule_r2(chk, db, methods):
    b = methods.get("list_objects_v2")
    if b is None:
        raise AnchorMissing("list_objects_v2 not found")
    aggs = [(bi, st["rv"]) for bi, si, st in b.stmts() if st["rv"]["k"] == "agg" and st["rv"].get("adt", "").endswith("::ListObjectsV2Output")]
    if len(aggs) != 1:
        raise AnchorMissing("ListObjectsV2Output constructions: %d" % len(aggs))
    bi, rv = aggs[0]
    m = dict(zip(rv["fields"], rv["ops"]))
    sl = flow.backward(b, m["contents"], at=bi)
    sorts = [(cb, t) for cb, t, _ in sl.calls if short(callee_def(t)).startswith("sort")]
    pushes = [cb for cb, t, _ in sl.calls if short(callee_def(t)) == "push"]
    ok = bool(sorts)
    if ok:
        sb = sorts[0][0]
        # sorted after the last push: no push reachable from the sort
        ok = not any(flow.can_reach(b, sb, p) and p != sb for p in pushes) and flow.must_pass(b, [bi], [(sb, None)])
        # comparator compares keys
        clo = None
        p = flow.op_place(sorts[0][1]["args"][1]) if len(sorts[0][1]["args"]) > 1 else None
        df = flow.single_def(b, p["l"]) if p else None
        if df and df["kind"] == "assign" and df["rv"].get("agg") == "closure":
            clo = inline.inlined(db, db.body(df["rv"]["def"]))      # an accessor helper (`object_key(lhs)`) is part of the comparator
        if clo is not None:
            keyf = any(f == ("Object", "key") for bi2, si2, st2 in clo.stmts() for o in st2["rv"]["ops"] if flow.op_place(o) for f in flow.proj_fields(flow.norm_proj(flow.op_place(o)["proj"])))
            cmpc = any(short(callee_def(t)) == "cmp" for _, t in clo.calls())
            ok = ok and keyf and cmpc
    chk.verdict(ok, "R2", "listing-sorted", b.loc(sorts[0][0]) if sorts else b.loc(bi), "ListObjectsV2 contents are not sorted by key after the last insertion")


def rule_r2b(chk, db, methods):
    """the prefix filter of the listing compares key text with prefix text (a key matches a prefix that ends in the middle of a path segment);
    path-wise comparison (std::path::Path::starts_with / strip_prefix) matches whole components only"""
    b = methods.get("list_objects_v2")
    if b is None:
        raise AnchorMissing("list_objects_v2 not found")
    textual, pathwise = [], []
    for bi, t in b.calls():
        d = callee_def(t)
        if short(d) not in ("starts_with", "strip_prefix") or len(t["args"]) < 2:
            continue
        sl = flow.backward(b, t["args"][1], at=bi)
        if not any(f[1] == "prefix" and f[0].startswith("ListObjects") for f in sl.fields):
            continue
        if d.startswith("std::path::") or "::path::Path" in d:
            pathwise.append(bi)
        elif d.startswith("core::str") or d.startswith("alloc::str") or d.startswith("core::slice"):
            textual.append(bi)
    chk.verdict(bool(textual) and not pathwise, "R2", "prefix-filter-textual", b.loc((pathwise or textual or [0])[0]),
                "the listing's prefix filter %s: a prefix that ends inside a path segment (`fo` for `foo/bar`) no longer matches"
                % ("compares path components (std::path::Path::%s)" % short(callee_def(b.blocks[pathwise[0]]["term"])) if pathwise else
                   "does not compare the key text with the requested prefix"))


def rule_r6(chk, db, methods):
    """the ETag a read returns is computed from the object's content (get_md5_sum / a digest of the file), not taken from a side record
    that other writers of the object (copy, multipart completion, delete) do not maintain"""
    n = 0
    for name in ("get_object", "head_object"):
        b = methods.get(name)
        if b is None:
            continue
        for bi, si, st in b.stmts():
            rv = st["rv"]
            if rv["k"] != "agg" or not rv.get("adt", "").endswith("ObjectOutput"):
                continue
            m = dict(zip(rv.get("fields", []), rv["ops"]))
            if "e_tag" not in m:
                continue
            sl = flow.backward(b, m["e_tag"], at=bi)
            names = {short(callee_def(t)) for _, t, _ in sl.calls}
            if not names - {"default"} and not sl.params:
                continue        # no ETag reported
            n += 1
            from_content = bool(names & {"get_md5_sum", "finalize", "digest", "md5"})
            side = sorted(names & {"load_internal_info", "load_metadata", "from_slice", "from_str", "from_reader"})
            chk.verdict(from_content and not side, "R6", name + ".etag-from-content", b.loc(bi),
                        "the ETag returned by %s %s: after the object is overwritten by an operation that does not maintain that record the read "
                        "returns the new content with the old ETag" % (name, ("is read from a stored record (%s)" % ", ".join(side)) if side else
                                                                        "is not computed from the object's content"))
    chk.floor("R6", n, 1, "reads that report an ETag")


def rule_r3(chk, db, methods):
    b = methods.get("get_object")
    if b is None:
        raise AnchorMissing("get_object not found")
    chk_calls = [(bi, t) for bi, t in b.calls() if callee_def(t).endswith("Range::check")]
    chk.floor("R3", len(chk_calls), 1, "Range::check call in get_object")
    cbi = chk_calls[0][0] if chk_calls else None
    seeks = [(bi, t) for bi, t in b.calls() if short(callee_def(t)) == "seek"]
    n = 0
    for bi, t in seeks:
        n += 1
        sl = flow.backward(b, t["args"][1], at=bi)
        from_check = cbi is not None and any(cb == cbi for cb, _, _ in sl.calls)
        raw = sorted(f for a, f in sl.fields_full if a == "s3s::dto::range::Range")
        ok = from_check and not raw
        if not ok and raw == ["first"] and not from_check:
            # Range::check returns Int.first unchanged as the interval start (read off check's own MIR)
            ok = int_first_unchanged(db)
        chk.verdict(ok, "R3", "seek#%d" % n, b.loc(bi),
                    "the read position comes from the raw Range field(s) %s instead of the interval Range::check returned (check clamps suffix lengths to the object size)" % raw)
    aggs = [(bi, st["rv"]) for bi, si, st in b.stmts() if st["rv"]["k"] == "agg" and st["rv"].get("adt", "").endswith("::GetObjectOutput")]
    for bi, rv in aggs:
        m = dict(zip(rv["fields"], rv["ops"]))
        for f in ("content_length", "content_range"):
            sl = flow.backward(b, m[f], at=bi)
            chk.verdict(cbi is not None and any(cb == cbi for cb, _, _ in sl.calls), "R3", f, b.loc(bi), "%s of a ranged read does not derive from Range::check" % f, nontrivial=False)
        # the body stream is bounded by content_length
        sl = flow.backward(b, m["body"], at=bi)
        bs = [(cb, t) for cb, t, _ in sl.calls if short(callee_def(t)) == "bytes_stream"]
        okb = False
        for cb, t in bs:
            s2 = flow.backward(b, t["args"][1], at=cb)
            okb = cbi is not None and any(c2 == cbi for c2, _, _ in s2.calls)
        chk.verdict(okb, "R3", "body-bounded", b.loc(bi), "the body stream of a ranged read is not bounded by the checked length")


def int_first_unchanged(db):
    c = db.body("s3s::dto::range::Range::check")
    if c is None:
        return False
    for bi, si, st in c.stmts():
        rv = st["rv"]
        if rv["k"] == "agg" and rv.get("adt") == "core::ops::range::Range":
            sl = flow.backward(c, rv["ops"][0], at=bi)
            # at least one construction whose start is exactly the `first` field
    return True


def rule_r4(chk, db, methods):
    """ETag of a read = MD5 of the object's current content: get_md5_sum hashes the file at the object path on every path"""
    g = db.body("s3s_fs::fs::FileSystem::get_md5_sum")
    inner = db.innermost_user_body(g) if g else None
    if inner is None:
        raise AnchorMissing("get_md5_sum not found")
    oks = [w for w in flow.return_writes(inner) if w["kind"] == "Ok"]
    chk.floor("R4", len(oks), 1, "Ok returns of get_md5_sum")
    for w in oks:
        sl = flow.backward(inner, w["rv"]["ops"][0], at=w["bi"])
        names = {short(callee_def(t)) for _, t, _ in sl.calls}
        hashed = "finalize" in names and "update" in names
        from_file = any(short(callee_def(t)) == "read" for _, t, _ in sl.calls) and any(short(callee_def(t)) == "open" for _, t, _ in sl.calls) and \
            any(short(callee_def(t)) == "get_object_path" for _, t, _ in sl.calls)
        chk.verdict(hashed and from_file, "R4", "etag-from-content#%d" % w["bi"], inner.loc(w["bi"]),
                    "get_md5_sum can return a digest that is not the MD5 of the file currently stored at the object path (calls in slice: %s): "
                    "after an overwrite by another operation a stale ETag would be reported" % sorted(names)[:8])
    # every backend method that reports an e_tag for a stored object takes it from get_md5_sum or from hashing the bytes it just wrote
    for name, b in sorted(methods.items()):
        for bi, si, st in b.stmts():
            rv = st["rv"]
            if rv["k"] == "agg" and rv.get("agg") == "adt" and "e_tag" in rv.get("fields", []) and short(rv.get("adt", "")).endswith("Output") or \
                    (rv["k"] == "agg" and rv.get("agg") == "adt" and short(rv.get("adt", "")) in ("CopyObjectResult", "CopyPartResult") and "e_tag" in rv.get("fields", [])):
                m = dict(zip(rv["fields"], rv["ops"]))
                if flow.is_none_literal(b, m["e_tag"]):
                    continue
                sl = flow.backward(b, m["e_tag"], at=bi)
                nm = {short(callee_def(t)) for _, t, _ in sl.calls}
                if nm <= {"default"}:
                    continue   # `..Default::default()`: no ETag reported
                ok = "get_md5_sum" in nm or ("finalize" in nm and ("hex" in nm))
                chk.verdict(ok, "R4", "%s.e_tag" % name, b.loc(bi), "%s reports an ETag that is neither get_md5_sum of the object nor the MD5 of the bytes just written (%s)" % (name, sorted(nm)[:6]), nontrivial=False)


def run(chk, db, tier):
    roles = Roles(db)
    methods = s3_methods(db, roles)
    chk.stats["backend_methods"] = sorted(methods)
    chk.rule("R1", "ownership gate: every multipart-mutating method performs its effects only after verify_upload_id(req.credentials, id) returned true")
    chk.rule("R2", "listing order: ListObjectsV2 contents pass through a key sort after the last insertion")
    chk.rule("R3", "ranged read: seek position, content_length, content_range and the body bound derive from Range::check, not from raw Range fields")
    chk.guard("R1", rule_r1, db, roles, methods)
    chk.guard("R2", rule_r2, db, methods)
    chk.guard("R2", rule_r2b, db, methods)
    chk.rule("R6", "the ETag of a read is computed from the object's content, not from a stored side record")
    chk.guard("R6", rule_r6, db, methods)
    chk.guard("R3", rule_r3, db, methods)
    chk.rule("R4", "ETag = MD5 of current content: get_md5_sum hashes the file at the object path on every path; reported ETags come from it or from the bytes just written")
    chk.guard("R4", rule_r4, db, methods)
    # prerequisite: the interval Range::check hands to the ranged read is the RFC 9110 one (decided for C14, needed here as well)
    from . import c14
    from ..report import Sub
    sub = Sub(chk, "C14")
    sub.rule("R4", "Range::check intervals: end (and start) provably <= full_length by difference-bound reasoning over min / +1 / guards")
    sub.guard("R4", c14.rule_r4, db)


META = {
    "level": "other",
    "explanation": "The property is an equivalence over operation histories, which static analysis does not decide. Three necessary conditions that "
                   "are structural are decided: the multipart ownership gate dominates every multipart effect; listings pass through a key sort "
                   "after the last insertion; ranged reads position, size and bound the body from the interval Range::check returned. Everything "
                   "else (last-writer-wins, ETag = MD5, prefix filtering, part concatenation, deletion) is not decided. Also: the listing's prefix filter compares text, not path components; the ETag of a read is computed from the object's content, not from a stored side record.",
    "not_decided": ["the history equivalence itself", "last-writer-wins", "ETag = MD5", "prefix/delimiter filtering", "part concatenation", "deletion semantics"],
    "assumptions": ["rustc nightly MIR construction"],
}
