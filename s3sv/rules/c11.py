"""C11 - SigV2 (DESIGN.md section 3, C11)."""
from .. import cmpnorm, flow, guards, inline, paths
from ..facts import callee_def, short
from ..model import load_model
from ..report import AnchorMissing
from ..roles import Roles
from . import sigcore, sigwrites
from .sigcore import first_writes_from, is_err_write


def rule_r1(chk, db):
    """dispatch precedence: v2_check consulted before v4_check; v2_check returns Some iff Signature param or `AWS ak:sig` header"""
    b, order = sigcore.rule_v3_check(chk, db)
    names = [n for _, n in sorted(order)]
    first = sorted(order)[0]
    # v2 before v4: the v4_check call must be reachable only through the None outcome of v2_check
    v2 = [bi for bi, n in order if n == "v2_check"]
    v4 = [bi for bi, n in order if n == "v4_check"]
    ok = False
    if v2 and v4:
        none = flow.outcomes_of_call(b, v2[0]).get("None")
        ok = bool(none) and flow.must_pass(b, v4, none)
    chk.verdict(ok, "R1", "v2-before-v4", b.loc(v2[0]) if v2 else b.loc(), "v4_check is reachable without v2_check having declined (None)")
    d = [x for x in db.grep("v2_check_header_auth", "v2_check_presigned_url") if x.crate == "s3s" and
         {"v2_check_header_auth", "v2_check_presigned_url"} <= {short(callee_def(t)) for _, t in x.calls()}]
    if len(d) != 1:
        raise AnchorMissing("v2 dispatcher: %d candidates" % len(d))
    x = inline.inlined(db, d[0])
    # presigned verifier under "Signature parameter present"; header verifier under "AuthorizationV2::parse succeeded" (any form of the tests)
    sig_edges = sigcore.presence_edges(db, x, ("qs", "Signature"))
    parse_edges = sigcore.presence_edges(db, x, ("parse-ok", "AuthorizationV2"))
    for bi, t in x.calls():
        nm = short(callee_def(t))
        if nm == "v2_check_presigned_url":
            chk.verdict(sigcore.selected_by(x, bi, sig_edges), "R1", "presigned-iff-Signature", x.loc(bi),
                        "the V2 presigned verifier is not selected by the presence of the `Signature` parameter")
        if nm == "v2_check_header_auth":
            chk.verdict(sigcore.selected_by(x, bi, parse_edges, success_of=lambda d: d.endswith("AuthorizationV2::<'a>::parse") or d.endswith("AuthorizationV2::parse")), "R1", "header-iff-AWS-scheme", x.loc(bi),
                        "the V2 header verifier is not selected by a parsable `AWS ak:sig` Authorization header")
    # a present Signature parameter never yields None
    for w in [w for w in flow.return_writes(x) if w["kind"] == "None"]:
        chk.verdict(not (sig_edges and w["bi"] in flow.reach_from_edges(x, sig_edges)), "R1", "Signature-present-yields-verdict", x.loc(w["bi"]),
                    "v2_check can decline although the `Signature` parameter is present", nontrivial=False)


def rule_r2(chk, db, v):
    body = v.body
    cmps = cmpnorm.ordered_comparisons(body)

    def is_now(sl):
        return any(callee_def(t).endswith("OffsetDateTime::now_utc") for _, t, _ in sl.calls)

    def is_exp(sl):
        arith = [callee_def(t) for _, t, _ in sl.calls if not flow.is_transparent(t)]
        return ("PresignedUrlV2", "expires_time") in sl.fields and not is_now(sl) and not arith
    found = False
    for c in cmps:
        r = c.oriented2(lambda sl: is_now(sl) and ("PresignedUrlV2", "expires_time") not in sl.fields, "PresignedUrlV2", "expires_time")
        if r is None:
            continue
        rel, te, fe = r
        acc = cmpnorm.accept_side(rel, te, fe, "<=")
        rej = fe if acc is te else te
        found = True
        chk.verdict(bool(acc) and flow.must_pass(body, v.acc, acc), "R2", "expiry", body.loc(c.bi), "acceptance is not dominated by the `now <= Expires` outcome (test is `now %s expires`)" % rel)
        fw = first_writes_from(body, rej)
        chk.verdict(bool(fw) and all(is_err_write(w) for w in fw), "R2", "expired-is-error", body.loc(c.bi), "an expired V2 URL does not end in an error return")
    if not found:
        chk.fail("R2", "expiry", body.loc(), "no comparison between the current time and `Expires` guards acceptance")
    # parse_unix_timestamp rejects negatives; full parse
    b = db.body("s3s::sig_v2::presigned_url_v2::parse_unix_timestamp")
    if b is None:
        chk.anchor_missing("R2", "parse_unix_timestamp not found")
    else:
        full = any(callee_def(t) == "core::str::<impl str>::parse" for _, t in b.calls())
        nonneg = False
        for x in db.nested(b, include_self=True):
            for bi, si, st in x.stmts():
                rv = st["rv"]
                if rv["k"] == "bin" and rv["op"] in ("Ge", "Gt"):
                    cs = [int(o["v"]) for o in rv["ops"] if isinstance(o, dict) and o.get("c") == "int"]
                    if cs in ([0],) or (rv["op"] == "Gt" and cs == [(1 << 64) - 1]):
                        nonneg = True
        chk.verdict(full and nonneg, "R2", "parse_unix_timestamp", b.loc(), "`Expires` must be a fully parsed, non-negative integer (full: %s, non-negative: %s)" % (full, nonneg))


def rule_r3(chk, db, v):
    """header auth needs a date: acceptance passes a "present" outcome of the Date or of the x-amz-date lookup (whatever the form of the test)"""
    body = v.body
    present = set()
    at = None
    for bi, t in body.calls():
        d = callee_def(t)
        if d in ("core::option::Option::<T>::is_none", "core::option::Option::<T>::is_some"):
            sl = flow.backward(body, t["args"][0], at=bi)
            lits = flow.slice_literals(db, body, sl)
            if lits & {"date", "x-amz-date"} and any(short(callee_def(c)) == "get_unique" for _, c, _ in sl.calls):
                o = flow.outcomes_of_call(body, bi)
                present |= o.get("false") if d.endswith("is_none") else o.get("true")
                at = bi
        elif short(d) == "get_unique" and paths.str_args(body, t) in (["date"], ["x-amz-date"]):
            present |= flow.outcomes_of_call(body, bi).get("Some")
            at = bi if at is None else at
    ok = bool(present) and flow.must_pass(body, v.acc, present)
    chk.verdict(ok, "R3", "date-required", body.loc(at) if at is not None else body.loc(), "a V2 header-signed request without Date and x-amz-date can be accepted")


def rule_r4(chk, db):
    p = db.body("s3s::sig_v2::presigned_url_v2::PresignedUrlV2::<'a>::parse")
    if p is None:
        raise AnchorMissing("PresignedUrlV2::parse not found")
    want = {"access_key": "AWSAccessKeyId", "expires_time": "Expires", "signature": "Signature"}
    for bi, si, st in p.stmts():
        rv = st["rv"]
        if rv["k"] == "agg" and rv.get("adt", "").endswith("::PresignedUrlV2"):
            for f, o in zip(rv["fields"], rv["ops"]):
                sl = flow.backward(p, o, at=bi)
                gu = [paths.str_args(p, t) for _, t, _ in sl.calls if callee_def(t).endswith("OrderedQs::get_unique")]
                chk.verdict(gu == [[want[f]]], "R4", "qs." + f, p.loc(bi), "PresignedUrlV2.%s read by %s (expected one get_unique(%r))" % (f, gu, want[f]))


def rule_r5(chk, db, model):
    lst = db.const_str("s3s::sig_v2::methods::INCLUDED_QUERY")
    if not lst:
        raise AnchorMissing("INCLUDED_QUERY not found")
    asc = all(lst[i] < lst[i + 1] for i in range(len(lst) - 1))
    chk.verdict(asc, "R5", "sorted", "crates/s3s/src/sig_v2/methods.rs", "the sub-resource list is not strictly ascending (its order is the canonical order)")
    known = set()
    for op in model.operations(include_skipped=True):
        known |= set(op.query_tags)
        for m in op.input_members():
            if m.has("httpQuery"):
                known.add(m.t("httpQuery"))
    for q in lst:
        chk.verdict(q in known, "R5", "entry:" + q, "crates/s3s/src/sig_v2/methods.rs", "sub-resource %r is neither a query tag nor a query-bound member of any model operation" % q, nontrivial=False)
    chk.floor("R5", len(lst), 15, "sub-resource entries")


def _none_although_found(db, sel):
    """the selector can answer None in a state where it has found an entry with the requested name (a name-equality test succeeded): it
    treats a repeated name like an absent one"""
    from .. import guards
    hits = []
    for x in db.nested(sel):
        for w in flow.return_writes(x):
            if w["kind"] != "None":
                continue
            for f in guards.dominating_facts(x, w["bi"]):
                if f[0] == "call" and f[1].endswith("PartialEq::eq") and f[2] is True:
                    hits.append(x.loc(w["bi"]))
                elif f[0] == "cmp" and f[1] == "Eq" and f[2] is True:
                    hits.append(x.loc(w["bi"]))
    return hits


def rule_r7(chk, db):
    """every occurrence of a signed sub-resource is bound by the signature: the router's presence test (`has`) is true for a name that occurs
    twice, so the canonicalised resource must not take such a name for absent"""
    b = db.body(sigcore.BUILDERS_V2[0]) if sigcore.BUILDERS_V2 else None
    cands = [db.body(n) for n in sigcore.BUILDERS_V2 if db.body(n) is not None and short(n) == "create_string_to_sign"]
    if not cands:
        raise AnchorMissing("V2 create_string_to_sign not found")
    b = inline.inlined(db, cands[0])
    n = 0

    def table_item(x, op, at):
        """the name operand comes out of the sub-resource table: directly, or as the argument of a closure that is handed to an adaptor
        whose receiver iterates the table (`INCLUDED_QUERY.iter().flat_map(|&q| qs.get_all(q)..)`)"""
        sl = flow.backward(x, op, at=at)
        if any(c.get("c") == "item" and c.get("def", "").endswith("INCLUDED_QUERY") for c in sl.consts):
            return True
        if x.kind == "Closure" and any(l >= 2 for l, _ in sl.params):
            par = db.body(x.parent) if x.parent != cands[0].name else b
            pars = [par] if par is not None else []
            if par is not None and par.kind == "Closure" and db.body(par.parent) is not None:
                pars.append(db.body(par.parent))
            for px in pars + [b]:
                for _, _, st in px.stmts():
                    if st["rv"]["k"] == "agg" and st["rv"].get("def") == x.name and not st["dst"]["proj"]:
                        cl = st["dst"]["l"]
                        for bi2, t2 in px.calls():
                            if len(t2["args"]) >= 2 and any(flow.op_place(a) is not None and flow.op_place(a)["l"] == cl for a in t2["args"][1:]):
                                s2 = flow.backward(px, t2["args"][0], at=bi2)
                                if any(c.get("c") == "item" and c.get("def", "").endswith("INCLUDED_QUERY") for c in s2.consts):
                                    return True
        return False
    extra = []
    for hn in getattr(b, "inlined_from", []):       # closures of the stages that were inlined (`StringToSign::push_resource`)
        hb = db.body(hn)
        if hb is not None:
            extra += [y for y in db.nested(db.root_of(hb)) if y.kind == "Closure"]
    for x in [b] + [y for y in db.nested(cands[0]) if y is not cands[0]] + extra:
      for bi, t in x.calls():
        d = callee_def(t)
        if "ordered_qs::OrderedQs::" not in d or len(t["args"]) < 2:
            continue
        if not table_item(x, t["args"][1], bi):
            continue
        n += 1
        sel = db.body(d)
        bad = _none_although_found(db, sel) if sel is not None else ["(selector body not found)"]
        chk.verdict(not bad, "R7", "every-occurrence-signed:%s" % short(d), x.loc(bi),
                    "the sub-resources of the canonicalised resource are selected with %s, which answers None for a name that occurs more than once "
                    "(%s): `?acl&acl` falls out of the string to sign while the router still sees `acl` - a request signed for GET /b/k is accepted as "
                    "GetObjectAcl" % (short(d), ", ".join(bad[:2])))
    chk.floor("R7", n, 1, "query selections by sub-resource name in the V2 string-to-sign builder")
    # observation: Content-MD5 / Content-Type / Date are selected with the headers' single-valued selector as well, so a request that repeats
    # one of these headers is signed as if it had none.  Operations that bind such a header refuse the repetition when they read it
    # (C02: single-valued helpers), the others do not look at it: no accepted request changes its meaning, hence an advisory
    hs = sorted({(paths.str_args(b, t) or ["?"])[0] for bi, t in b.calls() if "ordered_headers::OrderedHeaders" in callee_def(t) and short(callee_def(t)) == "get_unique"})
    if hs:
        chk.advisory("the V2 string to sign reads %s with OrderedHeaders::get_unique: a repeated header is signed as absent (the typed input refuses "
                     "the repetition where the header matters)" % ", ".join(hs))


def run(chk, db, tier):
    model = load_model()
    vs = sigcore.run_common(chk, db, {"v2-header", "v2-presigned"}, sigcore.BUILDERS_V2)
    chk.rule("R1", "dispatch precedence: v2_check before v4_check; verifier selection by `Signature` parameter / `AWS ak:sig` header")
    chk.rule("R2", "expiry guard: acceptance dominated by `now <= Expires`; Expires fully parsed and non-negative")
    chk.rule("R3", "header auth requires Date or x-amz-date")
    chk.rule("R4", "AWSAccessKeyId / Expires / Signature via get_unique")
    chk.rule("R5", "sub-resource table strictly ascending and drawn from the model's query tags/members")
    chk.rule("R6", "layout of the V2 string to sign and base64(HMAC-SHA1)")
    # observation, outside the stated iff: header auth signs the Date header as opaque text and never checks its freshness, so the
    # signature of a presigned URL also verifies as a header-auth request carrying `Date: <that URL's Expires value>` (same string to sign)
    # after the URL expired.  By the letter of the property a header-auth request whose signature matches is to be accepted.
    for v in vs:
        if v.kind == "v2-header" and not any(short(callee_def(t)) in ("parse", "parse_rfc2822", "parse_http_date", "from_str") and
                                              any("date" in (c or "") for c in paths.str_args(v.body, t)) for _, t in v.body.calls()):
            chk.advisory("v2_check_header_auth signs the Date header as text and does not check that it is a recent date: the signature of an expired "
                         "presigned URL still verifies as header auth with `Date: <Expires>`; outside the property's iff (a matching header-auth "
                         "signature is to be accepted), reported as an observation")
    chk.guard("R1", rule_r1, db)
    for v in vs:
        if v.kind == "v2-presigned":
            chk.guard("R2", rule_r2, db, v)
        else:
            chk.guard("R3", rule_r3, db, v)
    chk.guard("R4", rule_r4, db)
    chk.guard("R5", rule_r5, db, model)
    chk.guard("R6", sigwrites.rule_r6_v2, db)
    chk.rule("R7", "every occurrence of a signed sub-resource is part of the string to sign (no selector that takes a repeated name for absent)")
    chk.guard("R7", rule_r7, db)


META = {
    "level": "other",
    "explanation": "V1-V4 for the two SigV2 verifiers with the V2 component vectors (mode constant, raw path, sub-resources, headers, "
                   "virtual-host bucket), the V2 string-to-sign layout as an abstract write trace, dispatch precedence, the normalised expiry "
                   "comparison, date requirement, get_unique discipline and the sub-resource table (sorted, drawn from the model). Round 4: every occurrence of a signed sub-resource is part of the string to sign (R7: no selector that answers None for a repeated name; found and repaired a genuine defect); header view order (V6).",
    "not_decided": ["which parameters ought to be in the sub-resource list", "header folding", "Date semantics", "completeness as a whole"],
    "assumptions": ["rustc nightly MIR construction"],
}
