"""C05 - SigV4 header authentication (DESIGN.md section 3, C05)."""
from .. import flow, guards, paths, inline
from ..facts import callee_def, short
from ..report import AnchorMissing
from . import sigcore

CCR = "s3s::sig_v4::methods::create_canonical_request"
PAYLOAD = "s3s::sig_v4::methods::Payload"


def inner_enum(facts, prefix):
    """variant sets for enums whose type string starts with `prefix` (not Option<..> wrappers)"""
    return [f[2] for f in facts if f[0] == "enum" and f[1].startswith(prefix)]


def rule_r1(chk, db):
    """presented => verdict: v4_check returns None only when no POST form, no X-Amz-Signature, no unique authorization header"""
    cands = [b for b in db.grep("v4_check_header_auth", "v4_check_presigned_url") if b.crate == "s3s" and
             {"v4_check_header_auth", "v4_check_presigned_url", "v4_check_post_signature"} <= {short(callee_def(t)) for _, t in b.calls()}]
    if len(cands) != 1:
        raise AnchorMissing("expected one dispatcher calling the three V4 verifiers, found %d" % len(cands))
    b = inline.inlined(db, cands[0])        # a classifier helper (`fn v4_source(&self) -> Option<Kind>`) is part of the dispatcher
    rw = flow.return_writes(b)
    nones = [w for w in rw if w["kind"] == "None"]
    somes = [w for w in rw if w["kind"] == "Some"]
    chk.floor("R1", len(somes), 1, "Some(verdict) returns in v4_check")
    allnames = set()
    for w in somes:
        sl = flow.backward(b, w["rv"]["ops"][0])
        names = {short(callee_def(t)) for _, t, _ in sl.calls} & {"v4_check_header_auth", "v4_check_presigned_url", "v4_check_post_signature"}
        allnames |= names
        chk.verdict(len(names) >= 1, "R1", "verdict#%d" % w["bi"], b.loc(w["bi"]), "Some(..) in v4_check is not the result of a verifier")
    chk.verdict(len(allnames) == 3, "R1", "verdicts", b.loc(), "verifier results returned by v4_check: %s" % sorted(allnames), nontrivial=False)
    sig_edges = sigcore.presence_edges(db, b, ("qs", "X-Amz-Signature"))
    auth_edges = sigcore.presence_edges(db, b, ("auth-header",))
    for w in nones:
        what = []
        if sig_edges and w["bi"] in flow.reach_from_edges(b, sig_edges):
            what.append("presigned parameters present")
        if auth_edges and w["bi"] in flow.reach_from_edges(b, auth_edges):
            what.append("authorization header present")
        chk.verdict(not what, "R1", "anonymous", b.loc(w["bi"]), "v4_check classifies a request as unsigned although %s" % what)
    # the tests exist (else vacuous)
    chk.floor("R1.tests", (1 if sig_edges else 0) + (1 if auth_edges else 0), 2, "presence tests in v4_check (X-Amz-Signature, Authorization)")


def rule_r2(chk, db, v):
    """payload-mode dispatch"""
    body = v.body
    aggs = [(bi, st) for bi, si, st in body.stmts() if st["rv"]["k"] == "agg" and st["rv"].get("adt") == PAYLOAD]
    chk.floor("R2", len(aggs), 4, "Payload constructions in the header verifier")
    n = 0
    for bi, st in aggs:
        rv = st["rv"]
        var = rv["variant"]
        n += 1
        f = guards.dominating_facts(body, bi)
        sha = inner_enum(f, "s3s::sig_v4::amz_content_sha256::AmzContentSha256")
        meth = inner_enum(f, "http::method::Inner")
        key = "%s#%d" % (var, n)
        if var == "MultipleChunks":
            ok = any(s == frozenset(["MultipleChunks"]) for s in sha)
            chk.verdict(ok, "R2", key, body.loc(bi), "Payload::MultipleChunks is used without x-amz-content-sha256 == STREAMING-AWS4-HMAC-SHA256-PAYLOAD on every path (facts: %s)" % sha)
        elif var == "Unsigned":
            ok = any(s == frozenset(["UnsignedPayload"]) for s in sha)
            chk.verdict(ok, "R2", key, body.loc(bi), "Payload::Unsigned is used without x-amz-content-sha256 == UNSIGNED-PAYLOAD on every path (facts: %s)" % sha)
        elif var == "Empty":
            ok_m = any(s <= frozenset(["Get", "Head"]) for s in meth)
            ok_e = False
            for x in f:
                if x[0] == "call" and x[1].endswith("::is_empty") and x[2] is True:
                    ct = body.blocks[x[3]]["term"]
                    sl = flow.backward(body, ct["args"][0])
                    if any(callee_def(t).endswith("::extract_full_body") for _, t, _ in sl.calls):
                        ok_e = True
            chk.verdict(ok_m or ok_e, "R2", key, body.loc(bi), "Payload::Empty is used although neither `method in {GET, HEAD}` nor `buffered body is empty` holds on every path")
        else:
            # data-carrying variant: the data must be the body bytes, or a declared digest proven equal to the body's hash
            sl = flow.backward(body, rv["ops"][0]) if rv["ops"] else None
            from_body = sl is not None and any(callee_def(t).endswith("::extract_full_body") for _, t, _ in sl.calls)
            if var == "SingleChunk":
                chk.verdict(from_body, "R2", key, body.loc(bi), "Payload::SingleChunk does not carry the buffered request body")
            else:
                ok = from_body
                if not ok:
                    # declared digest: need a dominating equal-outcome of (hash of body) vs (declared)
                    for x in f:
                        if x[0] == "call" and (x[1].endswith("PartialEq::eq") and x[2] is True or x[1].endswith("PartialEq::ne") and x[2] is False):
                            ct = body.blocks[x[3]]["term"]
                            s0, s1 = flow.backward(body, ct["args"][0]), flow.backward(body, ct["args"][1])
                            if any(any(callee_def(t).endswith("::extract_full_body") for _, t, _ in s.calls) for s in (s0, s1)):
                                ok = True
                chk.verdict(ok, "R2", key, body.loc(bi),
                            "Payload::%s carries a value that is neither the body bytes nor a digest compared with the body's hash on every path" % var)
    # every create_canonical_request payload operand is one of these constructions
    for bi, t in body.calls():
        if callee_def(t) == CCR:
            r = flow.resolve_place(body, t["args"][4])
            ds = [d for d in body.defs().get(r[0], []) if d["kind"] == "assign"] if r else []
            ok = bool(ds) and all(d["rv"]["k"] == "agg" and d["rv"].get("adt") == PAYLOAD for d in ds)
            chk.verdict(ok, "R2", "operand@%s" % body.loc(bi).rsplit(":", 1)[-1] if False else "operand#%d" % bi, body.loc(bi),
                        "payload operand of create_canonical_request is not a Payload construction of this function", nontrivial=False)


def rule_r3(chk, db, v):
    """signed-header selection: only synthesised header is `host` under HTTP/2 from the full authority"""
    body = v.body
    fm = [(bi, t) for bi, t in body.calls() if callee_def(t).endswith("::find_multiple_with_on_missing")]
    if not fm:
        chk.ok("R3", v.name + ".no-synthesis", body.loc(), nontrivial=False)
        return
    selector_takes_all_values(chk, db, v.name)
    for bi, t in fm:
        # closure operand
        clo = None
        p = flow.op_place(t["args"][2])
        df = flow.single_def(body, p["l"]) if p else None
        if df and df["kind"] == "assign" and df["rv"]["k"] == "agg" and df["rv"].get("agg") == "closure":
            clo = inline.inlined(db, db.body(df["rv"]["def"]))
        if clo is None:
            chk.fail("R3", v.name + ".on-missing", body.loc(bi), "cannot find the on-missing closure")
            continue
        somes = [w for w in flow.return_writes(clo) if w["kind"] == "Some"]
        ok = True
        what = ""
        for w in somes:
            f = guards.dominating_facts(clo, w["bi"])
            eqs = [x for x in f if x[0] == "call" and x[1].endswith("PartialEq::eq") and x[2] is True]
            lits = set()
            consts = set()
            for x in eqs:
                ct = clo.blocks[x[3]]["term"]
                for a in ct["args"]:
                    c = flow.const_of(clo, a)
                    if c is not None and c.get("c") == "str":
                        lits.add(c["v"])
                    if c is not None and c.get("c") == "item":
                        consts.add(short(c["def"]))
            if lits != {"host"} or consts != {"HTTP_2"}:
                ok, what = False, "a header is synthesised under guards %s / %s (spec: only `host`, only for HTTP/2)" % (sorted(lits), sorted(consts))
            sl = flow.backward(clo, w["rv"]["ops"][0])
            am = {short(callee_def(x)) for _, x, _ in sl.calls if callee_def(x).startswith("http::uri::authority::Authority::")}
            um = {short(callee_def(x)) for _, x, _ in sl.calls if callee_def(x).startswith("http::uri::Uri::")}
            if am != {"as_str"} or um != {"authority"}:
                ok, what = False, "the synthesised host value is not the request's full authority (Authority::%s via Uri::%s)" % (sorted(am), sorted(um))
        chk.verdict(ok and bool(somes), "R3", v.name + ".on-missing", clo.loc(), what or "on-missing closure never yields a value")


def selector_takes_all_values(chk, db, who):
    """the signed-header selector hands over *every* value of a repeated header: the iterator over the pairs of one name is drained (a
    loop that keeps calling next() on the same iterator, or an adaptor that consumes it), not asked for its first item only"""
    cands = [b for b in db.grep("find_multiple_with_on_missing") if b.crate == "s3s" and b.kind in ("Fn", "AssocFn") and
             short(b.name) == "find_multiple_with_on_missing"]
    if len(cands) != 1:
        raise AnchorMissing("signed-header selector find_multiple_with_on_missing: %d candidates" % len(cands))
    b = inline.inlined(db, cands[0])
    pushes = [(bi, t) for bi, t in b.calls() if short(callee_def(t)) in ("push", "extend", "insert", "push_back") and
              (callee_def(t).startswith("alloc::vec") or callee_def(t).startswith("alloc::collections") or "Extend" in callee_def(t))]
    feeding = {}
    for pbi, pt in pushes:
        for a in pt["args"][1:]:
            sl = flow.backward(b, a, at=pbi)
            for cb, ct, _ in sl.calls:
                if callee_def(ct).endswith("iterator::Iterator::next"):
                    feeding[cb] = ct
    if not feeding:
        raise AnchorMissing("the selector pushes no item taken from an iterator")
    for nb, t in sorted(feeding.items()):
        sl = flow.backward(b, t["args"][0], at=nb)
        creators = frozenset(cb for cb, _, _ in sl.calls if cb != nb)
        some = flow.outcomes_of_call(b, nb).get("Some")
        r = flow.reach_from_edges(b, some, stop_blocks=creators) if some else set()
        drained = nb in r and nb not in creators
        chk.verdict(drained, "R3", "%s.all-values#%d" % (who, sorted(feeding).index(nb)), b.loc(nb),
                    "the signed-header selector takes only the first item of an iterator whose items it selects (next() is not called again on the same "
                    "iterator): a second value of a repeated signed header reaches the backend without being covered by the signature")


def compared_literals(db, builder_name):
    """string literals the builder - or any function of the signing module it calls, transitively - compares names against
    (`==` / `!=` with a literal operand).  These are the components a builder can single out for exclusion."""
    root = db.body(builder_name)
    if root is None:
        raise AnchorMissing("builder %s not found" % builder_name)
    seen = {}
    st = [(root, 0)]
    lits = {}
    while st:
        b, depth = st.pop()
        if b.name in seen:
            continue
        seen[b.name] = b
        for c in b.children:
            st.append((c, depth))
        for bi, t in b.calls():
            d = callee_def(t)
            if d.endswith("PartialEq::eq") or d.endswith("PartialEq::ne"):
                for a in t["args"]:
                    c = flow.const_of(b, a)
                    if c is not None and c.get("c") == "str":
                        lits.setdefault(c["v"], b.loc(bi))
            cb = db.body(t["callee"].get("resolved") or "") or db.body(d)
            if cb is not None and cb.crate == "s3s" and d.startswith("s3s::sig_v4::methods::") and depth < 3:
                st.append((cb, depth + 1))
    return lits, seen


def rule_r4(chk, db):
    for builder, want in ((CCR, {"authorization"}), ("s3s::sig_v4::methods::create_presigned_canonical_request", {"authorization", "X-Amz-Signature"})):
        lits, seen = compared_literals(db, builder)
        b = db.body(builder)
        got = set(lits)
        chk.verdict(got == want, "R4", short(builder), b.loc(), "names the builder singles out by comparison with a literal: %s; the specification excludes exactly %s "
                    "from the canonical request" % (sorted(got), sorted(want)), detail={"functions": sorted(short(n) for n in seen)})


def run(chk, db, tier):
    vs = sigcore.run_common(chk, db, {"v4-header"}, sigcore.BUILDERS_V4)
    chk.rule("R1", "presented => verdict: v4_check returns None only when no form, no X-Amz-Signature and no authorization header")
    chk.rule("R2", "payload-mode dispatch: each Payload variant only under its guard; SingleChunk carries the buffered body")
    chk.rule("R3", "signed-header selection: every value of a signed header is selected; only `host` under HTTP/2 is synthesised, from the full authority")
    chk.rule("R4", "exclusion predicates compare against exactly {authorization} (+ {X-Amz-Signature} for presigned)")
    chk.guard("R1", rule_r1, db)
    for v in vs:
        chk.guard("R2", rule_r2, db, v)
        chk.guard("R3", rule_r3, db, v)
    chk.guard("R4", rule_r4, db)
    from . import sigwrites
    sigwrites.run_v4(chk, db)
    # prerequisite for "altering the body of a signed-payload request is refused": the bytes whose digest is compared are the whole body
    # (decided for C02)
    from . import c02
    from ..report import Sub
    sub = Sub(chk, "C02")
    sub.rule("R5", "buffered body: what extract_full_body returns was read from the request body to its end; non-empty bytes only through `len == Content-Length`")
    sub.guard("R5", c02.rule_r5, db)


META = {
    "level": "other",
    "explanation": "Soundness of SigV4 header authentication as ordering/dataflow facts over MIR: acceptance is edge-dominated by the "
                   "`computed == presented` outcome; the secret is the provider's answer for the presented access key; every component the "
                   "spec signs flows into the string to sign (argument provenance + parameter->result taint inside the builders); payload-mode "
                   "dispatch; layout of the canonical request / string to sign / HMAC chain; URI-encoding byte table. Completeness (every valid "
                   "request accepted) and exact canonical text (folding, joining) are not decided. Round 4: the header view is sorted by name only, stably (V6).",
    "not_decided": ["completeness as a whole", "semantics of trim/sort/SHA-256/HMAC (library contracts)", "folding of inner whitespace and joining of repeated headers"],
    "assumptions": ["rustc nightly MIR construction", "default call summary for non-workspace callees: result depends on all arguments"],
}
