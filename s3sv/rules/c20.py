"""C20 - policy wildcards and documents: narrow structural claim (DESIGN.md section 3, C20)."""
import re

from .. import flow, guards, paths, inline
from ..facts import callee_def, short
from ..report import AnchorMissing
from .sigcore import first_writes_from

P = "s3s_policy::pattern::"
MODEL = "s3s_policy::model::"


def rule_r1(chk, db):
    b = inline.inlined(db, db.body(P + "PatternSet::match_pattern"))
    if b is None:
        raise AnchorMissing("match_pattern not found")
    consts = set()
    ordered_on_bytes = []
    n = 0
    for bi, si, st in b.stmts():
        rv = st["rv"]
        if rv["k"] != "bin" or rv["op"] not in ("Eq", "Ne", "Lt", "Le", "Gt", "Ge"):
            continue
        tys = []
        for o in rv["ops"]:
            p = flow.op_place(o)
            tys.append(b.locals[p["l"]] if p is not None and not p["proj"] else (o.get("ty") if isinstance(o, dict) else None))
        if "u8" not in tys:
            continue
        n += 1
        if rv["op"] in ("Eq", "Ne"):
            for o in rv["ops"]:
                if isinstance(o, dict) and o.get("c") == "int":
                    consts.add(int(o["v"]))
        else:
            ordered_on_bytes.append(b.loc(bi))
    # `match p { b'*' => .., b'?' => .., _ => .. }` compiles to a switch on the byte
    for bi in b.live_blocks():
        t = b.blocks[bi]["term"]
        if t["k"] == "switch":
            p = flow.op_place(t["discr"])
            is_u8 = p is not None and ((not p["proj"] and b.locals[p["l"]] == "u8") or
                                       (any(isinstance(e, dict) and ("idx" in e or "cidx" in e) for e in p["proj"]) and "[u8]" in b.locals[p["l"]]))
            if p is not None and p["proj"] and not is_u8:
                # `match slice.get(i).copied() { Some(b'*') => .. }`: a switch on the payload of an Option<u8>
                names = [e.get("n") for e in p["proj"] if isinstance(e, dict)]
                lty = b.locals[p["l"]].replace(" ", "")
                is_u8 = names[:2] == ["Some", "0"] and lty in ("core::option::Option<u8>", "core::option::Option<&u8>")
                # `match (pattern.get(i).copied(), input.get(j).copied()) { (Some(b'*'), _) => .. }`: the payload of a tuple field
                if not is_u8 and names[-2:] == ["Some", "0"] and len(names) == 3 and lty.startswith("(") and "core::option::Option<u8>" in lty:
                    is_u8 = True
            if p is not None and not p["proj"] and not is_u8:
                df = flow.single_def(b, p["l"])
                if df and df["kind"] == "assign" and df["rv"]["k"] == "use":
                    q = flow.op_place(df["rv"]["ops"][0])
                    is_u8 = q is not None and "[u8]" in b.locals[q["l"]]
            if is_u8:
                n += 1
                for v, _ in t["targets"]:
                    consts.add(int(v))
    chk.floor("R1", n, 2, "byte comparisons in match_pattern")
    chk.verdict(consts == {42, 63}, "R1", "wildcard-alphabet", b.loc(), "pattern bytes are compared with the constants %s (documented wildcards: `*` (42) and `?` (63) only)" % sorted(consts))
    chk.verdict(not ordered_on_bytes, "R1", "bytes-only-compared-for-equality", ordered_on_bytes[0] if ordered_on_bytes else b.loc(),
                "bytes are compared with an ordering relation: matching is not data-independent")


def rule_r1b(chk, db):
    """every other place of the pattern module that singles out a wildcard byte knows both: a scan that looks for `*` only (a literal-prefix
    shortcut, a 'has wildcards' test) treats `?` as a literal character"""
    n = 0
    roots = {}
    for b in db.bodies.values():
        if b.crate != "s3s_policy" or not b.name.startswith(P) or "::tests::" in b.name:
            continue
        r = db.root_of(b)
        if short(r.name) == "match_pattern":
            continue
        cs = set()
        for bi, si, st in b.stmts():
            rv = st["rv"]
            if rv["k"] == "bin" and rv["op"] in ("Eq", "Ne"):
                for o in rv["ops"]:
                    if isinstance(o, dict) and o.get("c") == "int" and o.get("ty") == "u8":
                        cs.add(int(o["v"]))
        for bi in b.live_blocks():
            t = b.blocks[bi]["term"]
            if t["k"] == "switch":
                p = flow.op_place(t["discr"])
                if p is not None and b.locals[p["l"]] in ("u8", "&u8"):
                    cs |= {int(v) for v, _ in t["targets"]}
            if t["k"] == "call" and short(callee_def(t)) in ("memchr", "contains", "position", "find", "split", "starts_with", "ends_with", "rfind"):
                for a in t["args"]:
                    c = flow.const_of(b, a)
                    if c is not None and c.get("c") == "int" and c.get("ty") in ("u8", "char"):
                        cs.add(int(c["v"]))
                    elif c is not None and c.get("c") in ("str", "bstr") and c["v"] in ("*", "?"):
                        cs.add(ord(c["v"]))
        if cs & {42, 63}:
            roots.setdefault(r.name, [set(), b, None])[0].update(cs & {42, 63})
    for name, (cs, b, _) in sorted(roots.items()):
        n += 1
        chk.verdict(cs == {42, 63}, "R1", "wildcards-agree@%s" % short(name), b.loc(),
                    "%s singles out %s but not %s: the two wildcards are not treated alike outside the matcher" % (
                        short(name), [chr(c) for c in sorted(cs)], [chr(c) for c in sorted({42, 63} - cs)]))
    chk.stats["wildcard_sites_outside_matcher"] = n


def rule_r2(chk, db):
    pp = db.body(P + "PatternSet::parse_pattern")
    if pp is None:
        raise AnchorMissing("parse_pattern not found")
    oks = [w["bi"] for w in flow.return_writes(pp) if w["kind"] == "Ok"]
    ok = False
    for bi, t in pp.calls():
        if short(callee_def(t)) == "is_empty":
            o = flow.outcomes_of_call(pp, bi)
            ok = bool(o.get("false")) and flow.must_pass(pp, oks, o.get("false"))
    chk.verdict(ok, "R2", "empty-pattern-refused", pp.loc(), "parse_pattern can return Ok for an empty pattern")
    # the pattern bytes are the text unchanged
    for bi, si, st in pp.stmts():
        rv = st["rv"]
        if rv["k"] == "agg" and rv.get("adt", "").endswith("::Pattern"):
            sl = flow.backward(pp, rv["ops"][0], at=bi)
            lossy = [short(callee_def(t)) for _, t, _ in sl.calls if short(callee_def(t)) in ("trim", "to_lowercase", "to_ascii_lowercase", "to_uppercase", "replace", "dedup", "strip_prefix")]
            chk.verdict(not lossy and any(l == 1 for l, _ in sl.params), "R2", "pattern-verbatim", pp.loc(bi), "the stored pattern is transformed by %s" % lossy, nontrivial=False)
    nb = db.body(P + "PatternSet::new")
    if nb is None:
        raise AnchorMissing("PatternSet::new not found")
    names = set()
    for x in db.nested(nb):
        for bi, t in x.calls():
            names.add(short(callee_def(t)))
    pruning = sorted(names & {"is_match", "match_pattern", "filter", "filter_map", "retain", "dedup", "dedup_by", "skip_while", "take_while", "contains", "any", "all"})
    chk.verdict(not pruning, "R2", "every-pattern-kept", nb.loc(),
                "PatternSet::new drops or tests patterns while building the set (%s): the set no longer matches the union of its patterns" % pruning)
    chk.verdict("parse_pattern" in names or any(c.get("c") == "fn" and short(c["def"]) == "parse_pattern" for x in db.nested(nb) for bl in x.blocks if not bl["cleanup"]
                                              for a in (bl["term"].get("args") or []) if isinstance(a, dict) for c in [a]),
                "R2", "patterns-parsed", nb.loc(), "PatternSet::new does not parse each pattern with parse_pattern", nontrivial=False)
    # an Err of any element aborts: the collected Result goes through `?`
    br = [bi for bi, t in nb.calls() if callee_def(t).endswith("Try::branch")]
    col = [t for _, t in nb.calls() if short(callee_def(t)) == "collect"]
    pushes = [bi for x in db.nested(nb) for bi, t in x.calls() if short(callee_def(t)) == "push"]
    ok = (bool(col) and any("Result" in t["callee"].get("args", "") for t in col) and bool(br)) or (bool(pushes) and bool(br))
    chk.verdict(ok, "R2", "invalid-pattern-aborts", nb.loc(), "an invalid pattern does not abort PatternSet::new (no `?` on the parse result)")


def rule_r3(chk, db):
    b = db.body(P + "PatternSet::is_match")
    if b is None:
        raise AnchorMissing("is_match not found")
    mp = [(bi, t) for bi, t in b.calls() if short(callee_def(t)) == "match_pattern"]
    if not mp:
        # `self.patterns.iter().any(|p| match_pattern(p, input))`: "exists" by the contract of Iterator::any, provided the closure's verdict is
        # match_pattern's and is_match returns any()'s verdict unchanged
        ok = False
        where = b.loc()
        for bi, t in b.calls():
            if callee_def(t).endswith("iterator::Iterator::any") and len(t["args"]) == 2:
                where = b.loc(bi)
                cb = None
                for l, _ in (flow.resolve_chain(b, t["args"][1]) or []):
                    for df in b.defs().get(l, []):
                        if df["kind"] == "assign" and df["rv"]["k"] == "agg" and df["rv"].get("agg") == "closure":
                            cb = db.body(df["rv"].get("def", ""))
                if cb is None:
                    continue
                cmp_ = [(cbi, ct) for cbi, ct in cb.calls() if short(callee_def(ct)) == "match_pattern"]
                crw = flow.return_writes(cb)
                verdict_is_mp = len(cmp_) == 1 and bool(crw) and all(
                    (w["kind"] == "call" and w["term"] is cmp_[0][1]) or
                    (w["kind"] == "use" and any(cb2 == cmp_[0][0] for cb2, _, _ in flow.backward(cb, w["rv"]["ops"][0], at=w["bi"], through_calls=False).calls))
                    for w in crw)
                rw0 = flow.return_writes(b)
                ret_is_any = bool(rw0) and all(
                    (w["kind"] == "call" and w["term"] is t) or
                    (w["kind"] == "use" and [cb2 for cb2, _, _ in flow.backward(b, w["rv"]["ops"][0], at=w["bi"], through_calls=False).calls] == [bi])
                    for w in rw0)
                recv = flow.backward(b, t["args"][0], at=bi)
                over_patterns = ("PatternSet", "patterns") in recv.fields
                args_ok = False
                if cmp_:
                    s0 = flow.backward(cb, cmp_[0][1]["args"][0], at=cmp_[0][0])
                    args_ok = ("Pattern", "bytes") in s0.fields
                ok = verdict_is_mp and ret_is_any and over_patterns and args_ok
        chk.verdict(ok, "R3", "true-only-if-some-pattern-matches", where, "is_match is neither a loop over the patterns nor `patterns.iter().any(|p| match_pattern(p.bytes, input))`")
        chk.verdict(ok, "R3", "false-only-after-all-patterns", where, "is_match can return false before every pattern has been tried")
        chk.floor("R3", 1 if ok else 0, 1, "match_pattern applications in is_match")
        return
    chk.floor("R3", len(mp), 1, "match_pattern calls in is_match")
    rw = flow.return_writes(b)
    trues = [w["bi"] for w in rw if w["kind"] == "use" and (flow.const_of(b, w["rv"]["ops"][0]) or {}).get("v") == "1"]
    falses = [w["bi"] for w in rw if w["kind"] == "use" and (flow.const_of(b, w["rv"]["ops"][0]) or {}).get("v") == "0"]
    t_edges = set()
    f_edges = set()
    for bi, t in mp:
        o = flow.outcomes_of_call(b, bi)
        t_edges |= o.get("true")
        f_edges |= o.get("false")
        # arguments: the pattern's bytes and the input's bytes
        s0, s1 = flow.backward(b, t["args"][0], at=bi), flow.backward(b, t["args"][1], at=bi)
        chk.verdict(("Pattern", "bytes") in s0.fields and any(l == 2 for l, _ in s1.params), "R3", "arguments", b.loc(bi), "match_pattern is not applied to (pattern bytes, input bytes)", nontrivial=False)
    chk.verdict(bool(trues) and flow.must_pass(b, trues, t_edges), "R3", "true-only-if-some-pattern-matches", b.loc(), "is_match can return true without a pattern having matched")
    # false only after the loop is exhausted: not reachable from a match_pattern outcome without going back to the iterator's None
    nxt = [(bi, t) for bi, t in b.calls() if callee_def(t).endswith("iterator::Iterator::next")]
    none = set()
    for bi, t in nxt:
        none |= flow.outcomes_of_call(b, bi).get("None")
    chk.verdict(bool(falses) and bool(none) and flow.must_pass(b, falses, none), "R3", "false-only-after-all-patterns", b.loc(),
                "is_match can return false before every pattern has been tried (e.g. `return false` inside the loop)")


def rule_r4(chk, db):
    """cursor advances and index sites are guarded by `idx < len` on the same cursor"""
    b = inline.inlined(db, db.body(P + "PatternSet::match_pattern"))
    if b is None:
        raise AnchorMissing("match_pattern not found")

    def root(op):
        r = flow.resolve_place(b, op)
        return r[0] if r else None

    def len_of(op, at):
        """name of the slice parameter whose length `op` is"""
        sl = flow.backward(b, op, at=at)
        if any(callee_def(t).endswith("::len") for _, t, _ in sl.calls) or any(
                df["kind"] == "assign" and df["rv"]["k"] == "un" and df["rv"].get("op") == "PtrMetadata" for l in sl.locals for df in b.defs().get(l, [])):
            ps = {b.local_name(l) for l, _ in sl.params}
            return ps
        return set()
    # increments: X = (X + 1)
    incs = []
    for bi, si, st in b.stmts():
        rv = st["rv"]
        if rv["k"] == "bin" and rv["op"].startswith("Add") and flow.const_int_eval(b, rv["ops"][1]) == 1:
            src = root(rv["ops"][0])
            # the temp flows back into the same named local
            tmp = st["dst"]["l"]
            T, _ = flow.forward(b, [tmp])
            if src is not None and src in T and b.local_name(src):
                # is the result stored into src (an increment) rather than only compared?
                stored = any(d["kind"] == "assign" and d["bi"] >= 0 and d["rv"]["k"] == "use" and flow.op_place(d["rv"]["ops"][0]) is not None and
                             flow.op_place(d["rv"]["ops"][0])["l"] == tmp for d in b.defs().get(src, []))
                if stored:
                    incs.append((bi, src))
    chk.floor("R4", len(incs), 3, "cursor increments in match_pattern")
    which = {"p_idx": "pattern", "s_idx": "input", "s_back": "input", "p_back": "pattern"}
    for bi, l in incs:
        name = b.local_name(l)
        want = which.get(name)
        f = guards.dominating_facts(b, bi)
        ok = False
        for x in f:
            if x[0] != "cmp" or x[1] not in ("Lt", "Gt", "Le", "Ge"):
                continue
            for b2, si, st in b.stmts():
                if b2 != x[3] or st["rv"]["k"] != "bin" or st["rv"]["op"] != x[1]:
                    continue
                o0, o1 = st["rv"]["ops"]
                # normalise to  cursor(+1) < len
                if (x[1] == "Lt" and x[2]) or (x[1] == "Ge" and not x[2]):
                    cur, ln = o0, o1
                elif (x[1] == "Gt" and x[2]) or (x[1] == "Le" and not x[2]):
                    cur, ln = o1, o0
                else:
                    continue
                csl = flow.backward(b, cur, at=b2)
                if l in csl.locals and (want is None or want in len_of(ln, b2)):
                    ok = True
        if not ok:
            # `slice.get(cursor)` returned Some: the cursor is within that slice (the checked form of `cursor < slice.len()`)
            for x in f:
                if x[0] == "enum" and x[2] == frozenset(["Some"]) and x[3] is not None:
                    for gb, gt in b.calls():
                        if callee_def(gt) in ("core::slice::<impl [T]>::get", "core::str::<impl str>::get") and len(gt["args"]) == 2:
                            o = flow.outcomes_of_call(b, gb)
                            if x[3][0] in o.carriers or x[3][0] == gt["dst"]["l"]:
                                csl = flow.backward(b, gt["args"][1], at=gb)
                                ssl = flow.backward(b, gt["args"][0], at=gb)
                                if l in csl.locals and (want is None or want in {b.local_name(pl) for pl, _ in ssl.params}):
                                    ok = True
        chk.verdict(ok, "R4", "advance-guarded:%s#%d" % (name, bi), b.loc(bi),
                    "`%s += 1` is not dominated by `%s < %s.len()`: the matcher can step past the end (e.g. `?` consuming a character that does not exist, so `\"a?*\"` matches `\"a\"`)" %
                    (name, name, want or "slice"))
    # index sites: bounds assertions are dominated by the same comparison
    n_idx = 0
    for bi in b.live_blocks():
        t = b.blocks[bi]["term"]
        if t["k"] == "assert" and t.get("kind") == "bounds":
            n_idx += 1
            f = guards.dominating_facts(b, bi)
            ok = any(x[0] == "cmp" and x[1] in ("Lt", "Gt", "Le", "Ge") for x in f)
            chk.verdict(ok, "R4", "index-guarded#%d" % bi, b.loc(bi), "a slice index is not dominated by an explicit bound test (would panic instead of returning false)", nontrivial=False)
    n_get = len([1 for _, t in b.calls() if callee_def(t) in ("core::slice::<impl [T]>::get", "core::str::<impl str>::get")])
    chk.floor("R4.index", n_idx + n_get, 2, "index / get sites in match_pattern")
    # sentinel: usize::MAX - 1, so that `s_back + 1` cannot overflow
    sent = []
    for bi, si, st in b.stmts():
        if b.local_name(st["dst"]["l"]) in ("p_back", "s_back") and not st["dst"]["proj"]:
            v = flow.const_int_eval(b, st["rv"]["ops"][0]) if st["rv"]["k"] in ("use",) else None
            if v is not None:
                sent.append(v)
    if sent:
        chk.verdict(all(v <= (1 << 64) - 2 for v in sent), "R4", "sentinel-no-overflow", b.loc(), "backtrack sentinel %s + 1 overflows" % sent, nontrivial=False)


VISIT_VARIANT = {
    "Principal": {"visit_str": {"Wildcard"}, "visit_map": {"Map"}},
    "OneOrMore": {"visit_str": {"One"}, "visit_map": {"One"}, "visit_seq": {"More"}},
    "WildcardOneOrMore": {"visit_str": {"Wildcard", "One"}, "visit_seq": {"More"}},
}


def _str_values(db, body, t):
    """string values among a call's arguments: literals, and named string constants of the workspace"""
    out = []
    for a in t["args"]:
        c = flow.const_of(body, a)
        if c is None:
            continue
        if c.get("c") == "str":
            out.append(c["v"])
        elif c.get("c") == "item":
            out += db.const_str(c["def"]) or []
    return out


def rule_r5(chk, db):
    for ty, table in VISIT_VARIANT.items():
        # serializer arms
        sers = [b for b in db.bodies.values() if b.crate == "s3s_policy" and b.kind == "AssocFn" and b.impl_trait == "serde::ser::Serialize" and not b.derived and
                b.impl_self.split("<")[0] == MODEL + ty and short(b.name) == "serialize"]
        vis = [b for b in db.bodies.values() if b.crate == "s3s_policy" and b.kind == "AssocFn" and b.impl_trait == "serde::de::Visitor" and not b.derived and
               (b.impl_self.startswith("<" + MODEL + ty + "<") or b.impl_self.startswith("<" + MODEL + ty + " as"))]
        if not vis:
            # the visitor may be a module-level type: the one the hand-written Deserialize impl hands to `deserialize_*`
            des = [b for b in db.bodies.values() if b.crate == "s3s_policy" and b.kind == "AssocFn" and b.impl_trait.startswith("serde::de::Deserialize") and
                   not b.derived and b.impl_self.split("<")[0] == MODEL + ty and short(b.name) == "deserialize"]
            vtypes = set()
            for d in des:
                for bi, t in d.calls():
                    if short(callee_def(t)).startswith("deserialize_") and "serde::de::Deserializer" in callee_def(t):
                        for a in t["args"]:
                            pl = flow.op_place(a)
                            if pl is not None and pl["l"] < len(d.locals) and d.locals[pl["l"]].startswith("s3s_policy::"):
                                vtypes.add(d.locals[pl["l"]].split("<")[0])
            vis = [b for b in db.bodies.values() if b.crate == "s3s_policy" and b.kind == "AssocFn" and b.impl_trait == "serde::de::Visitor" and not b.derived and
                   b.impl_self.split("<")[0] in vtypes]
        if len(sers) != 1:
            chk.fail("R5", ty + ".serializer", "", "hand-written Serialize impl for %s: %d bodies" % (ty, len(sers)))
            continue
        s = sers[0]
        got = {short(b.name): b for b in vis if short(b.name).startswith("visit_")}
        chk.verdict(set(got) == set(table), "R5", ty + ".visitor-methods", s.loc(), "Visitor of %s overrides %s (expected %s)" % (ty, sorted(got), sorted(table)))
        # serializer shapes: `*` literal for Wildcard; sequences for More
        si = inline.inlined(db, s)
        emits_star = any(_str_values(db, x, t) == ["*"] and short(callee_def(t)) == "serialize_str" for x in [si] + db.nested(s, include_self=False) for _, t in x.calls())
        if "Wildcard" in {v for vs in table.values() for v in vs}:
            chk.verdict(emits_star, "R5", ty + ".wildcard-is-star", s.loc(), "the wildcard variant of %s is not serialised as the string \"*\"" % ty)
        for nm, b in got.items():
            variants = set()
            for x in db.nested(b):
                for bi, si, st in x.stmts():
                    rv = st["rv"]
                    if rv["k"] == "agg" and rv.get("adt", "").startswith(MODEL + ty):
                        variants.add(rv["variant"])
                for bi, t in x.calls():
                    for a in t["args"]:
                        if isinstance(a, dict) and a.get("c") == "fn" and a["def"].startswith(MODEL + ty + "::"):
                            variants.add(short(a["def"]))
            chk.verdict(variants == table.get(nm, set()), "R5", "%s.%s" % (ty, nm), b.loc(), "%s::%s builds variants %s (expected %s): single values and lists would not stay distinct" % (ty, nm, sorted(variants), sorted(table.get(nm, ()))))
            if nm == "visit_str" and "Wildcard" in table.get(nm, ()):
                lits = [l for x in [inline.inlined(db, y) for y in db.nested(b)] for _, t in x.calls() for l in _str_values(db, x, t)]
                chk.verdict("*" in lits, "R5", "%s.%s.star-literal" % (ty, nm), b.loc(), "%s::visit_str maps something other than \"*\" to the wildcard" % ty, nontrivial=False)


ALLOWED_SERDE = re.compile(r'^(rename\s*=\s*"[^"]*"|rename_all\s*=\s*"[^"]*"|flatten|skip_serializing_if\s*=\s*"Option::is_none")$')


def serde_attrs_from_source(adt):
    """derive-helper attributes are dropped when rustc lowers to HIR, so the `#[serde(..)]` attributes of an ADT are read from the source
    text of its definition: attributes directly above the item, and inside its braces each attribute belongs to the next field/variant."""
    import os
    from .. import extract
    path = os.path.join(extract.REPO, adt["span"]["file"])
    try:
        lines = open(path).read().split("\n")
    except OSError:
        return None
    i0 = adt["span"]["line"] - 1
    out = []
    # container attributes: contiguous attribute / doc lines above
    j = i0 - 1
    block = []
    while j >= 0 and (lines[j].strip().startswith("#[") or lines[j].strip().startswith("///") or lines[j].strip() == "" and False):
        block.append(lines[j])
        j -= 1
    text = "\n".join(reversed(block))
    for m in re.finditer(r"#\[\s*serde\s*\((.*?)\)\s*\]", text, re.S):
        out.append(("", m.group(1)))
    # body
    depth = 0
    started = False
    body = []
    for k in range(i0, min(len(lines), i0 + 400)):
        ln = lines[k]
        body.append(ln)
        depth += ln.count("{") - ln.count("}")
        if "{" in ln:
            started = True
        if started and depth <= 0:
            break
        if not started and ln.rstrip().endswith(";"):
            break
    btxt = "\n".join(body)
    pending = []
    for m in re.finditer(r"#\[\s*serde\s*\((.*?)\)\s*\]|^\s*(?:pub(?:\([a-z]+\))?\s+)?([A-Za-z_][A-Za-z0-9_]*)\s*[:,({]|^\s*([A-Z][A-Za-z0-9_]*)\s*$", btxt, re.S | re.M):
        if m.group(1) is not None:
            pending.append(m.group(1))
        else:
            name = m.group(2) or m.group(3)
            if name in ("pub", "struct", "enum", "fn", "impl"):
                continue
            for p_ in pending:
                out.append((name, p_))
            pending = []
    return out


def rule_r6(chk, db):
    n = 0
    for name, adt in sorted(db.adts.items()):
        if not name.startswith(MODEL) or short(name).startswith("__") or "::_::" in name:
            continue    # derive-generated helper types share the span of the item they were derived for
        attrs = serde_attrs_from_source(adt)
        if attrs is None:
            chk.anchor_missing("R6", "cannot read the source of %s" % name)
            continue
        for where, body in attrs:
            n += 1
            items = [x.strip() for x in re.split(r",(?=(?:[^\"]*\"[^\"]*\")*[^\"]*$)", body) if x.strip()]
            bad = [x for x in items if not ALLOWED_SERDE.match(x)]
            chk.verdict(not bad, "R6", "%s%s" % (short(name), ":" + where if where else ""), "%s:%d" % (adt["span"]["file"], adt["span"]["line"]),
                        "serde attribute(s) %s on %s%s change which documents are accepted or emitted (allowed: rename, rename_all, flatten, "
                        "skip_serializing_if = \"Option::is_none\")" % (bad, short(name), " " + where if where else ""))
    chk.floor("R6", n, 6, "serde attributes inspected in the policy model")
    # derived (de)serialisers only, except the three hand-written pairs
    hand = set()
    for i in db.impls:
        if i["crate"] == "s3s_policy" and i["trait_def"] in ("serde::ser::Serialize", "serde::de::Deserialize") and not i["derived"] and i["impl"].startswith(MODEL):
            hand.add(short(i["impl"].split("<")[0]))
    chk.verdict(hand <= {"Principal", "OneOrMore", "WildcardOneOrMore"}, "R6", "hand-written-serde", "", "hand-written serde impls for %s are not covered by the shape-agreement rule" % sorted(hand - {"Principal", "OneOrMore", "WildcardOneOrMore"}), nontrivial=False)


def run(chk, db, tier):
    chk.rule("R1", "wildcard alphabet: pattern bytes compared for equality only, against the input byte and the constants {`*`, `?`}")
    chk.rule("R2", "empty patterns refused; patterns stored verbatim; PatternSet::new keeps every pattern and aborts on an invalid one")
    chk.rule("R3", "set = exists: true only on a matching pattern, false only after all were tried")
    chk.rule("R4", "cursor advances and index sites are dominated by `cursor < len` on the same slice; sentinel cannot overflow")
    chk.rule("R5", "serde shape agreement of the hand-written (de)serialisers: visitor methods and the variant each builds")
    chk.rule("R6", "strictness attributes: only rename / rename_all / flatten / skip_serializing_if = Option::is_none in the policy model")
    chk.guard("R1", rule_r1, db)
    chk.guard("R1", rule_r1b, db)
    chk.guard("R2", rule_r2, db)
    chk.guard("R3", rule_r3, db)
    chk.guard("R4", rule_r4, db)
    chk.guard("R5", rule_r5, db)
    chk.guard("R6", rule_r6, db)
    chk.advisory("WildcardOneOrMore::One(\"*\") and ::Wildcard serialise identically, so that one value cannot survive a round trip; whether it is a policy-document value is a question about the property's domain")


META = {
    "level": "other",
    "explanation": "The two halves of the property (matcher semantics over all pattern/string pairs; JSON round-trip equality) are statements about "
                   "values and are not decided. Decided: the wildcard alphabet and data independence of the matcher, refusal of empty patterns and "
                   "completeness of the set, the exists-structure of is_match, guardedness of every cursor advance and index in the matcher, "
                   "wire-shape agreement of the hand-written serde impls, and a whitelist of serde attributes in the policy model. Round 4: every function of the pattern module that singles out one wildcard byte singles out both (R1).",
    "not_decided": ["matcher semantics (backtracking correctness)", "JSON round-trip equality"],
    "assumptions": ["rustc nightly MIR construction", "serde derive semantics for the whitelisted attributes"],
}
