"""C08 - chunk-signed uploads (DESIGN.md section 3, C08)."""
from .. import flow, guards, inline, paths, writes
from ..facts import callee_def, short
from ..report import AnchorMissing
from . import sigcore, sigwrites
from .sigcore import first_writes_from, is_err_write

CTX = "SignatureCtx"


def is_yield(t):
    d = callee_def(t)
    return d.startswith("transform_stream::") and short(d) in ("yield_ok", "yield_", "yield_one", "yield_iter", "yield_each")


def find_generator(db):
    c = [b for b in db.grep("transform_stream::yielder::Yielder") if b.crate == "s3s" and "aws_chunked_stream" in b.name and any(is_yield(t) for _, t in b.calls())]
    if len(c) != 1:
        raise AnchorMissing("chunk reader generator: %d bodies yield" % len(c))
    return c[0]


def natural_loops(body):
    """head -> set of blocks, for loops that are not await loops"""
    out = {}
    preds = body.preds()
    for (src, lab) in flow.back_edges(body):
        head = flow.edge_target(body, (src, lab))
        loop = {head, src}
        st = [src]
        while st:
            x = st.pop()
            if x == head:
                continue
            for p, _ in preds.get(x, []):
                if p not in loop:
                    loop.add(p)
                    st.append(p)
        if any(body.blocks[b]["term"]["k"] == "yield" for b in loop) and len(loop) < 12:
            continue
        out.setdefault(head, set()).update(loop)
    return out


def _checker_body(db, t):
    cb = db.bodies.get(t["callee"].get("resolved") or "") or db.bodies.get(callee_def(t))
    if cb is None or cb.crate != "s3s" or "aws_chunked_stream" not in cb.name:
        return None
    if any(short(callee_def(t2)) == "create_chunk_string_to_sign" for x in db.nested(cb) for _, t2 in x.calls()):
        return cb
    return None


def _is_checker(db, t):
    """the call that verifies one chunk: a function of the chunk module that builds the chunk string to sign (whatever it is called, whether
    it answers with Option, bool or Result)"""
    return _checker_body(db, t) is not None


def _keep_checker(db, caller, term, callee):
    """inlining policy for the chunk reader: everything the default policy inlines, except the chunk checker"""
    if callee is not None and any(short(callee_def(t2)) == "create_chunk_string_to_sign" for x in db.nested(callee) for _, t2 in x.calls()):
        return False
    return inline.default_policy(db, caller, term, callee)


def rule_r1(chk, db, g):
    ys = [(bi, t) for bi, t in g.calls() if is_yield(t)]
    chk.floor("R1", len(ys), 1, "yield sites in the chunk reader")
    cs = [(bi, t) for bi, t in g.calls() if _is_checker(db, t)]
    if len(cs) != 1:
        chk.fail("R1", "verify-before-yield", g.loc(ys[0][0]) if ys else g.loc(), "the chunk reader calls check_signature %d times (expected once per chunk)" % len(cs))
        return None
    cbi, ct = cs[0]
    o = flow.outcomes_of_call(g, cbi)
    some = o.get("Some") | o.get("Ok") | o.get("true") | o.get("Continue")
    none = o.get("None") | o.get("Err") | o.get("false") | o.get("Break")
    if not some:
        chk.fail("R1", "verify-before-yield", g.loc(cbi), "the result of check_signature is never tested")
        return None
    loops = natural_loops(g)
    for ybi, yt in ys:
        ok = flow.must_pass(g, [ybi], some)
        # per iteration: from the head of every loop that contains the check, the yield is unreachable without the Some edge
        for head, blocks in loops.items():
            if cbi in blocks and ybi in blocks:
                if not flow.must_pass(g, [ybi], some, start=head):
                    ok = False
        if not ok:
            # the chunk may reach the yield through a stored decision (`while let Some(data) = decoder.next_chunk(..).await?`): what holds at
            # every construction of the matched value holds at the yield - among it, the verified outcome of this iteration's check
            f = guards.dominating_facts(g, ybi)
            ok = any((x[0] == "enum" and x[3] is not None and x[3][0] == ct["dst"]["l"] and not x[3][1] and x[2] <= frozenset(["Some", "Ok", "Continue"])) or
                     (x[0] == "call" and x[2] is True and x[3] == cbi) for x in f)
        chk.verdict(ok, "R1", "verify-before-yield", g.loc(ybi), "chunk data can be yielded to the backend without the Some (verified) outcome of check_signature in the same iteration")
        # identity: yielded value and verified data share the read_data call
        ysl = flow.backward(g, yt["args"][1], at=ybi)
        yr = {bi for bi, t, _ in ysl.calls if short(callee_def(t)) == "read_data"}
        vr = set()
        for a in ct["args"]:
            vr |= {bi for bi, t, _ in flow.backward(g, a, at=cbi).calls if short(callee_def(t)) == "read_data"}
        chk.verdict(bool(yr) and yr == vr, "R1", "yield-what-was-verified", g.loc(ybi), "the bytes yielded are not the bytes whose signature was checked (read_data sites %s vs %s)" % (sorted(yr), sorted(vr)))
    # mismatch is an error
    fw = first_writes_from(g, none) if none else []
    chk.verdict(bool(fw) and all(is_err_write(w) for w in fw), "R1", "mismatch-is-error", g.loc(cbi), "a chunk signature mismatch does not end the stream with an error")
    return cbi, ct, some


def rule_r2(chk, db, g, cbi, ct, some):
    # prev_signature writes
    init = None
    updates = []
    for bi, si, st in g.stmts():
        rv = st["rv"]
        if rv["k"] == "agg" and rv.get("adt", "").endswith("::" + CTX):
            m = dict(zip(rv["fields"], rv["ops"]))
            init = (bi, m)
        pf = flow.proj_fields(flow.norm_proj(st["dst"]["proj"]))
        if pf and pf[-1] == (CTX, "prev_signature"):
            updates.append((bi, st))
    if init is None:
        raise AnchorMissing("SignatureCtx construction not found in the chunk reader")
    # seed: the captured seed_signature
    seed_ok = False
    sl = flow.backward(g, init[1]["prev_signature"], at=init[0])
    for n, p in g.debug_places():
        if n == "seed_signature" and (p["l"], tuple(flow.proj_names(flow.norm_proj(p["proj"])))) in sl.places:
            seed_ok = True
    chk.verdict(seed_ok, "R2", "chain-seed", g.loc(init[0]), "the first chunk is not chained to the constructor's seed signature")
    if not updates:
        # the checker may advance the chain itself (`fn verify_chunk(&mut self, ..) -> Result<(), _>`): look inside it
        cb = _checker_body(db, ct)
        inner = []
        if cb is not None:
            icb = inline.inlined(db, cb)
            for bi, si, st in icb.stmts():
                pf = flow.proj_fields(flow.norm_proj(st["dst"]["proj"]))
                if pf and pf[-1] == (CTX, "prev_signature"):
                    inner.append((bi, st))
            okw = bool(inner)
            for bi, st in inner:
                s2 = flow.backward(icb, st["rv"]["ops"][0], at=bi)
                computed = any(short(callee_def(t2)) in ("calculate_signature", "hex_hmac_sha256", "hmac_sha256") or "calculate" in short(callee_def(t2)) for _, t2, _ in s2.calls)
                eqs = set()
                for b2, t2 in icb.calls():
                    d2 = callee_def(t2)
                    if d2.endswith("PartialEq::eq") or d2.endswith("PartialEq::ne"):
                        o2 = flow.outcomes_of_call(icb, b2)
                        eqs |= o2.get("true") if d2.endswith("::eq") else o2.get("false")
                okw = okw and computed and bool(eqs) and flow.must_pass(icb, [bi], eqs)
            chk.verdict(okw, "R2", "chain-update", cb.loc(inner[0][0]) if inner else cb.loc(),
                        "the chunk checker does not advance prev_signature to the computed signature on (and only on) the matching outcome")
            if okw:
                chk.ok("R2", "chain-update-exists", cb.loc(inner[0][0]))
                chk.ok("R2", "chain-update-every-iteration", cb.loc(inner[0][0]), nontrivial=False)
                return
    chk.verdict(len(updates) >= 1, "R2", "chain-update-exists", g.loc(cbi), "prev_signature is never updated: every chunk would be checked against the seed")
    for bi, st in updates:
        s2 = flow.backward(g, st["rv"]["ops"][0], at=bi)
        from_check = any(b2 == cbi for b2, _, _ in s2.calls)
        chk.verdict(from_check and flow.must_pass(g, [bi], some), "R2", "chain-update", g.loc(bi), "prev_signature is updated from something other than the verified chunk signature")
    # the update happens before the next check: every path from the Some edge back to the check passes an update
    if updates:
        ub = frozenset(b for b, _ in updates)
        r = flow.reach_from_edges(g, some, stop_blocks=ub)
        chk.verdict(cbi not in r or cbi in ub, "R2", "chain-update-every-iteration", g.loc(cbi), "a verified chunk can be followed by the next check without prev_signature having been updated")
    # check_signature passes ctx.prev_signature
    cs = db.body(callee_def(ct))
    if cs is None:
        raise AnchorMissing("check_signature body not found")
    b2 = [(bi, t) for bi, t in cs.calls() if short(callee_def(t)) == "create_chunk_string_to_sign"]
    ok = False
    for bi, t in b2:
        s3 = flow.backward(cs, t["args"][3], at=bi)
        ok = (CTX, "prev_signature") in s3.fields
        for idx, f in ((0, "amz_date"), (1, "region"), (2, "service")):
            s4 = flow.backward(cs, t["args"][idx], at=bi)
            chk.verdict((CTX, f) in s4.fields, "R2", "string-to-sign." + f, cs.loc(bi), "chunk string-to-sign %s is not the context's" % f, nontrivial=False)
        s5 = flow.backward(cs, t["args"][4], at=bi)
        chk.verdict(any(l == 3 for l, _ in s5.params), "R2", "string-to-sign.data", cs.loc(bi), "chunk string-to-sign does not hash the chunk data")
    chk.verdict(ok, "R2", "chain-prev", cs.loc(), "check_signature does not chain on ctx.prev_signature")
    # V1 shape inside check_signature: Some(computed) only on equality with the expected signature
    calc = [(bi, t) for bi, t in cs.calls() if sigcore.is_calc_sig(callee_def(t))]
    eqs = [(bi, t) for bi, t in cs.calls() if callee_def(t).endswith("cmp::PartialEq::eq") or callee_def(t).endswith("cmp::PartialEq::ne")]
    helper_why = ""
    for bi, t in cs.calls():
        d = callee_def(t)
        hb = db.body(d)
        if hb is not None and d.startswith("s3s::") and hb.raw.get("ret") == "bool" and len(t["args"]) == 2 and not sigcore.is_calc_sig(d):
            okh, why = sigcore.equality_helper_sound(db, d)
            if okh:
                eqs.append((bi, t))
            else:
                helper_why = "; comparison helper %s %s" % (short(d), why)
    okv = False
    for bi, t in eqs:
        s0, s1 = flow.backward(cs, t["args"][0], at=bi), flow.backward(cs, t["args"][1], at=bi)
        c0 = any(sigcore.is_calc_sig(callee_def(x)) for _, x, _ in s0.calls)
        c1 = any(sigcore.is_calc_sig(callee_def(x)) for _, x, _ in s1.calls)
        p0 = any(l == 2 for l, _ in s0.params)
        p1 = any(l == 2 for l, _ in s1.params)
        if (c0 and p1 and not c1) or (c1 and p0 and not c0):
            # the returned Option derives from this comparison's outcome: bool::then / if
            rsl = None
            for w in flow.return_writes(cs):
                if w["kind"] == "call":
                    rsl = flow.backward(cs, w["term"]["args"][0], at=w["bi"])
                    if any(b3 == bi for b3, _, _ in rsl.calls) and short(callee_def(w["term"])) in ("then", "then_some"):
                        # closure returns the computed signature
                        okv = True
                elif w["kind"] == "Some":
                    o = flow.outcomes_of_call(cs, bi)
                    eq = o.get("false") if callee_def(t).endswith("::ne") else o.get("true")
                    if eq and flow.must_pass(cs, [w["bi"]], eq):
                        okv = True
    chk.verdict(okv and len(calc) == 1, "R2", "check_signature-compares", cs.loc(), "check_signature does not return Some only on `computed == expected`" + helper_why)


def rule_r3(chk, db):
    """seed is the verified signature (construction site in the header verifier)"""
    vs = [v for v in sigcore.find_verifiers(db) if v.kind == "v4-header"]
    if len(vs) != 1:
        raise AnchorMissing("header verifier not found")
    v = vs[0]
    if not sigcore.rule_v1(_Quiet(), v):
        chk.fail("R3", "seed", v.body.loc(), "header verifier has no accepting comparison (see C05.V1)")
        return
    body = v.body
    sites = [(bi, t) for bi, t in body.calls() if callee_def(t).endswith("AwsChunkedStream::new")]
    chk.floor("R3", len(sites), 1, "AwsChunkedStream::new sites in the header verifier")
    for bi, t in sites:
        chk.verdict(flow.must_pass(body, [bi], v.cmp["eq"]), "R3", "after-verification", body.loc(bi), "the chunk-verifying stream is built on a path that has not passed the header signature comparison")
        s1 = flow.backward(body, t["args"][1], at=bi)
        calc_bi = v.calc[0] if v.calc else None
        chk.verdict(any(b2 == calc_bi for b2, _, _ in s1.calls) and ("AuthorizationV4", "signature") not in s1.fields, "R3", "seed", body.loc(bi),
                    "the seed signature is not the computed (verified) header signature")
        s2 = flow.backward(body, t["args"][2], at=bi)
        chk.verdict(sigcore.date_source_ok(v, s2, "v4-header"), "R3", "date", body.loc(bi), "chunk signing date is not the request's x-amz-date", nontrivial=False)
        chk.verdict(sigcore.scope_ok(v, flow.backward(body, t["args"][3], at=bi), "aws_region"), "R3", "region", body.loc(bi), "chunk signing region is not the credential scope's", nontrivial=False)
        chk.verdict(sigcore.scope_ok(v, flow.backward(body, t["args"][4], at=bi), "aws_service"), "R3", "service", body.loc(bi), "chunk signing service is not the credential scope's", nontrivial=False)
        s5 = flow.backward(body, t["args"][5], at=bi)
        chk.verdict(any(short(callee_def(x)) == "get_secret_key" for _, x, _ in s5.calls), "R3", "secret", body.loc(bi), "chunk signing secret is not the provider's answer", nontrivial=False)
        s6 = flow.backward(body, t["args"][6], at=bi)
        chk.verdict("decoded_content_length" in v.ctx_fields(s6), "R3", "declared-length", body.loc(bi), "the stream's declared length is not x-amz-decoded-content-length")
        # streaming mode only under the STREAMING payload declaration
        f = guards.dominating_facts(body, bi)
        sha = [x[2] for x in f if x[0] == "enum" and x[1].startswith("s3s::sig_v4::amz_content_sha256::AmzContentSha256")]
        chk.verdict(any(s == frozenset(["MultipleChunks"]) for s in sha), "R3", "only-when-streaming", body.loc(bi), "chunk decoding is enabled without the STREAMING payload declaration", nontrivial=False)
        # and conversely: whenever the canonical request used Payload::MultipleChunks, the body is replaced by the verifying stream
    tb = []
    for bi, si, st in body.stmts():
        pf = flow.proj_fields(flow.norm_proj(st["dst"]["proj"]))
        if pf and pf[-1] == ("SignatureContext", "transformed_body"):
            sl = flow.backward(body, st["rv"]["ops"][0], at=bi)
            if any(callee_def(x).endswith("AwsChunkedStream::new") for _, x, _ in sl.calls):
                tb.append(bi)
    chk.verdict(bool(tb), "R3", "body-replaced", body.loc(), "the verifying stream is never installed as the request body (transformed_body)")
    if tb:
        # accepting a STREAMING request without installing the verifying stream would hand raw chunk framing to the backend
        for acc in v.acc:
            f = guards.dominating_facts(body, acc)
        stream_true = set()
        for bi2 in body.live_blocks():
            t2 = body.blocks[bi2]["term"]
            if t2["k"] == "switch" and bi2 != tb[0]:
                if tb[0] in flow.reach(body, [bi2]) and not flow.must_pass(body, v.acc, [(bi2, l) for l, _ in body.succ_edges(bi2)]):
                    pass
        # the block installing the stream and the accepting block: every accepting path under is_stream passes the install
        is_stream_edges = set()
        for bi2 in body.live_blocks():
            t2 = body.blocks[bi2]["term"]
            if t2["k"] != "switch":
                continue
            for lab, tbk in body.succ_edges(bi2):
                if tb[0] in flow.reach(body, [tbk], stop_blocks=frozenset([bi2])) and flow.must_pass(body, tb, [(bi2, lab)]) and v.cmp and \
                        flow.must_pass(body, [bi2], v.cmp["eq"]):
                    is_stream_edges.add((bi2, lab))
        if is_stream_edges:
            r = flow.reach_from_edges(body, is_stream_edges, stop_blocks=frozenset(tb))
            chk.verdict(not any(a in r for a in v.acc), "R3", "streaming-always-decoded", body.loc(tb[0]),
                        "on the streaming path the request can be accepted without the verifying stream being installed", nontrivial=False)


class _Quiet:
    """sink for rules run only for their side effects"""

    def ok(self, *a, **k):
        pass

    def fail(self, *a, **k):
        pass

    def verdict(self, c, *a, **k):
        return c

    def sample(self, *a, **k):
        pass


def dep_places(body, op, at, depth=0):
    """data slice of op plus, for constant-assigned booleans in it, the slices of the guards controlling those assignments"""
    sl = flow.backward(body, op, at=at)
    fields = set(sl.fields)
    places = set(sl.places)
    if depth < 2:
        for l in list(sl.locals):
            asg = guards._const_bool_assigns(body, l, lenient=True)
            if not asg:
                continue
            for bi, val in asg:
                for f in guards.dominating_facts(body, bi):
                    sb = None
                    if f[0] in ("call", "cmp"):
                        sb = f[3]
                    if f[0] == "enum":
                        continue
                    if sb is None:
                        continue
                    t = body.blocks[sb]["term"]
                    if t["k"] == "call":
                        for a in t["args"]:
                            f2, p2 = dep_places(body, a, sb, depth + 1)
                            fields |= f2
                            places |= p2
                    else:
                        for bi2, si, st in body.stmts():
                            if bi2 == sb and st["rv"]["k"] == "bin":
                                for o in st["rv"]["ops"]:
                                    f2, p2 = dep_places(body, o, sb, depth + 1)
                                    fields |= f2
                                    places |= p2
    return fields, places


def rule_r4(chk, db, g):
    """completeness: a clean end depends on having seen the zero-length chunk and on the declared length"""
    oks = [w for w in flow.return_writes(g) if w["kind"] == "Ok"]
    if not oks:
        raise AnchorMissing("chunk reader has no Ok(()) end")
    okb = [w["bi"] for w in oks]
    dcl = None
    for n, p in g.debug_places():
        if n == "decoded_content_length":
            dcl = (p["l"], tuple(flow.proj_names(flow.norm_proj(p["proj"]))))
    size_gates, len_gates = [], []
    for s in g.live_blocks():
        t = g.blocks[s]["term"]
        if t["k"] != "switch":
            continue
        # a gate: one outcome leads to an Err end without reaching Ok
        edges = g.succ_edges(s)
        gate = False
        for lab, tb in edges:
            r = flow.reach(g, [tb], stop_blocks=frozenset(okb))
            if not any(o in r for o in okb):
                fw = first_writes_from(g, [(s, lab)])
                if fw and all(is_err_write(w) for w in fw):
                    gate = True
        if not gate:
            continue
        f, p = dep_places(g, t["discr"], s)
        if ("ChunkMeta", "size") in f:
            size_gates.append(s)
        if dcl is not None and dcl in p:
            len_gates.append(s)

    def all_paths_pass(gates):
        if not gates:
            return False
        r = flow.reach(g, [0], stop_blocks=frozenset(gates))
        return not any(o in r for o in okb)
    # the gate must be on the *end* path: every path from the transport-ended outcome to Ok passes it.  A size test at the top of an
    # iteration does not count unless it separates the end from Ok: require the gate to lie after the last loop exit, i.e. removing
    # it makes Ok unreachable from the loop exits
    exits = set()
    for head, blocks in natural_loops(g).items():
        for b in blocks:
            for lab, tb in g.succ_edges(b):
                if tb not in blocks and not g.blocks[tb]["cleanup"]:
                    exits.add(tb)

    def end_paths_pass(gates):
        if not gates:
            return False
        starts = [e for e in exits] or [0]
        r = flow.reach(g, starts, stop_blocks=frozenset(gates))
        return not any(o in r and o not in gates for o in okb)
    chk.verdict(end_paths_pass(size_gates), "R4", "final-chunk-required", g.loc(okb[0]),
                "the stream can end cleanly (Ok) on a path that does not depend on having seen the zero-length final chunk: a truncated upload succeeds")
    chk.verdict(end_paths_pass(len_gates), "R4", "declared-length-checked", g.loc(okb[0]),
                "the stream can end cleanly (Ok) without comparing the decoded byte count with x-amz-decoded-content-length")
    # the comparison is exact: an equality over arithmetic that cannot make two different totals look the same
    CLAMPING = ("saturating_sub", "wrapping_sub", "min", "max", "clamp", "rem", "rem_euclid", "abs_diff", "wrapping_add", "overflowing_sub", "checked_rem")
    for s in len_gates:
        t = g.blocks[s]["term"]
        sl = flow.backward(g, t["discr"], at=s)
        clamps = sorted({short(callee_def(c)) for _, c, _ in sl.calls if short(callee_def(c)) in CLAMPING and
                         (callee_def(c).startswith("core::num") or "::cmp::" in callee_def(c))})
        src = paths.switch_source(g, t)
        op = src[1]["op"] if src and src[0] == "bin" else None
        one_sided = op in ("Lt", "Le", "Gt", "Ge")
        why = []
        if clamps:
            why.append("the byte count it compares is computed with %s, which maps different totals to the same value" % ", ".join(clamps))
        if one_sided:
            why.append("it is a one-sided comparison (%s): totals on the other side are accepted" % op)
        chk.verdict(not why, "R4", "declared-length-exact#%d" % len_gates.index(s), g.loc(s),
                    "the declared-length check is not an exact equality: " + "; ".join(why))


def rule_r5(chk, db):
    from .c07 import find_prepare
    prep = find_prepare(db)
    # Content-Length rewritten from the decoded length
    sites = [(bi, t) for bi, t in prep.calls() if short(callee_def(t)) == "fmt_content_length"]
    chk.floor("R5", len(sites), 1, "Content-Length rewrite sites in prepare")
    for bi, t in sites:
        sl = flow.backward(prep, t["args"][0], at=bi)
        ok = any(short(callee_def(x)) == "extract_decoded_content_length" for _, x, _ in sl.calls) and \
            not any(short(callee_def(x)) == "extract_content_length" for _, x, _ in sl.calls)
        chk.verdict(ok, "R5", "content-length-rewritten", prep.loc(bi), "the Content-Length shown to the backend after body transformation is not x-amz-decoded-content-length")
    # R5b: the decision to rewrite depends on whether the body was transformed
    for bi, t in sites:
        deps = set()
        for s2 in prep.live_blocks():
            t2 = prep.blocks[s2]["term"]
            if t2["k"] != "switch":
                continue
            if not flow.must_pass(prep, [bi], [(s2, l) for l, _ in prep.succ_edges(s2)]):
                continue
            reaching = [lab for lab, tb in prep.succ_edges(s2) if bi in flow.reach(prep, [tb], stop_blocks=frozenset([s2]))]
            if len(reaching) == len(prep.succ_edges(s2)):
                continue
            f, p = dep_places(prep, t2["discr"], s2)
            deps |= f
        chk.verdict(("SignatureContext", "transformed_body") in deps, "R5", "rewrite-iff-transformed", prep.loc(bi),
                    "the decision to rewrite Content-Length does not depend on SignatureContext.transformed_body (whether the body was decoded): "
                    "a decoded body can be handed to the backend with the encoded length")
    n = db.body("s3s::http::aws_chunked_stream::AwsChunkedStream::new")
    ok = False
    if n is not None:
        for bi, si, st in n.stmts():
            rv = st["rv"]
            if rv["k"] == "agg" and rv.get("adt", "").endswith("::AwsChunkedStream"):
                m = dict(zip(rv["fields"], rv["ops"]))
                r = flow.resolve_place(n, m["remaining_length"])
                ok = r is not None and n.local_name(r[0]) == "decoded_content_length"
    chk.verdict(ok, "R5", "remaining-length", n.loc() if n else "", "AwsChunkedStream.remaining_length is not the declared decoded length", nontrivial=False)


END_HINTS = ("::is_end_stream", "::size_hint", "::remaining_length", "::exact", "::upper", "::lower")


def rule_r6(chk, db):
    """end-of-stream provenance: the adapters between the chunk reader and the backend end the stream only because their source ended,
    never because a size hint says so (the signed zero-length chunk must be read and verified)"""
    bodies = [b for b in db.grep("core::task::poll::Poll") if b.crate == "s3s" and short(db.root_of(b).name) in ("poll_next", "poll_frame") and
              any(m in b.name for m in ("s3s::http::body", "s3s::dto::streaming_blob", "s3s::stream", "s3s::http::aws_chunked_stream"))]
    chk.floor("R6", len(bodies), 4, "poll_next / poll_frame bodies on the body path")
    n = 0
    for b in bodies:
        for bi, si, st in b.stmts():
            rv = st["rv"]
            if rv["k"] == "agg" and rv.get("adt") == "core::task::poll::Poll" and rv.get("variant") == "Ready" and rv["ops"] and flow.is_none_literal(b, rv["ops"][0]):
                n += 1
                f = guards.dominating_facts(b, bi)
                hint = [x for x in f if x[0] == "call" and any(x[1].endswith(h) for h in END_HINTS)]
                # comparisons fed by a hint
                for x in f:
                    if x[0] == "cmp" or (x[0] == "call" and (x[1].endswith("PartialEq::eq") or x[1].endswith("PartialEq::ne"))):
                        blk = x[3]
                        ops = []
                        if x[0] == "cmp":
                            for b2, s2, st2 in b.stmts():
                                if b2 == blk and st2["rv"]["k"] == "bin":
                                    ops += st2["rv"]["ops"]
                        else:
                            ops = b.blocks[blk]["term"]["args"]
                        for o in ops:
                            sl = flow.backward(b, o, at=blk)
                            if any(any(callee_def(c).endswith(h) for h in END_HINTS) for _, c, _ in sl.calls):
                                hint.append(x)
                chk.verdict(not hint, "R6", "%s#%d" % (db.root_of(b).name.replace("s3s::", "")[:70], bi), b.loc(bi),
                            "end of stream (Ready(None)) is decided by a length hint (%s) instead of by the source ending: the final signed chunk is never read" %
                            sorted({short(x[1]) if x[0] == "call" else "comparison" for x in hint}))
    chk.floor("R6.ends", n, 2, "Ready(None) returns inspected")


def run(chk, db, tier):
    chk.rule("R1", "verify-before-yield: each yield is edge-dominated, per iteration, by the Some outcome of check_signature on the same data")
    chk.rule("R1b", "layout of the chunk string to sign; empty final chunk hashes to sha256(\"\")")
    chk.rule("R2", "chaining: prev_signature seeded from the constructor, updated only from the verified signature, every iteration")
    chk.rule("R3", "seed is the verified header signature; stream built only after verification, with the request's date/scope/secret/declared length")
    chk.rule("R4", "completeness: a clean end depends on the zero-length final chunk and on the declared length")
    chk.rule("R5", "Content-Length shown to the backend is the decoded length")
    g = inline.inlined(db, find_generator(db), _keep_checker)      # with its stages / helpers inlined (the chunk checker stays a call)
    r = chk.guard("R1", rule_r1, db, g)
    if r:
        chk.guard("R2", rule_r2, db, g, *r)
    chk.guard("R1b", sigwrites.rule_r6_chunk, db)
    chk.guard("R3", rule_r3, db)
    chk.guard("R4", rule_r4, db, g)
    chk.guard("R5", rule_r5, db)
    chk.rule("R6", "end-of-stream provenance: body adapters return Ready(None) only because their source ended, never from a size hint")
    chk.guard("R6", rule_r6, db)
    chk.guard("V4", lambda c: sigcore.param_reaches_return(db, "s3s::sig_v4::methods::create_chunk_string_to_sign", c, "V4", "builder:create_chunk_string_to_sign"))
    chk.rule("V4", "every parameter of create_chunk_string_to_sign reaches the result")


META = {
    "level": "other",
    "explanation": "Decides, on the MIR of the chunk-reader generator and the header verifier: verify-before-yield per iteration; the signature "
                   "chain (seed, update, use); that the seed is the verified header signature and the stream is built only after verification; "
                   "that a clean end of the decoded stream is control-dependent on the zero-length final chunk and on the declared length; and "
                   "the Content-Length rewrite. Parser behaviour under frame splits (C09) and the HMAC text are not decided. Also: the declared-length check is an exact equality over non-clamping arithmetic; the chunk checker is recognised by role.",
    "not_decided": ["parser behaviour under splits (C09)", "hex/size parsing values", "the HMAC text"],
    "assumptions": ["rustc nightly MIR construction", "transform_stream::Yielder::yield_ok is the only way data leaves the generator"],
}
