"""R6 / R7 / R8 of C05 (shared by C06, C08, C11): layout of the signed strings, canonical-form waypoints, URI-encoding byte table."""
import hashlib

from .. import flow, inline, layout, paths, writes
from ..layout import ALT, JOIN, LOOP
from ..facts import callee_def, short
from ..report import AnchorMissing

M4 = "s3s::sig_v4::methods::"
M2 = "s3s::sig_v2::methods::"


def result_buffer(body, db=None):
    """the local (or ("field", local, index): a field of a builder struct) whose content the function returns"""
    for w in flow.return_writes(body):
        if w["kind"] == "use":
            p = flow.op_place(w["rv"]["ops"][0])
            if p is not None and not p["proj"]:
                return p["l"]
            if p is not None:
                fs = [e for e in p["proj"] if isinstance(e, dict) and "f" in e]
                if len(fs) == 1 and all(e == "*" or (isinstance(e, dict) and "f" in e) for e in p["proj"]):
                    return ("field", p["l"], fs[0]["f"])
        if w["kind"] == "call" and db is not None:
            # `writer.finish(..)`: a method of a private builder that hands back its buffer field
            t = w["term"]
            cb = db.bodies.get(t["callee"].get("resolved") or "") or db.bodies.get(callee_def(t))
            if cb is not None and cb.crate == body.crate and t["args"]:
                try:
                    inner = result_buffer(cb)
                except AnchorMissing:
                    inner = None
                if isinstance(inner, tuple) and inner[0] == "field" and 1 <= inner[1] <= cb.argc:
                    a = t["args"][inner[1] - 1]
                    ch = flow.resolve_chain(body, a) or []
                    roots = [l for l, pr in ch if not pr]
                    for l in reversed(roots):       # the variable the value was moved out of, not the temporary handed to the call
                        ty = body.locals[l] if l < len(body.locals) else ""
                        if not ty.startswith("&"):
                            return ("field", l, inner[2])
                    q = flow.op_place(a)
                    if q is not None and not q["proj"]:
                        return ("field", q["l"], inner[2])
    raise AnchorMissing("%s: the result is not a single moved buffer" % body.name)


_DB = [None]


def arg_roles(body, a, frames=()):
    """(param names reached, literal strings in the slice, waypoint callee short names).
    frames: call chain of an inlined helper (writes.buffer_events); parameters of the helper are replaced by the roles of the
    arguments passed at the call site, so the names are always those of the outermost builder"""
    sl = flow.backward(body, a)
    lits = flow.slice_literals(_DB[0], body, sl) if _DB[0] is not None else {c["v"] for c in sl.consts if c.get("c") in ("str", "bstr")}
    items = {short(c["def"]) for c in sl.consts if c.get("c") == "item"}
    way = {short(callee_def(t)) for _, t, _ in sl.calls}
    helper_lits = set()
    # a private helper of the signing code on the way (`included_headers(..)`: an iterator over the headers that are signed) stands for what it
    # does inside; predicates (functions returning bool) select, they do not transform
    if _DB[0] is not None:
        from .. import inline as _inline
        for _, t, _ in sl.calls:
            cb = _DB[0].bodies.get(t["callee"].get("resolved") or "") or _DB[0].bodies.get(callee_def(t))
            if cb is None or cb.crate != body.crate or cb.kind not in ("Fn", "AssocFn") or _inline.is_role(_DB[0], cb):
                continue
            way.discard(short(callee_def(t)))
            for x in _DB[0].nested(cb):
                # literals the helper selects among / looks up by (`headers.get_unique("date")`)
                for _, _, st_ in x.stmts():
                    for o_ in st_["rv"].get("ops", []):
                        if isinstance(o_, dict) and o_.get("c") == "str":
                            helper_lits.add(o_["v"])
                for _, ct in x.calls():
                    for a_ in ct["args"]:
                        c_ = flow.const_of(x, a_)
                        if c_ is not None and c_.get("c") == "str":
                            helper_lits.add(c_["v"])
            for x in _DB[0].nested(cb):
                for _, ct in x.calls():
                    if flow.is_transparent(ct) or ct.get("span", {}).get("exp"):
                        continue
                    c2 = _DB[0].bodies.get(ct["callee"].get("resolved") or "") or _DB[0].bodies.get(callee_def(ct))
                    if c2 is not None and c2.raw.get("ret") == "bool":
                        continue
                    way.add(short(callee_def(ct)))
    lits = set(lits) | items | helper_lits
    # function items passed as values (`.map(str::trim)`) are waypoints too, and so is whatever a closure in the slice calls
    way |= {short(c["def"]) for c in sl.consts if c.get("c") == "fn" and c.get("def")}
    if _DB[0] is not None:
        for _, rv in sl.aggs:
            if rv.get("agg") == "closure":
                for cb in _DB[0].nested(_DB[0].body(rv.get("def", ""))) if _DB[0].body(rv.get("def", "")) is not None else []:
                    for _, ct in cb.calls():
                        if not flow.is_transparent(ct) and not ct.get("span", {}).get("exp"):
                            way.add(short(callee_def(ct)))
    params = set()
    if frames:
        fr = frames[-1]
        caller, term = fr[0], fr[1]
        if len(fr) > 3 and fr[3] == "closure":
            # closure handed to an iterator adaptor: its own parameters are items of the receiver / other arguments of the call;
            # a captured variable is the capture operand at the construction site
            for l, pr in sl.params:
                if l == 1:
                    fs = [e for e in pr if e[0] == "f"]
                    ops = fr[4] or []
                    if fs and fs[0][1] < len(ops):
                        p2, l2, w2 = arg_roles(caller, ops[fs[0][1]], frames[:-1])
                        params |= p2
                        lits |= l2
                        way |= w2
                else:
                    for a2 in term["args"]:
                        p2, l2, w2 = arg_roles(caller, a2, frames[:-1])
                        params |= p2
                        lits |= l2
                        way |= w2
        else:
            for l, pr in sl.params:
                if l - 1 < len(term["args"]):
                    p2, l2, w2 = arg_roles(caller, term["args"][l - 1], frames[:-1])
                    params |= p2
                    lits |= l2
                    way |= w2
    else:
        for l, pr in sl.params:
            params.add(body.local_name(l) or "_%d" % l)
    return params, lits, way


ITER_OPS = {"into_iter", "iter", "next", "new", "push", "split_first", "as_ref", "as_slice", "deref", "as_str", "get_all", "unwrap", "unwrap_or_default", "len",
            "with_capacity", "as_bytes", "get_unique", "and_then", "is_some", "is_empty", "not",
            # order- and value-preserving iterator plumbing (what a closure inside them calls is accounted separately)
            "call", "call_mut", "call_once", "enumerate", "filter", "map", "collect", "copied", "cloned", "filter_map", "by_ref", "peekable", "eq", "ne",
            "gt", "lt", "is_skipped_header", "is_skipped_query_string"}


def E(callee, const=None, params=(), lits=(), way=(), loop=False, flag=None, only=None):
    """only: if given, the operand may pass through no call other than `way`, `only` and plain iteration/container operations"""
    return {"callee": callee, "const": const, "params": set(params), "lits": set(lits), "way": set(way), "loop": loop, "flag": flag,
            "only": None if only is None else set(only)}


def match_event(body, ev, exp, check_loop=True):
    """None if the event matches the expectation, else a description of the difference"""
    if ev["short"] != exp["callee"]:
        return "appends with %s, layout expects %s" % (ev["short"], exp["callee"])
    consts = [c for c in ev["consts"]]
    if exp["const"] is not None:
        c0 = consts[0] if consts else None
        if isinstance(c0, tuple):
            c0 = short(c0[1])
        if c0 != exp["const"]:
            return "appends %r, layout expects %r" % (c0, exp["const"])
    if exp["flag"] is not None:
        if exp["flag"] not in consts:
            return "flag argument is %s, layout expects %s" % (consts, exp["flag"])
    if check_loop and bool(ev["in_loop"]) != bool(exp["loop"]):
        return "is %s a loop, layout expects %s" % ("inside" if ev["in_loop"] else "outside", "inside" if exp["loop"] else "outside")
    if exp["params"] or exp["lits"] or exp["way"]:
        params, lits, way = set(), set(), set()
        for a in ev["args"]:
            p, l, w = arg_roles(ev.get("body", body), a, ev.get("frames", ()))
            params |= p
            lits |= l
            way |= w
        if not exp["params"] <= params:
            return "operand derives from %s, layout expects it to derive from %s" % (sorted(params), sorted(exp["params"]))
        if not exp["lits"] <= lits:
            return "operand's slice has literals %s, expected %s" % (sorted(lits), sorted(exp["lits"]))
        if not exp["way"] <= way:
            return "operand does not pass through %s (passes %s)" % (sorted(exp["way"] - way), sorted(way))
        if exp.get("only") is not None:
            extra = way - exp["way"] - exp["only"] - ITER_OPS
            if extra:
                return "operand is transformed by %s on its way into the signed string (the specification signs it as is)" % sorted(extra)
    return None


def _spec_callees(spec):
    out = set()
    for s in spec:
        if "callee" in s:
            out.add(s["callee"])
        elif s["t"] == "ALT":
            out |= _spec_callees(s["alts"])
        elif s["t"] == "JOIN":
            out |= _spec_callees([s["sep"]]) | _spec_callees(s["items"])
        else:
            out |= _spec_callees(s["items"])
    return out


def check_layout(chk, db, rule, fn, expected, alt_tail=()):
    """the builder's write trace, in canonical form (s3sv/layout.py), equals the specified layout.  `expected`: list of E(..) / ALT / JOIN / LOOP;
    alt_tail: alternatives of which exactly one is appended last"""
    _DB[0] = db
    b = db.body(fn)
    if b is None:
        chk.anchor_missing(rule, "builder %s not found" % fn)
        return
    spec = list(expected) + ([ALT(*alt_tail)] if len(alt_tail) > 1 else list(alt_tail))
    buf = result_buffer(b, db)
    ev = writes.buffer_events(b, buf, db, prim=_spec_callees(spec))
    key = short(fn) + ("@v2" if "sig_v2" in fn else "")
    nodes = layout.canon(ev)
    desc = layout.describe(nodes)
    bad = layout.match(nodes, spec, lambda e, x: match_event(b, e, x, check_loop=False))
    chk.verdict(not bad, rule, key, b.loc(), "layout of %s differs from the specification: %s" % (short(fn), "; ".join(bad)), detail={"trace": desc},
                witness={"trace": desc})
    if not bad and len(chk.samples) < 8:
        chk.sample({"rule": rule, "builder": fn, "write_trace": desc})


NL = "\n"

QS_ROLE = dict(params={"decoded_query_strings"}, way={"uri_encode_string", "stable_sort_by_first"})
CANONICAL_COMMON = [
    E("push_str", params={"method"}, way={"as_str"}, only=()), E("push", NL),
    E("uri_encode", params={"uri_path"}, flag=0, only=()), E("push", NL),
    JOIN(E("push", "&"), E("push_str", **QS_ROLE), E("push", "="), E("push_str", **QS_ROLE)),
    E("push", NL),
    LOOP(E("push_str", params={"signed_headers"}, only=()), E("push", ":"), E("push_str", params={"signed_headers"}, way={"trim"}, only=()), E("push", NL)),
    E("push", NL),
    JOIN(E("push", ";"), E("push_str", params={"signed_headers"})),
    E("push", NL),
]
CANONICAL_PAYLOADS = [E("push_str", "STREAMING-AWS4-HMAC-SHA256-PAYLOAD"), E("hex_sha256", params={"payload"}), E("push_str", "EMPTY_STRING_SHA256_HASH"),
                      E("push_str", "UNSIGNED-PAYLOAD")]
SCOPE = [E("push_str", params={"amz_date"}, way={"fmt_date"}), E("push", "/"), E("push_str", params={"region"}), E("push", "/"), E("push_str", params={"service"}),
         E("push_str", "/aws4_request\n")]
STRING_TO_SIGN = [E("push_str", "AWS4-HMAC-SHA256\n"), E("push_str", params={"amz_date"}, way={"fmt_iso8601"}), E("push", NL)] + SCOPE + \
    [E("hex_sha256", params={"canonical_request"})]
CHUNK_STRING_TO_SIGN = [E("push_str", "AWS4-HMAC-SHA256-PAYLOAD\n"), E("push_str", params={"amz_date"}, way={"fmt_iso8601"}), E("push", NL)] + SCOPE + \
    [E("push_str", params={"prev_signature"}), E("push", NL), E("push_str", "EMPTY_STRING_SHA256_HASH"), E("push", NL)]
CHUNK_TAIL = [E("push_str", "EMPTY_STRING_SHA256_HASH"), E("hex_sha256_chunk", params={"chunk_data"})]

V2_STRING_TO_SIGN = [
    E("push_str", params={"method"}, way={"as_str"}), E("push", NL),
    E("push_str", params={"headers"}, lits={"content-md5"}), E("push", NL),
    E("push_str", params={"headers"}, lits={"content-type"}), E("push", NL),
]
V2_DATE_ALTS = None  # handled specially below


def rule_r6_v4(chk, db):
    check_layout(chk, db, "R6", M4 + "create_canonical_request", CANONICAL_COMMON, CANONICAL_PAYLOADS)
    check_layout(chk, db, "R6", M4 + "create_string_to_sign", STRING_TO_SIGN)
    c = db.const_str(M4 + "EMPTY_STRING_SHA256_HASH")
    want = hashlib.sha256(b"").hexdigest()
    chk.verdict(c == [want], "R6", "EMPTY_STRING_SHA256_HASH", "", "the empty-payload constant is %s, SHA-256 of the empty string is %s" % (c, want), nontrivial=False)
    rule_hmac_chain(chk, db)


def rule_r6_presigned(chk, db):
    check_layout(chk, db, "R6", M4 + "create_presigned_canonical_request", CANONICAL_COMMON, [E("push_str", "UNSIGNED-PAYLOAD")])


def rule_r6_chunk(chk, db):
    check_layout(chk, db, "R6", M4 + "create_chunk_string_to_sign", CHUNK_STRING_TO_SIGN, CHUNK_TAIL)
    # the empty final chunk hashes to sha256(""): the EMPTY constant is used under is_empty()
    b = db.body(M4 + "create_chunk_string_to_sign")
    from .. import guards
    ok = False
    for bi, t in b.calls():
        if short(callee_def(t)) == "hex_sha256_chunk":
            f = guards.dominating_facts(b, bi)
            ok = any(x[0] == "call" and x[1].endswith("::is_empty") and x[2] is False for x in f)
    chk.verdict(ok, "R6", "chunk.empty-final", b.loc(), "the chunk hash is not `sha256(\"\") if the chunk is empty else sha256(data)`", nontrivial=False)


def rule_hmac_chain(chk, db):
    """calculate_signature: AWS4+secret -> date -> region -> service -> "aws4_request" -> string_to_sign, hex of the last"""
    b = inline.inlined(db, db.body(M4 + "calculate_signature"))      # with its helper stages inlined
    if b is None:
        raise AnchorMissing("sig_v4 calculate_signature not found")
    order = writes.rpo(b)
    hm = [(bi, b.blocks[bi]["term"]) for bi in order if b.blocks[bi]["term"]["k"] == "call" and short(callee_def(b.blocks[bi]["term"])) == "hmac_sha256"]
    if len(hm) != 5:
        chk.fail("R6", "hmac-chain", b.loc(), "expected a chain of 5 HMAC-SHA256 invocations, found %d" % len(hm))
        return
    want_data = [{"amz_date"}, {"region"}, {"service"}, "aws4_request", {"string_to_sign"}]
    bad = []
    prev = None
    for i, (bi, t) in enumerate(hm):
        kp, kl, kw = arg_roles(b, t["args"][0])
        dp, dl, dw = arg_roles(b, t["args"][1])
        if i == 0:
            if "secret_key" not in kp or "AWS4" not in kl or "expose" not in kw:
                bad.append("key of step 1 is not \"AWS4\" + secret (params %s, literals %s)" % (sorted(kp), sorted(kl)))
        else:
            ksl = flow.backward(b, t["args"][0])
            if not any(cb == prev for cb, _, _ in ksl.calls):
                bad.append("key of step %d is not the output of step %d" % (i + 1, i))
            # direct chaining: the key must be exactly the previous MAC (no other hmac in between)
        w = want_data[i]
        if isinstance(w, set):
            if not w <= dp:
                bad.append("data of step %d derives from %s, expected %s" % (i + 1, sorted(dp), sorted(w)))
            if i == 0 and "fmt_date" not in dw:
                bad.append("data of step 1 is not the yyyymmdd date")
        else:
            c = flow.const_of(b, t["args"][1])
            if c is None or c.get("v") != w:
                bad.append("data of step %d is not the literal %r" % (i + 1, w))
        prev = bi
    # result = hex(last)
    rw = flow.return_writes(b)
    okret = False
    for wr in rw:
        if wr["kind"] == "call" and short(callee_def(wr["term"])) == "hex":
            sl = flow.backward(b, wr["term"]["args"][0])
            r = flow.resolve_place(b, wr["term"]["args"][0])
            df = flow.single_def(b, flow.op_place(wr["term"]["args"][0])["l"])
            okret = df is not None and df["kind"] == "call" and df["bi"] == hm[-1][0]
        elif wr["kind"] in ("use", "other") and wr.get("rv", {}).get("ops"):
            # the last stage was a helper (`key.sign(string_to_sign)`) whose value is moved out: the returned value is a hex(..) whose
            # operand is the last MAC
            sl = flow.backward(b, wr["rv"]["ops"][0], at=wr["bi"])
            for hb, ht, _ in sl.calls:
                if short(callee_def(ht)) == "hex" and ht["args"]:
                    hs = flow.backward(b, ht["args"][0], at=hb)
                    macs = [cb for cb, ct, _ in hs.calls if short(callee_def(ct)) == "hmac_sha256"]
                    if hm[-1][0] in macs:
                        okret = True
    if not okret:
        bad.append("the result is not hex(HMAC of the string to sign)")
    chk.verdict(not bad, "R6", "hmac-chain", b.loc(), "; ".join(bad))
    # AWS4 prefix comes first in the key buffer
    ev = None
    for l in range(len(b.locals)):
        if b.local_name(l) in ("buf", "secret"):
            e = writes.buffer_events(b, l, db)
            if e and e[0]["short"] == "extend_from_slice":
                ev = e
                break
    if ev is not None:
        lits = [x["consts"][0] for x in ev if x["short"] == "extend_from_slice"]
        chk.verdict(lits[:1] == ["AWS4"], "R6", "hmac-chain.prefix", b.loc(), "signing key buffer starts with %r, the spec says \"AWS4\" then the secret" % lits[:1], nontrivial=False)


def _family(db, b):
    """the builder, the helper functions inlined into it, and every closure nested in any of them"""
    ib = inline.inlined(db, b)
    roots = [b] + [db.body(n) for n in getattr(ib, "inlined_from", []) if db.body(n) is not None]
    out = []
    for r in roots:
        for x in db.nested(r):
            if x not in out:
                out.append(x)
    return out


def _exclusive_events(e1, e2):
    try:
        return layout._exclusive(e1, e2)
    except Exception:
        return False


def rule_r6_v2(chk, db):
    _DB[0] = db
    b = db.body(M2 + "create_string_to_sign")
    if b is None:
        raise AnchorMissing("sig_v2 create_string_to_sign not found")
    buf = result_buffer(b, db)
    ev = writes.buffer_events(b, buf, db, prim={"push", "push_str"})
    desc = layout.describe(layout.canon(ev))
    head = V2_STRING_TO_SIGN
    bad = []
    if len(ev) < len(head) + 4:
        chk.fail("R6", "create_string_to_sign@v2", b.loc(), "write trace too short: %s" % desc)
        return
    for i, exp in enumerate(head):
        m = match_event(b, ev[i], exp, check_loop=False)
        if m:
            bad.append("item %d %s" % (i, m))
    rest = ev[len(head):]
    fam = _family(db, b)
    # date | expires alternatives: two (push_str, push '\n') pairs in either order
    alts = rest[:4]
    date_ok = exp_ok = False
    n_date = 4
    # one `value \n` line whose value a selector helper picks by mode (Date / "" / Expires)
    if len(rest) >= 2 and rest[0]["short"] == "push_str" and rest[1]["short"] == "push" and rest[1]["consts"][:1] == [NL] and \
            not (len(rest) >= 4 and rest[2]["short"] == "push_str" and rest[3]["short"] == "push" and rest[3]["consts"][:1] == [NL] and
                 _exclusive_events(rest[0], rest[2])):
        p_, l_, w_ = set(), set(), set()
        for a in rest[0]["args"]:
            p2, l2, w2 = arg_roles(rest[0].get("body", b), a, rest[0].get("frames", ()))
            p_ |= p2
            l_ |= l2
            w_ |= w2
        if {"date", "Expires", "x-amz-date", ""} <= l_ and {"headers", "qs", "mode"} <= p_:
            date_ok = exp_ok = True
            n_date = 2
            alts = []
    for j in ((0, 2) if alts else ()):
        e, nl = alts[j], alts[j + 1]
        if nl["short"] != "push" or nl["consts"][:1] != [NL] or e["short"] != "push_str":
            bad.append("date/expires segment is not `value \\n`")
            continue
        p, l, w = set(), set(), set()
        for a in e["args"]:
            p2, l2, w2 = arg_roles(e.get("body", b), a, e.get("frames", ()))
            p |= p2
            l |= l2
            w |= w2
        if "date" in l and "headers" in p:
            # "if you include the x-amz-date header, use the empty string for the Date": the operand also has the "" definition,
            # selected by get_unique("x-amz-date").is_some()
            xad = [1 for x in fam for b2, t2 in x.calls() if short(callee_def(t2)) == "get_unique" and paths.str_args(x, t2) == ["x-amz-date"]]
            if "" in l and xad:
                date_ok = True
        if "Expires" in l and "qs" in p:
            exp_ok = True
    if not date_ok:
        bad.append("HeaderAuth mode does not sign `Date` (empty when x-amz-date is present)")
    if not exp_ok:
        bad.append("PresignedUrl mode does not sign the `Expires` parameter")
    tail = layout.canon(rest[n_date:])
    H = dict(params={"headers"})
    exp_tail = [
        LOOP(E("push_str", **H), E("push", ":"), JOIN(E("push", ","), E("push_str", params={"headers"}, way={"trim"})), E("push", NL)),
        E("push", "/"), E("push_str", params={"virtual_host_bucket"}, only=()), E("push_str", params={"uri_path"}, only=()),
        JOIN(ALT(E("push", "?"), E("push", "&")), E("push_str", lits={"INCLUDED_QUERY"}), E("push", "="), E("push_str", params={"qs"})),
    ]
    bad += layout.match(tail, exp_tail, lambda e, x: match_event(b, e, x, check_loop=False), "resource")
    # x-amz- prefix literal guards the header loop
    lits_all = set()
    for x in fam:
        for bi, t in x.calls():
            if short(callee_def(t)) == "starts_with":
                lits_all |= set(paths.str_args(x, t))
    if "x-amz-" not in lits_all:
        bad.append("canonicalized amz headers are not selected by the `x-amz-` prefix")
    chk.verdict(not bad, "R6", "create_string_to_sign@v2", b.loc(), "V2 string-to-sign layout differs from the specification: %s" % "; ".join(bad),
                detail={"trace": desc}, witness={"trace": desc})
    # base64(hmac_sha1(secret, string_to_sign))
    c = db.body(M2 + "calculate_signature")
    calls = [short(callee_def(t)) for _, t in c.calls()]
    okc = "hmac_sha1" in calls and ("base64" in calls or "encode_to_string" in calls)
    for bi, t in c.calls():
        if short(callee_def(t)) == "hmac_sha1":
            kp, kl, kw = arg_roles(c, t["args"][0])
            dp, dl, dw = arg_roles(c, t["args"][1])
            okc = okc and "secret_key" in kp and "string_to_sign" in dp
    chk.verdict(okc, "R6", "calculate_signature@v2", c.loc(), "V2 signature is not base64(HMAC-SHA1(secret, string_to_sign))")


# ------------------------------------------------------------------------------------------------
# R7 waypoints that R6's role check does not see: sorting of the signed-header names at the verifier
# ------------------------------------------------------------------------------------------------

def rule_r7(chk, db):
    # OrderedHeaders::from_headers sorts
    fh = [b for b in db.grep("OrderedHeaders") if b.crate == "s3s" and short(b.name) == "from_headers" and "ordered_headers" in b.name]
    if not fh:
        raise AnchorMissing("OrderedHeaders::from_headers not found")
    b = fh[0]
    sorts = [short(callee_def(t)) for x in db.nested(b) for _, t in x.calls() if "sort" in short(callee_def(t))]
    chk.verdict(bool(sorts), "R7", "headers-sorted", b.loc(), "OrderedHeaders::from_headers no longer sorts (canonical headers must be in name order)")
    # header verifier sorts the SignedHeaders names before find_multiple (binary search precondition)
    from . import sigcore
    for v in sigcore.find_verifiers(db):
        if v.kind != "v4-header":
            continue
        fm = [(bi, t) for bi, t in v.body.calls() if callee_def(t).endswith("::find_multiple_with_on_missing")]
        for bi, t in fm:
            sl = flow.backward(v.body, t["args"][1])
            ok = any("sort" in short(callee_def(x)) for _, x, _ in sl.calls)
            chk.verdict(ok, "R7", "signed-headers-sorted", v.body.loc(bi), "the SignedHeaders list is not sorted before the ordered lookup")
    # stable_sort_by_first sorts by the first component
    s = db.body("s3s::utils::stable_sort_by_first")
    if s is not None:
        ok = any("sort" in short(callee_def(t)) for _, t in s.calls())
        chk.verdict(ok, "R7", "query-sort", s.loc(), "stable_sort_by_first does not sort", nontrivial=False)


# ------------------------------------------------------------------------------------------------
# R8 URI-encoding byte table (finite-domain evaluation over the branch structure)
# ------------------------------------------------------------------------------------------------

UNRESERVED = set(b"ABCDEFGHIJKLMNOPQRSTUVWXYZabcdefghijklmnopqrstuvwxyz0123456789-._~")


def eval_byte_switch(body, start, byte_local, value, flag_local=None, flag=None, limit=200):
    """walk from `start` with byte_local := value (and flag_local := flag) through integer comparisons / switches against
    constants only; returns the list of (block, callee short, const args) of calls met until the loop back-edge / join."""
    env = {byte_local: value}
    if flag_local is not None:
        env[flag_local] = flag
    bi = start
    trace = []
    seen = set()
    heads = {flow.edge_target(body, e) for e in flow.back_edges(body)}
    for _ in range(limit):
        if bi in seen or (bi in heads and bi != start):
            break
        seen.add(bi)
        b = body.blocks[bi]
        for st in b["stmts"]:
            if st["dst"]["proj"]:
                continue
            rv = st["rv"]
            d = st["dst"]["l"]
            vals = []
            ok = True
            for o in rv["ops"]:
                if "c" in o and o.get("c") == "int":
                    vals.append(int(o["v"]))
                elif "p" in o and not o["p"]["proj"] and o["p"]["l"] in env:
                    vals.append(env[o["p"]["l"]])
                elif "p" in o and o["p"]["proj"] == ["*"] and o["p"]["l"] in env:
                    vals.append(env[o["p"]["l"]])
                else:
                    ok = False
            if not ok:
                env.pop(d, None)
                continue
            if rv["k"] == "use" or rv["k"] == "cast":
                env[d] = vals[0]
            elif rv["k"] == "bin" and len(vals) == 2:
                a, c = vals
                op = rv["op"]
                r = {"Le": a <= c, "Lt": a < c, "Ge": a >= c, "Gt": a > c, "Eq": a == c, "Ne": a != c}.get(op)
                if r is None:
                    r2 = {"BitAnd": a & c, "Shr": a >> c if c < 64 else 0, "ShrUnchecked": a >> c if c < 64 else 0, "BitOr": a | c}.get(op)
                    if r2 is None:
                        env.pop(d, None)
                    else:
                        env[d] = r2
                else:
                    env[d] = 1 if r else 0
            elif rv["k"] == "un" and rv.get("op") == "Not":
                env[d] = 0 if vals[0] else 1
            else:
                env.pop(d, None)
        t = b["term"]
        if t["k"] == "switch":
            d = t["discr"]
            v = None
            if "p" in d and not d["p"]["proj"] and d["p"]["l"] in env:
                v = env[d["p"]["l"]]
            elif "p" in d and d["p"]["proj"] == ["*"] and d["p"]["l"] in env:
                v = env[d["p"]["l"]]
            if v is None:
                return trace, "switch on a non-evaluable value at bb%d" % bi
            nxt = t["otherwise"]
            for val, tb in t["targets"]:
                if int(val) == v:
                    nxt = tb
            bi = nxt
            continue
        if t["k"] == "call":
            consts = []
            for a in t["args"]:
                if "c" in a and a.get("c") == "int":
                    consts.append(int(a["v"]))
                elif "p" in a and not a["p"]["proj"] and a["p"]["l"] in env:
                    consts.append(("v", env[a["p"]["l"]]))
                else:
                    c = flow.const_of(body, a)
                    consts.append(int(c["v"]) if c and c.get("c") == "int" else None)
            trace.append((bi, short(callee_def(t)), consts, t))
            # results of pure helper calls are unknown
            if not t["dst"]["proj"]:
                env.pop(t["dst"]["l"], None)
            if t["t"] < 0:
                break
            bi = t["t"]
            continue
        if t["k"] in ("goto", "drop", "assert"):
            bi = t["t"]
            continue
        break
    return trace, None


def rule_r8(chk, db):
    b = db.body(M4 + "uri_encode")
    if b is None:
        raise AnchorMissing("uri_encode not found")
    # the loop body starts where `byte` (debug name) is bound; find the local and the first switch that tests it
    byte_l = None
    for n, p in b.debug_places():
        if n == "byte" and not p["proj"]:
            byte_l = p["l"]
    flag_l = None
    for l in range(1, b.argc + 1):
        if b.local_name(l) == "encode_slash":
            flag_l = l
    if byte_l is None or flag_l is None:
        raise AnchorMissing("uri_encode: cannot find the `byte` / `encode_slash` locals")
    # block that assigns byte
    start = None
    for df in b.defs().get(byte_l, []):
        if df["kind"] == "assign":
            start = df["bi"]
    if start is None:
        raise AnchorMissing("uri_encode: `byte` is never assigned")
    # to_hex table
    th = [x for x in db.nested(b) if False]
    hexb = db.body(M4 + "uri_encode::to_hex")
    table = None
    if hexb is not None:
        for bl in hexb.blocks:
            for st in bl["stmts"]:
                for o in st["rv"]["ops"]:
                    if isinstance(o, dict) and o.get("c") in ("bstr", "str"):
                        table = o["v"]
    chk.verdict(table == "0123456789ABCDEF", "R8", "hex-table", hexb.loc() if hexb else b.loc(), "percent-encoding digits come from %r (spec: upper-case hex)" % table, nontrivial=False)
    bad = []
    n = 0
    for flag in (0, 1):
        for v in range(256):
            env_start = start
            # start evaluation *after* the assignment of byte: emulate by seeding env and starting at the same block
            trace, err = eval_byte_switch_from_assign(b, start, byte_l, v, flag_l, flag)
            n += 1
            if err:
                bad.append("byte %d: %s" % (v, err))
                break
            pushes = [(nm, cs) for _, nm, cs, _ in trace if nm in ("push", "to_hex", "wrapping_shr")]
            passthrough = [cs for nm, cs in pushes if nm == "push" and cs and cs[-1] == ("v", v)]
            literal = [cs[-1] for nm, cs in pushes if nm == "push" and cs and isinstance(cs[-1], int)]
            n_push = len([1 for nm, _ in pushes if nm == "push"])
            want_pass = v in UNRESERVED or (v == 0x2F and flag == 0)
            if want_pass:
                if not (n_push == 1 and passthrough):
                    bad.append("byte 0x%02X (encode_slash=%d) should pass through, trace %s" % (v, flag, [(nm, cs) for nm, cs in pushes]))
            else:
                if n_push != 3 or literal[:1] != [0x25]:
                    bad.append("byte 0x%02X (encode_slash=%d) should be %%XX, trace %s" % (v, flag, [(nm, cs) for nm, cs in pushes]))
                elif v == 0x2F:
                    if literal != [0x25, 0x32, 0x46]:
                        bad.append("'/' encodes to %s, expected %%2F" % literal)
            if len(bad) > 5:
                break
    chk.stats["uri_encode_bytes_evaluated"] = n
    chk.verdict(not bad, "R8", "uri_encode-table", b.loc(), "URI-encoding byte table differs from RFC 3986 unreserved + '/' rule: %s" % "; ".join(bad[:4]))
    # hex digits: high nibble then low nibble
    nib = []
    for bi, t in b.calls():
        if short(callee_def(t)) == "to_hex":
            sl = flow.backward(b, t["args"][0])
            w = {short(callee_def(x)) for _, x, _ in sl.calls}
            ops = set()
            for l in sl.locals:
                for df in b.defs().get(l, []):
                    if df["kind"] == "assign" and df["rv"]["k"] == "bin":
                        ops.add(df["rv"]["op"])
            nib.append(("hi" if "wrapping_shr" in w else ("lo" if "BitAnd" in ops else "?")))
    chk.verdict(nib == ["hi", "lo"], "R8", "nibble-order", b.loc(), "percent-encoding digit order is %s (spec: high nibble first)" % nib, nontrivial=False)


def eval_byte_switch_from_assign(body, start, byte_l, v, flag_l, flag):
    """evaluate from the statement after the assignment of `byte` in block `start`"""
    # split: run statements of `start` after the assignment with env seeded
    blk = body.blocks[start]
    idx = None
    for i, st in enumerate(blk["stmts"]):
        if st["dst"]["l"] == byte_l and not st["dst"]["proj"]:
            idx = i
    # temporarily evaluate using a shallow copy of the block
    saved = blk["stmts"]
    try:
        blk["stmts"] = saved[idx + 1:] if idx is not None else saved
        return eval_byte_switch(body, start, byte_l, v, flag_l, flag)
    finally:
        blk["stmts"] = saved


def run_v4(chk, db):
    chk.rule("R6", "layout of the signed strings: abstract write trace of each builder == specification layout (literals, operand roles, loops); HMAC chain; sha256(\"\") constant")
    chk.rule("R7", "canonical-form waypoints: trim on header values, uri_encode flags, sorted query pairs and header names")
    chk.rule("R8", "URI-encoding byte table evaluated for all 256 bytes x encode_slash over the branch structure == RFC 3986 unreserved")
    chk.guard("R6", rule_r6_v4, db)
    chk.guard("R7", rule_r7, db)
    chk.guard("R8", rule_r8, db)
