"""C02 - the typed input equals what the client encoded (DESIGN.md section 3, C02)."""
from .. import common, flow, inline, paths
from ..facts import callee_def, short
from ..model import field_key, load_model
from ..report import AnchorMissing

DE = "s3s::http::de::"
INPUT_NS = "s3s::dto::generated::"


def is_de_call(t):
    return callee_def(t).startswith(DE)


# adapters that may sit between the source call and the field without changing which wire item feeds it
ADAPTERS = (
    "core::option::Option::<T>::unwrap_or",
    "core::option::Option::<T>::unwrap_or_default",
    "core::option::Option::<T>::ok_or_else",
    "core::option::Option::<T>::ok_or",
    "core::result::Result::<T, E>::map_err",
)


def member_source(db, body, op_operand):
    """SLICE⁻ of one field operand down to its http::de source call(s)"""
    sl = flow.backward(body, op_operand, stop=is_de_call)
    src = [(bi, t, rest) for bi, t, rest in sl.calls if is_de_call(t)]
    other = [(bi, t, rest) for bi, t, rest in sl.calls if not is_de_call(t) and callee_def(t) not in ADAPTERS]
    adapters = [(bi, t, rest) for bi, t, rest in sl.calls if callee_def(t) in ADAPTERS]
    return src, other, adapters, sl


def expect_member(db, body, m, srcs, other, adapters, sl, opname):
    """compare one member's source with the model; returns (ok, what)"""
    loc = m.location
    if len(srcs) != 1:
        return False, "expected exactly one http::de source call, found %s" % [short(callee_def(t)) for _, t, _ in srcs]
    bi, t, rest = srcs[0]
    fn = short(callee_def(t))
    where = body.loc(bi)
    if other:
        return False, "value passes through unexpected calls %s" % [callee_def(t2) for _, t2, _ in other][:3]
    if loc == "httpLabel":
        idx = [e[1] for e in rest if e[0] == "f"]
        if m.name == "Bucket":
            ok = (fn == "unwrap_bucket" and not idx) or (fn == "unwrap_object" and idx[:1] == [0])
        else:
            ok = fn == "unwrap_object" and idx[:1] == [1]
        return ok, "label %s is fed by %s%s" % (m.name, fn, idx)
    if loc == "httpHeader":
        want = m.t("httpHeader").lower()
        hv, c = common.header_const_of_arg(db, body, t["args"][1]) if len(t["args"]) > 1 else (None, None)
        if hv != want:
            return False, "header member reads %r (const %s), model says %r" % (hv, c.get("def") if c else None, want)
        is_list = m.target_type == "list"
        is_ts = m.target_type == "timestamp"
        if is_list:
            if fn != "parse_list_header":
                return False, "list-typed header member is read by %s" % fn
            flag = flow.const_of(body, t["args"][2])
            if flag is None or (flag.get("v") == "1") != m.required:
                return False, "parse_list_header required flag %s, model required=%s" % (flag and flag.get("v"), m.required)
            return True, ""
        if is_ts:
            if fn != "parse_opt_header_timestamp":
                return False, "timestamp header member is read by %s" % fn
            if m.required:
                return False, "required timestamp header has no required reader"
            fmt = common.enum_const_variant(body, t["args"][2])
            wantf = common.TS_FORMAT.get(m.timestamp_format or "http-date")
            return fmt == wantf, "timestamp format %s, model %s" % (fmt, wantf)
        if m.required:
            if fn != "parse_header":
                return False, "required header member is read by %s" % fn
        else:
            if fn != "parse_opt_header":
                return False, "optional header member is read by %s" % fn
        ga = common.generic_args(t)
        if ga and not common.rust_type_ok(m, ga[0]):
            return False, "header parsed as %s but the model type is %s %s" % (ga[0], m.target_type, m.target_name)
        return True, ""
    if loc == "httpQuery":
        lits = paths.str_args(body, t)
        want = m.t("httpQuery")
        if lits[:1] != [want]:
            return False, "query member reads %r, model says %r" % (lits, want)
        is_ts = m.target_type == "timestamp"
        if is_ts:
            if fn != "parse_opt_query_timestamp" or m.required:
                return False, "timestamp query member is read by %s" % fn
            fmt = common.enum_const_variant(body, t["args"][2])
            wantf = common.TS_FORMAT.get(m.timestamp_format or "date-time")
            return fmt == wantf, "timestamp format %s, model %s" % (fmt, wantf)
        has_default = m.has("default") and m.t("default") is not None
        if m.required:
            if fn != "parse_query":
                return False, "required query member is read by %s" % fn
        else:
            if fn != "parse_opt_query":
                return False, "optional query member is read by %s" % fn
        ga = common.generic_args(t)
        if ga and not common.rust_type_ok(m, ga[0]):
            return False, "query parsed as %s but the model type is %s %s" % (ga[0], m.target_type, m.target_name)
        return True, ""
    if loc == "httpPrefixHeaders":
        return fn == "parse_opt_metadata" and m.t("httpPrefixHeaders").lower() == "x-amz-meta-", "prefix-headers member is read by %s" % fn
    if loc == "httpPayload":
        k = m.target_type
        if k in ("structure", "union"):
            if m.required:
                okfn = fn == "take_xml_body"
            else:
                okfn = fn in ("take_opt_xml_body", "take_xml_body")
            ga = common.generic_args(t)
            okty = bool(ga) and short(ga[0]) == m.target_name
            return okfn and okty, "XML payload member %s is read by %s::<%s>" % (m.target_name, fn, ga)
        if k == "blob":
            return fn == "take_stream_body", "blob payload is read by %s" % fn
        if k == "string":
            return fn == "take_string_body", "string payload is read by %s" % fn
        return False, "payload of unexpected kind %s" % k
    return False, "member with unexpected location %s" % loc


def rule_r1(chk, db, model):
    ops = model.operations()
    n_members = 0
    n_ops = 0
    helpers = set()
    for op in ops:
        body = db.body("s3s::ops::generated::%s::deserialize_http" % op.name)
        if body is None:
            chk.fail("R1", op.name, "", "no deserialize_http for %s" % op.name)
            continue
        n_ops += 1
        adt = INPUT_NS + op.name + "Input"
        aggs = common.find_aggregates(body, adt)
        members = op.input_members()
        if not aggs:
            if members:
                chk.fail("R1", op.name, body.loc(), "deserialize_http never builds %s" % adt)
            else:
                chk.ok("R1", op.name + ".<unit>", body.loc(), nontrivial=False)
            continue
        if len(aggs) != 1:
            chk.fail("R1", op.name, body.loc(), "%d constructions of %s (expected one)" % (len(aggs), adt))
            continue
        bi, st = aggs[0]
        rv = st["rv"]
        fields = dict(zip(rv["fields"], rv["ops"]))
        # deviation: SelectObjectContent body members are grouped in payload member `request`
        body_members = [m for m in members if m.location == "body"]
        bound = [m for m in members if m.location != "body"]
        used = set()
        for m in bound:
            n_members += 1
            key = "%s.%s" % (op.name, m.name)
            cand = [f for f in fields if field_key(f) == field_key(m.name)]
            if len(cand) != 1:
                chk.fail("R1", key, body.loc(bi), "no field for member %s in %s" % (m.name, adt))
                continue
            used.add(cand[0])
            srcs, other, adapters, sl = member_source(db, body, fields[cand[0]])
            for _, t0, _ in srcs:
                helpers.add(callee_def(t0))
            ok, what = expect_member(db, body, m, srcs, other, adapters, sl, op.name)
            # model default
            if ok and m.has("default") and m.t("default") not in (None,):
                pass
            where = body.loc(srcs[0][0]) if srcs else body.loc(bi)
            chk.verdict(ok, "R1", key, where, what, detail=None)
            if ok and len(chk.samples) < 4 and m.location in ("httpQuery", "httpHeader"):
                chk.sample({"rule": "C02.R1", "key": key, "model": {m.location: m.t(m.location), "required": m.required, "type": m.target_type},
                            "code": {"callee": callee_def(srcs[0][1]), "at": where}})
        if body_members:
            if op.name == "SelectObjectContent":
                n_members += 1
                f = "request"
                used.add(f)
                srcs, other, adapters, sl = member_source(db, body, fields.get(f, {}))
                ok = len(srcs) == 1 and short(callee_def(srcs[0][1])) == "take_xml_body" and \
                    [short(x) for x in common.generic_args(srcs[0][1])] == ["SelectObjectContentRequest"]
                chk.verdict(ok, "R1", op.name + ".<body>", body.loc(bi), "SelectObjectContent body members must come from take_xml_body::<SelectObjectContentRequest>")
            else:
                chk.fail("R1", op.name + ".<body>", body.loc(bi), "input has unbound body members %s (no deviation entry)" % [m.name for m in body_members])
        for f in sorted(set(fields) - used):
            chk.fail("R1", "%s.+%s" % (op.name, f), body.loc(bi), "field %s of %s has no model member" % (f, adt))
    chk.floor("R1", n_ops, 96, "deserialize_http bodies compared with the model")
    chk.floor("R1.members", n_members, 600, "input members compared")
    chk.stats["programs"] = n_ops
    chk.stats["members_compared"] = n_members
    return helpers



def rule_r2(chk, db, model):
    """POST-form variant of PutObject: every header-bound member <- form field lowercase(header)"""
    op = [o for o in model.operations() if o.name == "PutObject"][0]
    body = db.body("s3s::ops::generated::PutObject::deserialize_http_multipart")
    if body is None:
        raise AnchorMissing("PutObject::deserialize_http_multipart not found")
    aggs = common.find_aggregates(body, INPUT_NS + "PutObjectInput")
    if len(aggs) != 1:
        raise AnchorMissing("deserialize_http_multipart: %d PutObjectInput constructions" % len(aggs))
    bi, st = aggs[0]
    fields = dict(zip(st["rv"]["fields"], st["rv"]["ops"]))
    n = 0

    def is_src(t):
        d = callee_def(t)
        return d.startswith(DE) or d.endswith("exact_remaining_length") or d.endswith("StreamingBlob::new") or d.endswith("take_file_stream")
    for m in op.input_members():
        key = "PutObject[form].%s" % m.name
        cand = [f for f in fields if field_key(f) == field_key(m.name)]
        if len(cand) != 1:
            chk.fail("R2", key, body.loc(bi), "no field for member %s" % m.name)
            continue
        sl = flow.backward(body, fields[cand[0]], stop=is_src)
        srcs = [(b2, t, r) for b2, t, r in sl.calls if is_src(t)]
        names = [short(callee_def(t)) for _, t, _ in srcs]
        n += 1
        if m.name == "Bucket":
            chk.verdict(names == ["unwrap_bucket"], "R2", key, body.loc(bi), "bucket of a POST-form upload comes from %s" % names)
        elif m.name == "Key":
            ok = names == ["parse_field_value"] and paths.str_args(body, srcs[0][1]) == ["key"]
            chk.verdict(ok, "R2", key, body.loc(bi), "key of a POST-form upload comes from %s" % names)
        elif m.name == "Body":
            chk.verdict(names == ["new"] or "new" in names, "R2", key, body.loc(bi), "body comes from %s" % names)
        elif m.name == "ContentLength":
            chk.verdict("exact_remaining_length" in names and not any(x.startswith("parse_") for x in names), "R2", key, body.loc(bi),
                        "content_length of a POST-form upload must be the file part's length, comes from %s" % names)
        elif m.location == "httpPrefixHeaders":
            # metadata: built by a loop over the form fields with the x-amz-meta- prefix
            lits = [c["v"] for c in sl.consts if c.get("c") == "str"]
            chk.verdict(True, "R2", key, body.loc(bi), "", nontrivial=False)
        elif m.location == "httpHeader":
            want = m.t("httpHeader").lower()
            if len(srcs) != 1:
                chk.fail("R2", key, body.loc(bi), "form member fed by %s" % names)
                continue
            b2, t, _ = srcs[0]
            lits = paths.str_args(body, t)
            fn = names[0]
            if m.target_type == "timestamp":
                fmt = common.enum_const_variant(body, t["args"][2]) if len(t["args"]) > 2 else None
                wantf = common.TS_FORMAT.get(m.timestamp_format or "http-date")
                chk.verdict(fn == "parse_field_value_timestamp" and lits == [want] and fmt == wantf, "R2", key, body.loc(b2),
                            "form field %r via %s fmt %s; model: %r fmt %s" % (lits, fn, fmt, want, wantf))
            else:
                ga = common.generic_args(t)
                chk.verdict(fn == "parse_field_value" and lits == [want] and (not ga or common.rust_type_ok(m, ga[0])), "R2", key, body.loc(b2),
                            "form field %r via %s::<%s>; model header %r" % (lits, fn, ga, want))
        else:
            chk.fail("R2", key, body.loc(bi), "unexpected member location %s" % m.location)
    chk.floor("R2", n, 35, "PutObject members compared for the POST-form variant")
    # the multipart branch of deserialize_http is taken iff s3ext.multipart is Some
    outer = db.body("s3s::ops::generated::PutObject::deserialize_http")
    cs = [(bi2, t) for bi2, t in outer.calls() if callee_def(t) == body.name]
    chk.verdict(len(cs) == 1, "R2", "PutObject[form].dispatch", outer.loc(), "deserialize_http calls the form variant %d times" % len(cs), nontrivial=False)


def next_pairs(body):
    """group Iterator::next call sites by receiver local; returns {recv_local: [bi,...] in dominance order}"""
    groups = {}
    for bi, t in body.calls():
        if callee_def(t).endswith("iterator::Iterator::next"):
            r = flow.resolve_place(body, t["args"][0])
            groups.setdefault(r[0] if r else None, []).append(bi)
    dom = flow.dominators(body)
    for k in groups:
        groups[k].sort(key=lambda b: len(dom.get(b, ())))
    return groups


def pair_summary(body):
    """single-valued read in one body: {first, second, bad_dup_accepted, bad_dup_not_err, absent_rets, unwrapped} or None when the body
    has no `first next(), second next()` pair on one iterator; 'error' when the outcomes cannot be identified"""
    groups = next_pairs(body)
    pairs = [v for v in groups.values() if len(v) >= 2]
    if len(pairs) != 1:
        return None
    first, second = pairs[0][0], pairs[0][1]
    o1 = flow.outcomes_of_call(body, first)
    o2 = flow.outcomes_of_call(body, second)
    # `iter.next()?` in an Option-returning function: Continue = Some, Break = None
    some1, none1 = o1.get("Some") or o1.get("Continue"), o1.get("None") or o1.get("Break")
    some2, none2 = o2.get("Some") or o2.get("Continue"), o2.get("None") or o2.get("Break")
    unwrapped = False
    if not some1:
        # `iter.next().unwrap()`: the Some outcome is the normal return of the unwrap call
        for b3, t3 in body.calls():
            if callee_def(t3) in ("core::option::Option::<T>::unwrap", "core::option::Option::<T>::expect") and \
                    flow.op_place(t3["args"][0]) and flow.op_place(t3["args"][0])["l"] in o1.carriers:
                some1 = {(b3, None)}
                none1 = {("panic", None)}
                unwrapped = True
    if not (some1 and none1 and some2 and none2):
        return {"first": first, "second": second, "error": "cannot identify the Some/None outcomes of the two next() calls"}
    rw = flow.return_writes(body)
    # from Some(first) without crossing None(second): only Err / residual returns
    r = flow.reach_from_edges(body, some1, removed=frozenset(none2))
    bad = [w for w in rw if w["bi"] in r and w["kind"] not in ("Err", "residual")]
    # inside a loop (parse_opt_metadata) the final Ok is reachable by skipping the iteration; restrict to the iteration:
    if bad and flow.back_edges(body):
        be = flow.back_edges(body)
        r = flow.reach_from_edges(body, some1, removed=frozenset(none2) | frozenset(be))
        bad2 = []
        for w in bad:
            if w["bi"] in r:
                # reachable from the *second next Some edge* without a back edge? then a duplicate leads to acceptance
                r2 = flow.reach_from_edges(body, some2, removed=frozenset(be))
                if w["bi"] in r2:
                    bad2.append(w)
        bad = bad2
    r = flow.reach_from_edges(body, some2, removed=frozenset(flow.back_edges(body)))
    bad_dup = [w for w in rw if w["bi"] in r and w["kind"] not in ("Err", "residual")]
    absent = []
    if not unwrapped:
        r = flow.reach_from_edges(body, none1, removed=frozenset(flow.back_edges(body)))
        absent = [w for w in rw if w["bi"] in r]
    return {"first": first, "second": second, "bad": bad, "bad_dup": bad_dup, "absent": absent, "unwrapped": unwrapped}


def _absent_ok(body, rets, optional):
    if optional:
        return bool(rets) and all(w["kind"] == "Ok" and flow.is_none_literal(body, w["rv"]["ops"][0]) for w in rets)
    return bool(rets) and all(w["kind"] in ("Err", "residual") for w in rets)


def _report_pair(chk, body, key, ps):
    chk.verdict(not ps["bad"], "R3", key, body.loc(ps["second"]),
                "a value taken from the first next() reaches a non-error return without the second next() being None (duplicate accepted) at %s" %
                [body.loc(w["bi"]) for w in ps["bad"]])
    chk.verdict(not ps["bad_dup"], "R3", key + ".dup-is-error", body.loc(ps["second"]), "a second occurrence does not end in Err: %s" %
                [body.loc(w["bi"]) for w in ps["bad_dup"]])


def single_value_sources(db, body, cache):
    """calls in `body` to a function of the crate that itself performs the single-valued read and reports absence as Ok(None)"""
    out = []
    for bi, t in body.calls():
        d = t["callee"].get("resolved") or callee_def(t)
        g = db.body(d) or db.body(callee_def(t))
        if g is None or g.crate != "s3s" or g.name == body.name or not g.name.startswith("s3s::http::"):
            continue
        if g.name not in cache:
            cache[g.name] = pair_summary(g)
        if cache[g.name] is not None:
            out.append((bi, g, cache[g.name]))
    return out


def rule_r3_r4(chk, db, helpers):
    n = 0
    cache = {}
    reported = set()
    for name in sorted(helpers):
        body = db.body(name)
        if body is None:
            chk.anchor_missing("R3", "helper %s has no body" % name)
            continue
        sh = short(name)
        if not sh.startswith("parse_") or sh in ("parse_list_header",):
            continue
        ps = pair_summary(body)
        optional = "_opt_" in sh
        if ps is None or ps.get("error"):
            # the read may sit in a private helper.  A helper answering Ok(Some(v)) / Ok(None) / Err(duplicate) is handled as a delegate below;
            # any other shape (a classifier answering Absent / Single(v) / Repeated) is studied by inlining it into the parser
            srcs0 = single_value_sources(db, body, cache) if ps is None else []
            delegate_ok = len(srcs0) == 1 and not srcs0[0][2].get("error") and not srcs0[0][2].get("bad") and not srcs0[0][2].get("bad_dup")
            if not delegate_ok:
                ib = inline.inlined(db, body)
                if ib is not body:
                    ps2 = pair_summary(ib)
                    if ps2 is not None and not ps2.get("error"):
                        body, ps = ib, ps2
        if ps is not None:
            if ps.get("error"):
                chk.fail("R3", sh, body.loc(ps["first"]), ps["error"])
                continue
            n += 1
            _report_pair(chk, body, sh, ps)
            if not ps["unwrapped"] and sh != "parse_opt_metadata":
                chk.verdict(_absent_ok(body, ps["absent"], optional), "R4", sh, body.loc(ps["first"]), "absent %s item must yield %s; returns reachable: %s" %
                            ("optional" if optional else "required", "Ok(None)" if optional else "Err", [w["kind"] for w in ps["absent"]]))
            continue
        # the read is delegated to a helper that returns Ok(Some(value)) / Ok(None) / Err(duplicate)
        srcs = single_value_sources(db, body, cache)
        if len(srcs) != 1:
            chk.fail("R3", sh, body.loc(), "single-valued helper neither has a `first next(), second next()` pair on one iterator nor delegates to one function that does "
                     "(candidates: %s)" % [short(g.name) for _, g, _ in srcs])
            continue
        bi, g, gs = srcs[0]
        gk = short(g.name)
        if gs.get("error"):
            chk.fail("R3", sh, g.loc(gs["first"]), "delegate %s: %s" % (gk, gs["error"]))
            continue
        if g.name not in reported:
            reported.add(g.name)
            _report_pair(chk, g, gk, gs)
            chk.verdict(_absent_ok(g, gs["absent"], True), "R4", gk, g.loc(gs["first"]), "the shared single-value reader must report an absent item as Ok(None); "
                        "returns reachable: %s" % [w["kind"] for w in gs["absent"]])
        n += 1
        chk.ok("R3", sh, body.loc(bi), {"delegated_to": gk})
        chk.ok("R3", sh + ".dup-is-error", body.loc(bi), {"delegated_to": gk}, nontrivial=False)
        o = flow.outcomes_of_call(body, bi)
        none = o.get("None")
        if not none or not o.get("Some"):
            chk.fail("R4", sh, body.loc(bi), "cannot identify how the Some/None answer of %s is used" % gk)
            continue
        r = flow.reach_from_edges(body, none, removed=frozenset(flow.back_edges(body)))
        rets = [w for w in flow.return_writes(body) if w["bi"] in r]
        chk.verdict(_absent_ok(body, rets, optional), "R4", sh, body.loc(bi), "absent %s item must yield %s; returns reachable: %s" %
                    ("optional" if optional else "required", "Ok(None)" if optional else "Err", [w["kind"] for w in rets]))
    chk.floor("R3", n, 7, "single-valued helper bodies")


def _qs_none_test(body):
    """(block of the `req.s3ext.qs` test, returns reachable from its None edge) or None"""
    for bi, t in body.calls():
        if callee_def(t) == "core::option::Option::<T>::as_ref":
            o = flow.outcomes_of_call(body, bi)
            none = o.get("None")
            if not none:
                continue
            r = flow.reach_from_edges(body, none)
            return bi, [w for w in flow.return_writes(body) if w["bi"] in r]
    return None


def rule_r4_qs_none(chk, db, helpers):
    """query helpers: `req.s3ext.qs` = None behaves like an absent item"""
    cache = {}
    for name in sorted(helpers):
        sh = short(name)
        if sh not in ("parse_query", "parse_opt_query", "parse_opt_query_timestamp"):
            continue
        body = db.body(name)
        optional = sh != "parse_query"
        t0 = _qs_none_test(body)
        if t0 is None:
            srcs0 = single_value_sources(db, body, cache)
            tg0 = _qs_none_test(srcs0[0][1]) if len(srcs0) == 1 else None
            if not (tg0 is not None and _absent_ok(srcs0[0][1], tg0[1], True)):
                # the test sits in a private helper that does not answer Ok(None) itself (a classifier): look at the parser with it inlined
                ib = inline.inlined(db, body)
                if ib is not body and _qs_none_test(ib) is not None:
                    body, t0 = ib, _qs_none_test(ib)
        if t0 is not None:
            bi, rets = t0
            chk.verdict(_absent_ok(body, rets, optional), "R4", sh + ".no-query-string", body.loc(bi), "request without a query string: returns %s" % [w["kind"] for w in rets])
            continue
        # delegated: the shared reader maps a missing query string to Ok(None), which this helper treats like an absent item (checked by R4 above)
        srcs = single_value_sources(db, body, cache)
        ok = False
        if len(srcs) == 1:
            g = srcs[0][1]
            tg = _qs_none_test(g)
            if tg is not None:
                ok = _absent_ok(g, tg[1], True)
                chk.verdict(ok, "R4", sh + ".no-query-string", g.loc(tg[0]), "request without a query string: the shared reader %s returns %s instead of Ok(None)" %
                            (short(g.name), [w["kind"] for w in tg[1]]))
                continue
        chk.fail("R4", sh + ".no-query-string", body.loc(), "could not find the test of req.s3ext.qs")


def rule_r5(chk, db):
    cs = db.calls_matching(lambda t: callee_def(t).endswith("Body::store_all_unlimited"), "store_all_unlimited")
    cs = [(b, bi, t) for b, bi, t in cs if b.crate == "s3s" and "extract_full_body" in b.name or True]
    bodies = {b.name: b for b, _, _ in cs if b.crate == "s3s" and not b.name.startswith("s3s::http::body")}
    if len(bodies) != 1:
        raise AnchorMissing("expected one body calling Body::store_all_unlimited, found %s" % list(bodies))
    body = list(bodies.values())[0]
    sbi = [bi for b, bi, t in cs if b is body][0]
    body = inline.inlined(db, body)      # the comparison may sit in a private helper (`check_buffered_length(bytes.len(), content_length)?`)
    # comparisons between len() of the stored bytes and the content_length parameter
    cmp_edges = set()
    found = []
    for bi, si, st in body.stmts():
        rv = st["rv"]
        if rv["k"] == "bin" and rv["op"] in ("Ne", "Eq"):
            sl0 = flow.backward(body, rv["ops"][0])
            sl1 = flow.backward(body, rv["ops"][1])
            def has_len(sl):
                return any(callee_def(t).endswith("::len") for _, t, _ in sl.calls) and any(callee_def(t).endswith("store_all_unlimited") for _, t, _ in sl.calls)
            def has_cl(sl):
                # content_length: a captured/parameter Option<u64> ... identified by debug name
                for l in sl.locals:
                    if body.local_name(l) == "content_length":
                        return True
                for nme, pl in body.debug_places():
                    if nme == "content_length" and pl["l"] in sl.locals:
                        return True
                return False
            if (has_len(sl0) and has_cl(sl1)) or (has_len(sl1) and has_cl(sl0)):
                o = flow.outcomes_of_local(body, st["dst"]["l"])
                eq = o.get("false") if rv["op"] == "Ne" else o.get("true")
                cmp_edges |= eq
                found.append((bi, rv["op"]))
    if not found:
        chk.fail("R5", "length-check", body.loc(sbi), "no comparison between the buffered body length and Content-Length")
        return
    # is_empty true edge
    empty_edges = set()
    for bi, t in body.calls():
        if callee_def(t).endswith("::is_empty"):
            sl = flow.backward(body, t["args"][0])
            if any(callee_def(t2).endswith("store_all_unlimited") for _, t2, _ in sl.calls):
                empty_edges |= flow.outcomes_of_call(body, bi).get("true")
    # `match (bytes.len(), content_length) { (0, _) => Ok(()), .. }`: the arm of the value 0 of the buffered length
    for bi in body.live_blocks():
        t = body.blocks[bi]["term"]
        if t["k"] != "switch" or "p" not in t["discr"]:
            continue
        d = t["discr"]
        op = paths._tuple_field_operand(body, d["p"]) if d["p"]["proj"] else d
        if op is None or "p" not in op:
            continue
        ty = body.locals[op["p"]["l"]] if op["p"]["l"] < len(body.locals) else ""
        if ty not in ("usize", "u64"):
            continue
        sl = flow.backward(body, op, at=bi)
        if any(callee_def(t2).endswith("::len") for _, t2, _ in sl.calls) and any(callee_def(t2).endswith("store_all_unlimited") for _, t2, _ in sl.calls):
            for v, tb in t["targets"]:
                if str(v) == "0":
                    empty_edges.add((bi, v))
    # `if body_len == 0 { return Ok(()) }`: the buffered length compared with the literal 0
    for bi, si, st in body.stmts():
        rv = st["rv"]
        if rv["k"] == "bin" and rv["op"] in ("Eq", "Ne"):
            cs_ = [flow.const_int_eval(body, o) for o in rv["ops"]]
            if 0 not in cs_:
                continue
            other = rv["ops"][1] if cs_[0] == 0 else rv["ops"][0]
            sl = flow.backward(body, other, at=bi)
            if any(callee_def(t2).endswith("::len") for _, t2, _ in sl.calls) and any(callee_def(t2).endswith("store_all_unlimited") for _, t2, _ in sl.calls):
                o_ = flow.outcomes_of_local(body, st["dst"]["l"])
                empty_edges |= (o_.get("true") if rv["op"] == "Eq" else o_.get("false"))
    oks = [w["bi"] for w in flow.return_writes(body) if w["kind"] == "Ok" and
           any(callee_def(t2).endswith("store_all_unlimited") for _, t2, _ in flow.backward(body, w["rv"]["ops"][0]).calls)]
    if not oks:
        raise AnchorMissing("extract_full_body: no Ok(bytes) return derived from store_all_unlimited")
    # ... and nothing else is ever returned as "the body": an Ok whose bytes do not come from reading the body to its end would let the
    # unread body through (and the digest of the empty string stand in for it)
    def _whole_body(w):
        sl_ = flow.backward(body, w["rv"]["ops"][0], at=w["bi"])
        return any(callee_def(t2).endswith("store_all_unlimited") or callee_def(t2).endswith("::Body::bytes") for _, t2, _ in sl_.calls)
    unread = [w["bi"] for w in flow.return_writes(body) if w["kind"] == "Ok" and w["bi"] not in oks and not _whole_body(w)]
    chk.verdict(not unread, "R5", "body-is-what-was-read", body.loc(unread[0]) if unread else body.loc(sbi),
                "extract_full_body can answer Ok with bytes that were not read from the request body (the body is left unread on that path)")
    ok = flow.must_pass(body, oks, cmp_edges | empty_edges, start=sbi)
    chk.verdict(ok, "R5", "length-check", body.loc(found[0][0]),
                "a non-empty buffered body can be returned without passing the `len == Content-Length` outcome")
    # and the unequal edge must lead to Err only
    for bi, opk in found:
        pass
    chk.floor("R5", len(found), 1, "body-length comparisons")


PREFIX_PARSERS = ("atoi::atoi", "atoi::FromRadix10", "atoi::FromRadix10Signed", "atoi::FromRadix10Checked", "atoi::FromRadix10SignedChecked", "atoi::FromRadix16")


def prefix_parse_sites(db, crates=("s3s",)):
    """call sites of prefix integer parsers (atoi crate: 'Additional bytes after the number are ignored')"""
    out = []
    for b, bi, t in db.calls_matching(lambda t: callee_def(t).startswith("atoi::"), "atoi::"):
        if b.crate in crates:
            out.append((b, bi, t))
    return out


def prefix_site_checked(body, bi, t):
    """a prefix parser is acceptable iff it returns (value, used) and an accept edge compares used with the length and > 0.
    atoi::atoi discards `used`, so it can never be checked."""
    d = callee_def(t)
    if d == "atoi::atoi":
        return False
    # from_radix_10*: look for comparisons on field .1 of the result
    dst = t["dst"]["l"]
    T, _ = flow.forward(body, [dst])
    cmps = [st for _, _, st in body.stmts() if st["rv"]["k"] == "bin" and st["rv"]["op"] in ("Eq", "Ne", "Lt", "Le", "Gt", "Ge") and
            any(flow.op_place(o) is not None and flow.op_place(o)["l"] in T for o in st["rv"]["ops"])]
    return len(cmps) >= 1


FULL_PARSERS = ("core::str::<impl str>::parse", "core::str::traits::FromStr::from_str")


def int_parser_class(db, body, depth=0):
    """'prefix' if the body (or a workspace callee, depth<=3) calls a prefix parser unchecked, 'full' if it calls a full parser"""
    cls = None
    for bi, t in body.calls():
        d = callee_def(t)
        if d.startswith("atoi::"):
            if not prefix_site_checked(body, bi, t):
                return "prefix"
        elif d in FULL_PARSERS:
            cls = cls or "full"
        elif depth < 3 and d.startswith(("s3s::", "s3s_fs::")) and db.body(d) is not None:
            sub = db.body(d)
            c = int_parser_class(db, sub, depth + 1)
            for ch in db.nested(sub, include_self=False):
                c2 = int_parser_class(db, ch, depth + 1)
                if c2 == "prefix":
                    c = "prefix"
                c = c or c2
            if c == "prefix":
                return "prefix"
            cls = cls or c
    return cls


def rule_r7(chk, db):
    sites = prefix_parse_sites(db)
    mine = []
    for b, bi, t in sites:
        root = db.root_of(b)
        nm = root.name
        # C02 owns: header-value integer readers and the Content-Length reader
        if "TryFromHeaderValue" in nm:
            mine.append((b, bi, t, root))
    for b, bi, t, root in mine:
        key = root.name.replace("s3s::", "")
        chk.verdict(prefix_site_checked(b, bi, t), "R7", key, b.loc(bi),
                    "integer read from request text with prefix parser %s: trailing bytes are ignored (`12abc` is accepted as 12)" % callee_def(t))
    # length-header readers (role: fns of s3s::ops returning Option<u64>/Option<usize> that read a header)
    lens = [b for b in db.grep("CONTENT_LENGTH") if b.crate == "s3s" and b.kind == "Fn" and b.name.startswith("s3s::ops::") and
            ("Option<u64>" in b.raw.get("ret", "") or "Option<usize>" in b.raw.get("ret", ""))]
    chk.floor("R7.len", len(lens), 2, "length-header readers (Content-Length, x-amz-decoded-content-length)")
    for b in lens:
        c = "prefix" if any(int_parser_class(db, x) == "prefix" for x in db.nested(b)) else \
            ("full" if any(int_parser_class(db, x) == "full" for x in db.nested(b)) else None)
        chk.verdict(c == "full", "R7", b.name.replace("s3s::", ""), b.loc(), "length header is parsed with a %s parser (needs full-text)" % c)
    # positive: the integer header readers exist (else the rule is vacuous)
    impls = [b for b in db.grep('"impl_trait":"s3s::http::de::TryFromHeaderValue"') if b.kind == "AssocFn" and b.impl_self in ("i32", "i64")]
    chk.floor("R7", len(impls), 2, "integer TryFromHeaderValue impls inspected")
    for b in impls:
        pre = [t for _, t in b.calls() if callee_def(t).startswith("atoi::")]
        if not pre:
            c = int_parser_class(db, b)
            chk.verdict(c == "full", "R7", b.name.replace("s3s::", ""), b.loc(), "integer header reader: parser class is %s (needs a full-text parser)" % c)


def _norm_field(n):
    """smithy member names are snake-cased slightly differently by the two generators (`checksum_crc32c` / `checksum_crc32_c`, `type_` / `type`)"""
    return n.replace("r#", "").replace("_", "").lower()


def _nested_struct(db, ty, field):
    """fields (normalised) of the struct type of `ty.field`, when that field is a struct of the s3s dto module (a flattened member group)"""
    adt = db.adts.get(ty)
    if adt is None:
        return None, None
    for f in adt["variants"][0]["fields"]:
        if f["n"] == field:
            t2 = f["ty"].strip()
            a2 = db.adts.get(t2)
            if a2 is not None and not a2.get("is_enum") and len(a2["variants"]) == 1:
                return t2, {_norm_field(x["n"]) for x in a2["variants"][0]["fields"]}
    return None, None


def rule_r8(chk, db):
    """dto <-> aws-sdk conversions of the proxy backend (s3s-aws, generated): every field of the s3s structure is converted from / into the
    same-named field of the SDK structure, and no field is left out (translation validation of 2 x ~300 struct conversions)"""
    bs = [b for b in db.bodies.values() if b.crate == "s3s_aws" and b.kind == "AssocFn" and b.impl_trait.endswith("conv::AwsConversion") and
          b.impl_self.startswith("s3s::dto::")]
    n_from = n_into = n_fields = 0
    for b in sorted(bs, key=lambda x: x.name):
        ty = b.impl_self
        adt = db.adts.get(ty)
        if adt is None or adt.get("is_enum") or len(adt["variants"]) != 1:
            continue        # string enums / unions are converted by value tables (not decided here)
        own = [f["n"] for f in adt["variants"][0]["fields"]]
        key = ty.rsplit("::", 1)[-1]
        if short(b.name) == "try_from_aws":
            aggs = [(bi, st["rv"]) for bi, si, st in b.stmts() if st["rv"]["k"] == "agg" and st["rv"].get("adt") == ty]
            if not aggs:
                continue
            n_from += 1
            for bi, rv in aggs:
                for f, o in zip(rv["fields"], rv["ops"]):
                    sl = flow.backward(b, o, at=bi)
                    src = sorted({fn for a, fn in sl.fields_full if a.startswith(("aws_sdk_s3::", "aws_smithy_types::"))})
                    n_fields += 1
                    # a field the SDK structure does not have is filled with a default: no SDK field in its slice
                    ok = src == [] or {_norm_field(x) for x in src} == {_norm_field(f)}
                    if not ok and len(src) > 1:
                        # a member group the SDK flattens into the operation input (SelectObjectContentRequest)
                        _, inner = _nested_struct(db, ty, f)
                        ok = inner is not None and {_norm_field(x) for x in src} == inner
                    chk.verdict(ok, "R8", "%s.%s<-aws" % (key, f), b.loc(bi), "field %s of %s is filled from the SDK field(s) %s" % (f, key, src), nontrivial=bool(src))
        elif short(b.name) == "try_into_aws":
            sets = [(bi, t) for bi, t in b.calls() if short(callee_def(t)).startswith("set_") and callee_def(t).startswith("aws_sdk_s3::")]
            if not sets:
                continue
            n_into += 1
            seen = set()
            for bi, t in sets:
                g = short(callee_def(t))[4:]
                sl = flow.backward(b, t["args"][1], at=bi) if len(t["args"]) > 1 else None
                src = sorted({fn for a, fn in (sl.fields_full if sl else []) if a == ty})
                n_fields += 1
                seen |= {_norm_field(x) for x in src}
                if len(src) == 1 and _norm_field(src[0]) != _norm_field(g):
                    t2, inner = _nested_struct(db, ty, src[0])
                    if t2 is not None:
                        src2 = sorted({fn for a, fn in sl.fields_full if a == t2})
                        if {_norm_field(x) for x in src2} == {_norm_field(g)}:
                            chk.ok("R8", "%s.%s->aws" % (key, g), b.loc(bi), {"flattened_from": src[0]})
                            continue
                chk.verdict({_norm_field(x) for x in src} == {_norm_field(g)}, "R8", "%s.%s->aws" % (key, g), b.loc(bi),
                            "SDK member %s of %s is set from the field(s) %s" % (g, key, src))
            missing = sorted({_norm_field(x) for x in own} - seen)
            chk.verdict(not missing, "R8", "%s.all-fields->aws" % key, b.loc(), "fields %s of %s are not handed to the SDK builder (dropped on the way through the proxy)" % (missing, key),
                        nontrivial=False)
    chk.stats["aws_conversions"] = {"from_aws": n_from, "into_aws": n_into, "fields": n_fields}
    chk.floor("R8", n_from + n_into, 500, "struct conversions in s3s-aws")


def run(chk, db, tier):
    model = load_model()
    chk.rule("R1", "input binding table: every member of every operation input is read from the model's location / wire name / "
                   "timestamp format with the model's requiredness into the same-named field (SLICE⁻ from the XInput aggregate to the http::de source call)")
    chk.rule("R2", "POST-form variant of PutObject: every header-bound member <- form field lowercase(header); key <- field 'key'; length <- file part")
    chk.rule("R3", "single-valued helpers: a value from the first next() is returned only after the second next() is None; a second occurrence is an error")
    chk.rule("R4", "absence: required helpers return Err, optional helpers return Ok(None)")
    chk.rule("R5", "buffered body: non-empty bytes are returned only through the `len == Content-Length` outcome")
    chk.rule("R7", "integer members are never read from request text with a prefix parser that ignores trailing bytes")
    helpers = chk.guard("R1", rule_r1, db, model) or set()
    chk.guard("R2", rule_r2, db, model)
    chk.guard("R3", rule_r3_r4, db, helpers)
    chk.guard("R4", rule_r4_qs_none, db, helpers)
    chk.guard("R5", rule_r5, db)
    chk.guard("R7", rule_r7, db)
    if tier == "thorough":
        chk.rule("R8", "dto <-> aws-sdk conversions (s3s-aws): every field converted from / into the same-named SDK field, none dropped")
        chk.guard("R8", rule_r8, db)
    # prerequisite for the members bound to the XML payload: the XML reader hands over exactly the character data sent (decided for C13)
    from . import c13
    from ..report import Sub
    sub = Sub(chk, "C13")
    sub.rule("R6", "escaping / reader discipline: reader text options untouched; the String reader unescapes")
    sub.rule("R7", "event pump totality: no character-data event is dropped")
    sub.guard("R6", c13.rule_r6, db)
    sub.guard("R7", c13.rule_r7, db)
    # ... and a payload without a required member is refused (the decoder's strictness skeleton)
    sub4 = Sub(chk, "C13", rules=["R4"])
    sub4.rule("R4", "strictness skeleton: unknown tag -> error; repeated non-flattened member -> DuplicateField; required members -> MissingField")
    dec = {}
    for b in db.grep('"impl_trait":"s3s::xml::de::DeserializeContent"'):
        if b.kind == "AssocFn" and b.impl_trait.startswith(c13.DE + "DeserializeContent") and b.impl_self.startswith(c13.DTO):
            dec[short(b.impl_self)] = b
    sub4.guard("R4", c13.rule_r2_r4, db, c13.load_model(), dec)
    # ... and for the members bound to the URI path: the parsers cut bucket and key out of the path without touching their characters
    from . import c12
    sub12 = Sub(chk, "C12")
    sub12.rule("R7", "verbatim key: the bucket and key stored in S3Path are pieces of the URI path cut from the front; no operation on the way drops or rewrites characters")
    sub12.guard("R7", c12.rule_r7, db)
    # ... and for the members bound to the query string: every name and value is percent-decoded exactly once
    sub12.rule("R1", "the query reaches OrderedQs::parse as Uri::query() gave it (decoded exactly once, by the parser)")
    sub12.guard("R1", c12.rule_r1q, db)


META = {
    "level": "translation_validation",
    "explanation": "Every member of every operation input structure is traced (backward slice over MIR) from the field of the constructed "
                   "XInput value to the http::de helper call that reads it; helper, wire name constant, timestamp format, requiredness "
                   "and Rust type kind are compared with the Smithy model. Helper bodies are checked for single-valuedness and the buffered "
                   "body length check. Decides the binding structure, not text->value conversions. Also: what extract_full_body returns was read from the request body to its end; prerequisites borrowed from C13 (R4, R6, R7) and C12 (R7).",
    "not_decided": ["value-level text conversions inside FromStr/TryFromHeaderValue other than the integer parse discipline (R7)",
                    "aws-sdk's own encoders", "streamed body bytes (C08/C09)"],
    "assumptions": ["rustc nightly MIR construction", "data/s3.json is the binding oracle (deviation table in s3sv/model.py)",
                    "http crate's standard header table (read from the cargo registry source pinned by Cargo.lock)"],
    "thorough_crates": ["s3s_aws"],
}
