"""C16 - secret access keys never appear in output (DESIGN.md section 3, C16)."""
import os
import subprocess

from .. import extract, flow, inline
from ..facts import callee_def, callee_resolved, short
from ..report import AnchorMissing

SECRET = "s3s::auth::secret_key::SecretKey"

# what the exposed &str (and anything derived from it) may be handed to.  Everything else is a sink.
ALLOWED_SUFFIX = (
    "::len", "::is_empty", "::saturating_add", "::checked_add", "::wrapping_add", "::with_capacity", "::as_bytes", "::as_slice", "::as_ref", "::as_str",
    "::as_mut_slice", "::as_mut", "::deref", "::deref_mut", "::borrow", "::extend_from_slice", "::zeroize", "core::mem::drop", "::as_ptr",
    "::index", "::from_ref",
)
HMAC = ("s3s::utils::crypto::hmac_sha256", "s3s::utils::crypto::hmac_sha1")


def allowed_sink(d):
    return any(d.endswith(s) for s in ALLOWED_SUFFIX)


def secret_adt(db):
    if SECRET not in db.adts:
        c = [k for k in db.adts if k.endswith("::SecretKey") and k.startswith("s3s::auth")]
        if len(c) != 1:
            raise AnchorMissing("SecretKey ADT not found")
        return c[0]
    return SECRET


def rule_r1(chk, db, sk):
    """who-may-read field 0"""
    needle = '"a":"%s"' % sk
    readers = []
    for b in db.grep(needle):
        reads = False
        for bi, si, st in b.stmts():
            for o in st["rv"]["ops"]:
                p = flow.op_place(o)
                if p is not None and any(isinstance(e, dict) and e.get("a") == sk for e in p["proj"]):
                    reads = True
            if any(isinstance(e, dict) and e.get("a") == sk for e in st["dst"]["proj"]):
                reads = True
        for bi, t in b.calls():
            for a in t["args"]:
                p = flow.op_place(a)
                if p is not None and any(isinstance(e, dict) and e.get("a") == sk for e in p["proj"]):
                    reads = True
        if reads:
            readers.append(b)
    chk.floor("R1", len(readers), 3, "bodies projecting the private field of SecretKey (positive control: expose, zeroize, clone, eq)")
    for b in readers:
        nm = short(b.name)
        root = db.root_of(b)
        tr = root.impl_trait
        ok = False
        why = ""
        if root.impl_self == sk or root.name.startswith(sk + "::"):
            if not tr and nm == "expose":
                ok = True
            elif tr in ("zeroize::Zeroize",) and nm == "zeroize":
                ok = True
            elif tr in ("core::clone::Clone", "core::cmp::PartialEq", "core::cmp::Eq") and root.derived:
                ok = True
        chk.verdict(ok, "R1", root.name.replace("s3s::", ""), b.loc(),
                    "%s reads the secret's private field (impl of `%s`%s): only expose / zeroize / derived Clone+PartialEq may" % (root.name, tr or "inherent", ", derived" if root.derived else ""))
    # the redacting impls exist and format only the placeholder
    for tr, meth in (("core::fmt::Debug", "fmt"), ("serde::ser::Serialize", "serialize")):
        bs = [b for b in db.grep(sk) if b.impl_self == sk and b.impl_trait == tr]
        if not bs:
            chk.ok("R1", "no-impl:" + tr, "", nontrivial=False)
            continue
        for b in bs:
            bad = [callee_def(t) for x in db.nested(b) for _, t in x.calls() if callee_def(t) == sk + "::expose"]
            consts = [c for x in db.nested(b) for bl in x.blocks if not bl["cleanup"] for st in bl["stmts"] for c in st["rv"]["ops"] if isinstance(c, dict) and c.get("c") == "item"]
            # what it does print is constant text: a string constant of the crate (whatever it is called) or a literal
            ph = any(db.const_str(c["def"]) for c in consts if c["def"].startswith("s3s::")) or \
                any(isinstance(a, dict) and a.get("c") == "str" for x in db.nested(b) for _, t in x.calls() for a in t["args"])
            chk.verdict(not bad and ph, "R1", "redacting:" + tr, b.loc(), "the %s impl of SecretKey must emit only the placeholder (expose calls: %d, placeholder used: %s)" % (tr, len(bad), ph))


class Taint:
    def __init__(self, db, chk, site_key, allow=None):
        self.db = db
        self.chk = chk
        self.site_key = site_key
        self.allow = allow
        self.seen = set()
        self.sinks = []
        self.steps = 0

    def run(self, body, start_locals=(), start_upvars=(), depth=0, via=""):
        key = (body.name, tuple(sorted(start_locals)), tuple(sorted(start_upvars)))
        if key in self.seen or depth > 4:
            return
        self.seen.add(key)
        self.steps += 1

        def declass(t):
            d = callee_def(t)
            return d in HMAC

        T, calls = flow.forward(body, start_locals, declassify=declass, start_upvars=start_upvars)
        if 0 in T and depth == 0 and body.raw.get("ret", "") not in ("()",):
            # the exposing function itself returns something derived from the secret without an HMAC in between
            self.sinks.append((body, None, "return value of %s" % short(body.name)))
        for bi, t, idx in calls:
            d = callee_def(t)
            if d in HMAC:
                if idx != [0] and 0 not in idx:
                    self.sinks.append((body, bi, "%s data operand (not the key)" % short(d)))
                elif any(i != 0 for i in idx):
                    self.sinks.append((body, bi, "%s data operand" % short(d)))
                continue
            if allowed_sink(d) or flow.is_transparent(t) and not d.endswith("::to_owned") and not d.endswith("::clone") and not d.endswith("Into::into") and not d.endswith("From::from"):
                continue
            if d.endswith("FromResidual::from_residual") or d.endswith("Try::branch"):
                continue
            if self.allow is not None and self.allow(body, bi, t):
                continue
            cb = self.db.body(t["callee"].get("resolved") or d) or self.db.body(d)
            if cb is not None and cb.crate in ("s3s", "s3s_fs", "s3s_policy", "s3s_aws") and not d.startswith(SECRET):
                self.run(cb, start_locals=[i + 1 for i in idx], depth=depth + 1, via=via + ">" + short(d))
                continue
            self.sinks.append((body, bi, d))
        # nested closures / coroutines capturing a tainted local
        for bi, si, st in body.stmts():
            rv = st["rv"]
            if rv["k"] == "agg" and rv.get("agg") in ("closure", "coroutine"):
                cap = [i for i, o in enumerate(rv["ops"]) if flow.op_place(o) is not None and flow.op_place(o)["l"] in T]
                if cap:
                    cb = self.db.body(rv["def"])
                    if cb is not None:
                        self.run(cb, start_upvars=cap, depth=depth + 1, via=via + ">closure")


def rule_r2(chk, db, sk, crates):
    # every body that exposes the secret, studied with its private helpers inlined: a helper that builds the key buffer and hands it back is
    # part of the function that uses (and wipes) it
    def exposes(b):
        return any(callee_def(t) == sk + "::expose" for _, t in b.calls())
    direct = []
    for b, bi, t in db.callers_of(sk + "::expose"):
        if b.crate in crates and b not in direct:
            direct.append(b)
    roots = inline.roots_with(db, direct, exposes)
    sites = [(b, bi, t) for b in roots for bi, t in b.calls() if callee_def(t) == sk + "::expose"]
    chk.floor("R2", len(sites), 2, "SecretKey::expose call sites")
    for b, bi, t in sites:
        root = db.root_of(b)
        key = root.name.replace("s3s::", "")
        tn = Taint(db, chk, key)
        if t["dst"]["proj"]:
            chk.fail("R2", key, b.loc(bi), "exposed secret stored directly into a field")
            continue
        tn.run(b, start_locals=[t["dst"]["l"]])
        what = sorted({("%s at %s" % (s[2], s[0].loc(s[1]) if s[1] is not None else s[0].loc())) for s in tn.sinks})
        chk.verdict(not tn.sinks, "R2", key, b.loc(bi),
                    "the exposed secret (or a copy of it) flows into %s - only length arithmetic, the zeroized key buffer and the HMAC key operand are allowed" % what[:4],
                    detail={"bodies_followed": tn.steps})
        if not tn.sinks:
            chk.sample({"rule": "C16.R2", "site": b.loc(bi), "in": root.name, "bodies_followed": tn.steps, "verdict": "exposed value reaches only length arithmetic / key buffer / HMAC key"})
        # owned copies are zeroized before the function returns
        T, _ = flow.forward(b, [t["dst"]["l"]], declassify=lambda x: callee_def(x) in HMAC)
        owned = [l for l in T if isinstance(l, int) and l < len(b.locals) and not b.locals[l].startswith("&") and
                 ("SmallVec" in b.locals[l] or "Vec<" in b.locals[l] or "String" in b.locals[l] or "Box<" in b.locals[l])]
        # move-equivalence classes: `x = move y` keeps the same value; one zeroize on any member covers the class
        parent = {}

        def find(x):
            while parent.get(x, x) != x:
                x = parent[x]
            return x
        for bi2, si, st in b.stmts():
            rv = st["rv"]
            if rv["k"] == "use" and isinstance(rv["ops"][0], dict) and rv["ops"][0].get("mv") and flow.op_place(rv["ops"][0]) and \
                    not flow.op_place(rv["ops"][0])["proj"] and not st["dst"]["proj"]:
                parent[find(st["dst"]["l"])] = find(flow.op_place(rv["ops"][0])["l"])
        classes = {}
        for l in owned:
            classes.setdefault(find(l), []).append(l)
        for root_l, members in classes.items():
            z = [bi2 for bi2, t2 in b.calls() if callee_def(t2).endswith("Zeroize::zeroize") and any(m in b._mut_targets(t2["args"][0], 0) for m in members)]
            rets = flow.return_blocks(b)
            ok = bool(z) and flow.must_pass(b, rets, [(z[0], None)])
            names = [b.local_name(m) for m in members if b.local_name(m)]
            chk.verdict(ok, "R2", key + ".zeroized:%s" % (names[0] if names else root_l), b.loc(z[0]) if z else b.loc(bi),
                        "an owned copy of the secret (%s: %s) is not zeroized on every path before the function returns" % (names, b.locals[members[0]][:40]))


def rule_r5(chk, db, sk):
    """ingress: where a SecretKey is made from text (SecretKey::new, From impls, Deserialize), that text goes nowhere else - in particular
    not into an error value or a log line produced while loading it"""
    CONV = ("core::convert::Into::into", "core::convert::From::from", "alloc::string::String::into_boxed_str", "alloc::borrow::ToOwned::to_owned",
            "alloc::str::<impl str>::to_owned", "core::str::<impl str>::trim", "core::result::Result::<T, E>::map", "core::option::Option::<T>::map",
            "core::cmp::PartialEq::eq", "core::cmp::PartialEq::ne", "core::str::<impl str>::chars", "core::str::<impl str>::bytes")

    def allow(body, bi, t):
        return callee_def(t) in CONV or _makes_secret(body, bi, sk)
    n = 0
    for b in sorted(db.bodies.values(), key=lambda x: x.name):
        if b.crate != "s3s" or b.kind not in ("Fn", "AssocFn") or "::tests::" in b.name:
            continue
        ctor = (b.impl_self == sk and short(b.impl_trait.split("<")[0]) in ("From", "TryFrom", "FromStr", "Deserialize")) or \
               (b.name.startswith(sk + "::") and b.raw.get("ret", "").replace("Self", sk).endswith("SecretKey") and b.argc >= 1)
        if not ctor:
            continue
        starts = [i for i in range(1, b.argc + 1) if "SecretKey" not in b.locals[i] and not b.locals[i].startswith("&mut core::fmt")]
        if short(b.impl_trait.split("<")[0]) == "Deserialize":
            # the deserialiser itself is not text; what it yields is
            starts = [t["dst"]["l"] for bi, t in b.calls() if not t["dst"]["proj"] and t["dst"]["l"] < len(b.locals) and
                      any(x in b.locals[t["dst"]["l"]] for x in ("String", "Box<str>", "&str", "Cow<")) and "SecretKey" not in b.locals[t["dst"]["l"]]]
        if not starts:
            continue
        n += 1
        tn = Taint(db, chk, b.name, allow=allow)
        tn.run(b, start_locals=starts)
        what = sorted({("%s at %s" % (x[2], x[0].loc(x[1]))) for x in tn.sinks if x[1] is not None})
        key = short(b.impl_trait.split("<")[0]) + "::" + short(b.name) if b.impl_trait else short(b.name)
        if b.impl_trait and "<" in b.impl_trait:
            key += "<" + b.impl_trait.split("<", 1)[1].rstrip(">").split("::")[-1] + ">"
        chk.verdict(not what, "R5", key, b.loc(), "the text a SecretKey is made from also flows into %s: it can surface in an error message or log while the "
                    "key is being loaded" % what[:3], detail={"bodies_followed": tn.steps})
    chk.floor("R5", n, 3, "constructors that build a SecretKey from text (new, From impls, Deserialize)")


def _makes_secret(body, bi, sk):
    t = body.blocks[bi]["term"]
    r = (t["callee"].get("resolved") or "") + " " + callee_def(t)
    if "SecretKey" in r and ("From" in r or "::from" in r or "new" in r):
        return True
    # `result.map(SecretKey::from)` and the like: an adaptor whose function argument is a SecretKey constructor
    for a in t["args"]:
        if isinstance(a, dict) and a.get("c") in ("item", "val", "fn") and "SecretKey" in str(a.get("def", "")) + str(a.get("ty", "")):
            return True
    return False


def rule_r3(chk, db, sk):
    """containers: every ADT with a SecretKey field; their Debug / Serialize / Display impls are derived or never expose"""
    cont = []
    for name, adt in db.adts.items():
        for v in adt["variants"]:
            for f in v["fields"]:
                if "SecretKey" in f["ty"] and name != sk:
                    cont.append((name, f["n"]))
    chk.floor("R3", len({c for c, _ in cont}), 3, "ADTs holding a SecretKey")
    for name, fld in sorted(set(cont)):
        impls = [i for i in db.impls if i["impl"].split("<")[0] == name and i["trait_def"] in ("core::fmt::Debug", "core::fmt::Display", "serde::ser::Serialize")]
        for i in impls:
            if i["derived"]:
                chk.ok("R3", "%s:%s" % (name.replace("s3s::", ""), i["trait_def"]), i["span"]["file"] + ":%d" % i["span"]["line"], {"derived": True}, nontrivial=False)
                continue
            bad = []
            for it in i["items"]:
                b = db.body(it)
                if b is None:
                    continue
                for x in db.nested(b):
                    bad += [1 for _, t in x.calls() if callee_def(t) == sk + "::expose"]
            chk.verdict(not bad, "R3", "%s:%s" % (name.replace("s3s::", ""), i["trait_def"]), i["span"]["file"] + ":%d" % i["span"]["line"],
                        "hand-written %s impl of %s (holds a secret in `%s`) calls expose()" % (i["trait_def"], name, fld))
        if not impls:
            chk.ok("R3", "%s:no-output-impl" % name.replace("s3s::", ""), "", nontrivial=False)
    chk.stats["secret_containers"] = sorted({c for c, _ in cont})


def rule_r4(chk, db, tier):
    """compile-fail witnesses (thorough): the type offers no implicit route to the text"""
    if tier != "thorough":
        chk.advisory("R4 compile-fail witnesses run in the thorough tier only")
        return
    w = os.path.join(extract.VERIF, "witness")
    if not os.path.isdir(w):
        chk.anchor_missing("R4", "witness crate missing")
        return
    env = dict(os.environ, CARGO_NET_OFFLINE="true", CARGO_TARGET_DIR=os.path.join(extract.CACHE, "witness-target"))
    try:
        import shutil
        shutil.copy(os.path.join(extract.REPO, "Cargo.lock"), os.path.join(w, "Cargo.lock"))
    except OSError:
        pass
    r = subprocess.run(["cargo", "+nightly", "test", "--doc", "--offline"], cwd=w, env=env, stdout=subprocess.PIPE, stderr=subprocess.STDOUT, text=True)
    out = r.stdout
    import re
    res = re.findall(r"test (\S+) - (\S+) \(line (\d+)\)( - compile fail| - compile)? \.\.\. (\w+)", out)
    n = 0
    for path, item, line, cf, verdict in res:
        n += 1
        cf = cf.strip() == "- compile fail"
        chk.verdict(verdict == "ok", "R4", "%s@%s%s" % (item, line, "[compile_fail]" if cf else "[twin]"), "witness/src/lib.rs:%s" % line,
                    "witness doctest %s (line %s) %s" % (item, line, verdict), nontrivial=False)
    chk.floor("R4", n, 14, "witness doctests compiled (7 compile_fail + 7 compiling `no_run` twins)")
    if r.returncode != 0 and not res:
        chk.anchor_missing("R4", "witness crate failed to build: %s" % out[-400:])


def run(chk, db, tier):
    sk = secret_adt(db)
    crates = ("s3s", "s3s_fs", "s3s_policy", "s3s_aws")
    chk.rule("R1", "who-may-read the private field of SecretKey: expose, zeroize, derived Clone/PartialEq only; Debug/Serialize impls emit only the placeholder")
    chk.rule("R2", "every expose() site: the exposed value and everything derived from it (interprocedural forward taint, depth 4, into closures) reaches only length arithmetic, the key buffer, zeroize/drop and the HMAC key operand; owned copies are zeroized")
    chk.rule("R3", "every ADT holding a SecretKey implements Debug/Display/Serialize only by derive or without expose()")
    chk.rule("R4", "compile-fail witnesses: SecretKey is not Display / Deref / AsRef<str> / Into<String> / Borrow<str>; field is private")
    chk.guard("R1", rule_r1, db, sk)
    chk.guard("R2", rule_r2, db, sk, crates)
    chk.guard("R3", rule_r3, db, sk)
    chk.rule("R5", "ingress: the text a SecretKey is built from (From impls, Deserialize) flows only into the SecretKey")
    chk.guard("R5", rule_r5, db, sk)
    chk.guard("R4", rule_r4, db, tier)
    chk.advisory("dto::Credentials (the STS response type) prints secret_access_key in its generated Debug although the model marks it sensitive; "
                 "it is minted by the backend for the client, not a secret held by the adapter: reported as advisory, not as a C16 violation")


META = {
    "level": "proof",
    "explanation": "The type system funnels every access to a held secret through the private field of SecretKey and SecretKey::expose(). Both "
                   "doors are enumerated over the whole workspace: the set of bodies projecting the field is included in {expose, zeroize, derived "
                   "Clone/PartialEq}; at every expose() site an interprocedural forward taint shows the value reaches only length arithmetic, the "
                   "zeroized key buffer and the HMAC key operand; every container of a SecretKey formats it only through the redacting impls; "
                   "compile-fail witnesses (thorough) show no implicit conversion to text exists. Also: ingress taint - the text a SecretKey is built from (new, From impls, Deserialize) flows only into the SecretKey.",
    "not_decided": ["secrets before they are wrapped (the caller's own strings)", "side channels"],
    "assumptions": ["rustc nightly MIR construction and privacy checking", "unsafe_code = forbid in the workspace (no aliasing through raw pointers)",
                    "HMAC-SHA256 / HMAC-SHA1 output does not reveal the key (declassifier)"],
    "thorough_crates": ["s3s_aws"],
    "technique": "exhaustive who-may-read / who-may-call enumeration + interprocedural forward taint over MIR; compile-fail witnesses",
}
