"""Error discipline for stream consumers: an Err item of the source stream must end the consumer with an error
(return Err / `?` / yield an error), never be skipped or turned into a clean end."""
from .. import flow
from ..facts import callee_def, short
from .sigcore import first_writes_from, is_err_write

NEXT_SUFFIX = ("StreamExt::next", "TryStreamExt::try_next", "stream::Stream::poll_next", "StreamExt::poll_next_unpin")


def is_next(t):
    d = callee_def(t)
    return any(d.endswith(s) for s in NEXT_SUFFIX)


def check(chk, rule, db, root, what, end_only_at_eof=False):
    """root: a Body (fn); all nested bodies are inspected.  Returns number of source reads inspected."""
    n = 0
    for b in db.nested(root):
        for bi, t in b.calls():
            if not is_next(t):
                continue
            o = flow.outcomes_of_call(b, bi)
            err = o.get("Err")
            n += 1
            key = "%s@%s#%d" % (what, short(root.name), n)
            # success only when the source has ended: from "an item arrived" no successful end is reachable without asking for the next
            # item (a loop that stops early - on an empty frame, after N bytes - commits a prefix as if it were the whole stream)
            some = o.get("Some")
            if some and end_only_at_eof:
                r_some = flow.reach_from_edges(b, some, stop_blocks=frozenset([bi]))
                early = [w for w in flow.return_writes(b) if w["kind"] == "Ok" and w["bi"] in r_some]
                chk.verdict(not early, rule, key + ".ends-at-eof", b.loc(early[0]["bi"]) if early else b.loc(bi),
                            "%s can finish successfully after an item arrived, without the source having ended: the rest of the stream is never read" % what)
            if not err:
                # the item is forwarded untested (e.g. `result?` handled elsewhere / returned as is): acceptable only if it flows to the result
                sl_ok = False
                for w in flow.return_writes(b):
                    op = w["rv"]["ops"][0] if "rv" in w and w["rv"]["ops"] else None
                    if op is not None and any(cb == bi for cb, _, _ in flow.backward(b, op, at=w["bi"]).calls):
                        sl_ok = True
                brk = o.get("Break")
                if brk:
                    fw = first_writes_from(b, brk)
                    sl_ok = bool(fw) and all(is_err_write(w) for w in fw)
                chk.verdict(sl_ok, rule, key, b.loc(bi), "an item of the source stream is consumed without its Err case being tested or forwarded (%s)" % what)
                continue
            fw = first_writes_from(b, err)
            # yielding an error through a generator counts
            yields_err = False
            r = flow.reach_from_edges(b, err)
            bad = [w for w in fw if not is_err_write(w)]
            chk.verdict(bool(fw) and not bad, rule, key, b.loc(bi),
                        "an Err item of the source stream does not end %s with an error: it leads to %s" % (what, [(w["kind"], b.loc(w["bi"])) for w in bad]))
    return n
