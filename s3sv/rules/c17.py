"""C17 - the file-system backend stays inside its root and its bucket (DESIGN.md section 3, C17)."""
from .. import flow, guards
from ..facts import callee_def, short
from ..report import AnchorMissing
from . import fscore


def _closure_receiver(db, clo):
    """(parent body, block, receiver operand) of the iterator / Option / Result adaptor the closure is handed to"""
    par = db.body(clo.parent)
    if par is None:
        return None
    for _, _, st in par.stmts():
        if st["rv"]["k"] == "agg" and st["rv"].get("def") == clo.name and not st["dst"]["proj"]:
            cl = st["dst"]["l"]
            for bi2, t2 in par.calls():
                if len(t2["args"]) >= 2 and any(flow.op_place(a) is not None and flow.op_place(a)["l"] == cl for a in t2["args"][1:]):
                    return par, bi2, t2["args"][0]
    return None


def rule_r1(chk, db, conf):
    effs = fscore.effects(db)
    chk.floor("R1", len(effs), 40, "file-system effect call sites in s3s-fs")
    # effect parameters: workspace fns whose path parameter flows into an effect or into FileWriter.dest_path
    obligations = []   # (callee name, param index, why)
    n = 0
    for b, bi, t, idxs in effs:
        root = db.root_of(b)
        for i in idxs:
            n += 1
            c = fscore.classify_path(db, b, t["args"][i], bi, conf)
            key = "%s:%s#%d.%d" % (root.name.replace("s3s_fs::", ""), short(callee_def(t)), bi, i)
            pb_ = b
            if b.kind == "Closure" and any(l >= 2 for l, _ in c["params"]) and not (c["conf"] or c["root"] or c["fw"]):
                # the path comes from the closure's own argument (`entries.try_for_each(|entry| .. remove_file(entry.path()))`): it is an
                # item of the adaptor's receiver, which is classified where the closure is handed over
                src = _closure_receiver(db, b)
                if src is not None:
                    pb_, pbi_, rop_ = src
                    c = fscore.classify_path(db, pb_, rop_, pbi_, conf)
            ok = bool(c["conf"]) or c["root"] or bool(c["fw"])
            bad_req = sorted(c["request"])
            # parameters (other than self / the closure env) reached without a confining call in between
            raw_params = []
            for l, pr in c["params"]:
                names = flow.proj_names(pr)
                if pb_.kind != "Closure" and l >= 1 and pb_.local_name(l) not in ("self",) and not (pb_.locals[l].startswith("&s3s_fs::fs::FileSystem") or pb_.locals[l].startswith("&mut s3s_fs::fs::FileWriter") or "FileWriter" in pb_.locals[l]):
                    raw_params.append((l, pb_.local_name(l)))
            if raw_params and not bad_req:
                # the function is a path-taking helper: its callers carry the obligation
                for l, nm in raw_params:
                    obligations.append((db.root_of(pb_).name, l, "%s flows into %s" % (nm, short(callee_def(t)))))
                chk.ok("R1", key, b.loc(bi), {"delegated_to_callers": [nm for _, nm in raw_params]}, nontrivial=False)
                continue
            what = ""
            if bad_req:
                ok = False
                what = "path operand of %s is built from request data %s without passing the confinement function" % (short(callee_def(t)), bad_req[:3])
            elif not ok:
                what = "path operand of %s does not come from the confinement function, the root, a confined directory entry or the file writer (calls in slice: %s)" % (
                    short(callee_def(t)), [short(x) for x in c["calls"]][:5])
            chk.verdict(ok, "R1", key, b.loc(bi), what)
            if ok and len(chk.samples) < 5:
                chk.sample({"rule": "C17.R1", "effect": callee_def(t), "at": b.loc(bi), "confined_by": sorted({short(d) for _, d in c["conf"]}) or ("root" if c["root"] else sorted(c["fw"]))})
    chk.stats["effect_operands"] = n
    # FileWriter.dest_path <- parameter of prepare_file_write: callers must pass confined paths
    for b in fscore.fs_bodies(db):
        for bi, si, st in b.stmts():
            rv = st["rv"]
            tg_ = fscore.temp_guard(db)
            if rv["k"] == "agg" and (rv.get("adt", "").endswith("::FileWriter") or (tg_ and rv.get("adt", "").rsplit("::", 1)[-1] == tg_[0])):
                m = dict(zip(rv["fields"], rv["ops"]))
                # every path the writer (or its temp-file guard) stores
                for f in [f_ for f_, o_ in m.items() if flow.op_place(o_) is not None and "Path" in b.locals[flow.op_place(o_)["l"]]]:
                    c = fscore.classify_path(db, b, m[f], bi, conf)
                    if c["conf"]:
                        chk.ok("R1", "FileWriter.%s" % f, b.loc(bi), nontrivial=False)
                    else:
                        root = db.root_of(b)
                        ps = [(l, root.local_name(l) if b is root else None) for l, _ in c["params"]]
                        # closure env: resolve captured variable name
                        names = set()
                        for l, pr in c["params"]:
                            for nme, pl in b.debug_places():
                                if pl["l"] == l and flow.proj_names(flow.norm_proj(pl["proj"])) == flow.proj_names(pr)[:len(flow.proj_names(flow.norm_proj(pl["proj"])))] and nme not in ("self", "_task_context"):
                                    names.add(nme)
                        if names:
                            for nme in names:
                                obligations.append((root.name, nme, "stored in FileWriter.%s" % f))
                            chk.ok("R1", "FileWriter.%s" % f, b.loc(bi), {"delegated_to_callers": sorted(names)}, nontrivial=False)
                        else:
                            chk.fail("R1", "FileWriter.%s" % f, b.loc(bi), "FileWriter.%s is neither confined nor a parameter" % f)
    # discharge obligations at call sites (a caller that only hands its own parameter on passes the obligation to *its* callers)
    seen = set()
    queue = list(obligations)
    while queue:
        fn, param, why = queue.pop(0)
        if (fn, param) in seen or len(seen) > 200:
            continue
        seen.add((fn, param))
        fb = db.body(fn)
        idx = param if isinstance(param, int) else None
        if idx is None and fb is not None:
            for l in range(1, fb.argc + 1):
                if fb.local_name(l) == param:
                    idx = l
        sites = [(b, bi, t) for b, bi, t in db.callers_of(fn) if b.crate == "s3s_fs"]
        if idx is None:
            chk.fail("R1", "obligation:%s(%s)" % (short(fn), param), fb.loc() if fb else "", "cannot map `%s` to a parameter of %s" % (param, fn))
            continue
        for b, bi, t in sites:
            if idx - 1 >= len(t["args"]):
                continue
            c = fscore.classify_path(db, b, t["args"][idx - 1], bi, conf)
            ok = (bool(c["conf"]) or c["root"] or bool(c["fw"])) and not c["request"]
            # canonicalised root passed before FileSystem exists (FileSystem::new -> clean_old_tmp_files)
            if not ok and any(short(x) == "canonicalize" for x in c["calls"]) and not c["request"]:
                ok = True
            if not ok and not c["request"] and c["params"] and not [x for x in c["calls"] if short(x) not in ("as_ref", "as_path", "borrow", "deref", "to_owned", "into", "clone", "as_str")]:
                # the caller passes its own (path-typed) parameter on unchanged: its callers carry the obligation
                rb = db.root_of(b)
                handed = []
                for l, pr in c["params"]:
                    nm = None
                    if b is rb:
                        nm = l if 1 <= l <= rb.argc and rb.local_name(l) != "self" else None
                    else:
                        for nme, pl in b.debug_places():
                            if pl["l"] == l and flow.proj_names(flow.norm_proj(pl["proj"])) == flow.proj_names(pr)[:len(flow.proj_names(flow.norm_proj(pl["proj"])))] and \
                                    nme not in ("self", "_task_context"):
                                nm = nme
                    if nm is not None:
                        handed.append(nm)
                if handed:
                    for nm in handed:
                        queue.append((rb.name, nm, "handed on to %s" % short(fn)))
                    chk.ok("R1", "caller:%s->%s(%s)#%d" % (rb.name.replace("s3s_fs::", ""), short(fn), fb.local_name(idx) if fb else idx, bi), b.loc(bi),
                           {"delegated_to_callers": [str(x) for x in handed]}, nontrivial=False)
                    continue
            chk.verdict(ok, "R1", "caller:%s->%s(%s)#%d" % (db.root_of(b).name.replace("s3s_fs::", ""), short(fn), fb.local_name(idx) if fb else idx, bi), b.loc(bi),
                        "argument `%s` of %s (%s) is not a confined path (request data: %s)" % (fb.local_name(idx) if fb else idx, short(fn), why, sorted(c["request"])[:3]))


def _encodes(db, sl):
    """the sliced value passes through base64 encoding (a call into, or a closure containing, encode_to_string)"""
    return any("encode_to_string" in (db.body(c["callee"].get("resolved") or "").text if db.body(c["callee"].get("resolved") or "") else callee_def(c)) for _, c, _ in sl.calls) or \
        any(rv2.get("agg") == "closure" and db.body(rv2.get("def", "")) is not None and "encode_to_string" in db.body(rv2.get("def", "")).text for _, rv2 in sl.aggs)


def rule_r1b(chk, db, conf):
    """request data given directly to the *root-level* confinement function: confined to the root, not to its bucket"""
    base = [n for n, b in conf.items() if any(callee_def(t).endswith("Absolutize::absolutize_virtually") and ("FileSystem", "root") in flow.backward(b, t["args"][1], at=bi).fields
                                              for bi, t in b.calls())]
    # a private pass-through wrapper (`fn resolve_internal_file(&self, f) { self.resolve_abs_path(f.file_name()) }`) is a root-level confinement
    # function as well: what its callers hand to it ends up under the root.  encodes[fn]: the wrapper itself base64-encodes on the way.
    encodes = {fn: False for fn in base}
    grown = True
    while grown:
        grown = False
        for name, w in conf.items():
            if name in encodes or {"bucket", "key"} <= {w.local_name(l) for l in range(1, w.argc + 1)}:
                continue
            for wb in db.nested(w):
                for bi, t in wb.calls():
                    if callee_def(t) in encodes and len(t["args"]) >= 2:
                        sl = flow.backward(wb, t["args"][1], at=bi, stop=lambda x: callee_def(x) in conf)
                        if sl.params and name not in encodes:
                            encodes[name] = encodes[callee_def(t)] or _encodes(db, sl)
                            grown = True
    # the wrappers only count towards the floor (their call sites are where the root-level function is used now); what is handed to them is
    # judged where they hand it on
    n = sum(1 for fn in encodes if fn not in base for b, _, _ in db.callers_of(fn) if b.crate == "s3s_fs")
    for fn in base:
        for b, bi, t in db.callers_of(fn):
            if b.crate != "s3s_fs":
                continue
            n += 1
            rb = db.root_of(b)
            if rb.name in conf and {"bucket", "key"} <= {rb.local_name(l) for l in range(1, rb.argc + 1)}:
                continue    # an object-path function: judged by R3 (it may confine with a component-wise starts_with test afterwards)
            sl = flow.backward(b, t["args"][1], at=bi, stop=lambda x: callee_def(x) in conf)
            req = sorted({(a.rsplit("::", 1)[-1], f) for a, f in sl.fields_full if a.startswith(fscore.REQUEST_ADT_PREFIX)})
            # parameters of path helpers: only `bucket`-named strings (validated bucket names) may be joined under the root unsanitised
            raw = []
            root = db.root_of(b)
            for l, pr in sl.params:
                if b.kind != "Closure" and b.locals[l] in ("&str", "&alloc::string::String", "alloc::string::String") and b.local_name(l) not in ("bucket",):
                    if not (encodes[fn] or _encodes(db, sl)):
                        raw.append(b.local_name(l))
            bad_req = [r for r in req if r[1] != "bucket"]
            chk.verdict(not bad_req and not raw, "R1", "root-level:%s#%d" % (root.name.replace("s3s_fs::", "")[:60], bi), b.loc(bi),
                        "%s is given request data %s directly: the result is confined to the root only, so `../other-bucket/x` or `../.upload-<id>.json` escapes the bucket" %
                        (short(fn), bad_req or raw))
    chk.floor("R1.rootlevel", n, 5, "call sites of the root-level confinement function")


def rule_r2(chk, db, conf):
    base = [b for b in conf.values() if any(callee_def(t).endswith("Absolutize::absolutize_virtually") for _, t in b.calls())]
    chk.floor("R2", len(base), 1, "functions calling absolutize_virtually")
    for b in base:
        for bi, t in b.calls():
            if callee_def(t).endswith("Absolutize::absolutize_virtually"):
                sl = flow.backward(b, t["args"][1], at=bi)
                key = short(b.name)
                vroot_is_root = ("FileSystem", "root") in sl.fields
                vroot_conf = any(callee_def(x) in conf for _, x, _ in sl.calls)
                chk.verdict(vroot_is_root or vroot_conf, "R2", key + ".virtual-root", b.loc(bi),
                            "the virtual root given to absolutize_virtually is neither FileSystem.root nor a confined path")
                o = flow.outcomes_of_call(b, bi)
                cont = o.get("Continue") | o.get("Ok")
                oks = [w["bi"] for w in flow.return_writes(b) if w["kind"] == "Ok"]
                chk.verdict(bool(cont) and bool(oks) and flow.must_pass(b, oks, cont), "R2", key + ".ok-only-if-confined", b.loc(bi),
                            "the function can return Ok(path) without absolutize_virtually having succeeded")
                for w in flow.return_writes(b):
                    if w["kind"] == "Ok":
                        s2 = flow.backward(b, w["rv"]["ops"][0], at=w["bi"])
                        chk.verdict(any(cb == bi for cb, _, _ in s2.calls), "R2", key + ".returns-confined-value", b.loc(w["bi"]), "the returned path is not the result of absolutize_virtually", nontrivial=False)
        # other absolutize flavours are not confining
        for bi, t in b.calls():
            d = callee_def(t)
            if d.startswith("path_absolutize::") and not d.endswith("absolutize_virtually"):
                chk.fail("R2", short(b.name) + ".non-virtual", b.loc(bi), "%s does not confine to a virtual root" % short(d))
    # who-may-write FileSystem.root
    writers = []
    for b in fscore.fs_bodies(db):
        for bi, si, st in b.stmts():
            rv = st["rv"]
            if rv["k"] == "agg" and rv.get("adt") == fscore.FS:
                m = dict(zip(rv["fields"], rv["ops"]))
                sl = flow.backward(b, m["root"], at=bi)
                writers.append((b, bi, any(short(callee_def(t)) == "canonicalize" for _, t, _ in sl.calls)))
            pf = flow.proj_fields(flow.norm_proj(st["dst"]["proj"]))
            if pf and pf[-1] == ("FileSystem", "root"):
                writers.append((b, bi, False))
    chk.floor("R2.root", len(writers), 1, "constructions of FileSystem")
    for b, bi, canon in writers:
        chk.verdict(canon, "R2", "root-canonical@" + short(db.root_of(b).name), b.loc(bi), "FileSystem.root is set from a path that was not canonicalized")


def rule_r3(chk, db, conf):
    """bucket confinement: an object path must be confined to its bucket directory, not merely to the root"""
    # role: confining fns with (at least) two &str parameters where one reaches a *bucket-path* confining fn or Path join as first component
    objs = []
    for name, b in conf.items():
        strs = [l for l in range(1, b.argc + 1) if b.locals[l] in ("&str", "&alloc::string::String")]
        names = [b.local_name(l) for l in strs]
        if "bucket" in names and "key" in names and "metadata" not in name and "internal" not in name:
            objs.append((b, strs))
    chk.floor("R3", len(objs), 1, "object-path functions (bucket, key) -> path")
    for b, strs in objs:
        key_l = [l for l in strs if b.local_name(l) == "key"][0]
        bucket_l = [l for l in strs if b.local_name(l) == "bucket"][0]
        ok = False
        why = "no confining call"
        for bi, t in b.calls():
            d = callee_def(t)
            if d.endswith("Absolutize::absolutize_virtually"):
                recv = flow.backward(b, t["args"][0], at=bi)
                vroot = flow.backward(b, t["args"][1], at=bi)
                key_in = any(l == key_l for l, _ in recv.params)
                vroot_bucket = any(l == bucket_l for l, _ in vroot.params) and any(callee_def(x) in conf for _, x, _ in vroot.calls)
                if key_in and vroot_bucket:
                    # confined to the bucket directory (whether the key is resolved relative to it or joined to it first)
                    ok = True
                elif key_in:
                    why = "the key is resolved against a virtual root that is not the bucket directory"
            elif d in conf:
                # delegating to a root-confining fn with dir.join(key): confined to the root only
                a = flow.backward(b, t["args"][1], at=bi) if len(t["args"]) > 1 else None
                if a is not None and any(l == key_l for l, _ in a.params):
                    # unless a starts_with(bucket_dir) test dominates the Ok return
                    oks = [w["bi"] for w in flow.return_writes(b) if w["kind"] in ("Ok", "call")]
                    # only the component-wise Path::starts_with confines; a string prefix test lets `bucket` match `bucket-private`
                    sw = [x for ob in oks for x in guards.dominating_facts(b, ob) if x[0] == "call" and x[1] == "std::path::Path::starts_with" and x[2] is True]
                    strsw = [x for ob in oks for x in guards.dominating_facts(b, ob) if x[0] == "call" and x[1].endswith("::starts_with") and x[1] != "std::path::Path::starts_with"]
                    if sw:
                        ok = True
                    elif strsw:
                        why = "bucket confinement is tested with a *string* prefix (%s): key `../tenant-private/x` in bucket `tenant` passes because `<root>/tenant-private` starts with the string `<root>/tenant`" % short(strsw[0][1])
                    else:
                        why = "bucket/key are joined and confined to the root only: `bucket-a/../bucket-b/x` stays inside the root but leaves the bucket"
        chk.verdict(ok, "R3", short(b.name), b.loc(), "object path is not confined to its bucket: %s" % why)
    # names placed directly in the root must be built from sanitised values only
    for name, b in conf.items():
        for x in db.nested(b):
            for bi, t in x.calls():
                d = callee_def(t)
                if d in ("alloc::fmt::format", "alloc::fmt::format::format_inner") or d.endswith("fmt::Arguments::<'a>::new") or short(d) == "must_use":
                    pass
        # format arguments: fmt::rt::Argument::new_display(&x)
        for x in db.nested(b):
            for bi, t in x.calls():
                d = callee_def(t)
                if d.startswith("core::fmt::rt::Argument") and short(d).startswith("new_"):
                    sl = flow.backward(x, t["args"][0], at=bi)
                    raw = []
                    for l, pr in sl.params:
                        ty = x.locals[l]
                        if ty in ("&str", "&alloc::string::String", "alloc::string::String"):
                            raw.append(x.local_name(l))
                    enc = any("encode_to_string" in callee_def(c) for _, c, _ in sl.calls)
                    for _, c, _ in sl.calls:
                        rb = db.body(c["callee"].get("resolved") or "")
                        if rb is not None and rb.kind == "Closure" and "encode_to_string" in rb.text and "URL_SAFE" in rb.text:
                            enc = True
                    for _, rv2 in sl.aggs:
                        if rv2.get("agg") == "closure":
                            rb = db.body(rv2.get("def", ""))
                            if rb is not None and "encode_to_string" in rb.text and "URL_SAFE" in rb.text:
                                enc = True
                    if raw and not enc and (b, None) not in [(o[0], None) for o in objs]:
                        chk.fail("R3", "name:%s(%s)" % (short(b.name), ",".join(map(str, raw))), x.loc(bi),
                                 "a file name under the root is formatted from the raw string %s (not a parsed Uuid / integer / URL-safe base64): it may contain `/` or `..`" % raw)
                    else:
                        chk.ok("R3", "name:%s#%d" % (short(b.name), bi), x.loc(bi), nontrivial=False)


def rule_r4(chk, db, conf):
    """one path, one address: where a path function takes (bucket, key), both come from the same address - the request's own bucket and key,
    or the copy source's - never the bucket of one and the key of the other (an object's bookkeeping would land in another bucket's name
    space)"""
    n = 0
    for b in fscore.fs_bodies(db):
        for bi, t in b.calls():
            cb = db.bodies.get(t["callee"].get("resolved") or "") or db.bodies.get(callee_def(t))
            if cb is None or cb.crate != "s3s_fs" or "PathBuf" not in cb.raw.get("ret", "") or len(t["args"]) < 3:
                continue
            # the (bucket, key) pair: the first two string parameters after self
            strs = [a for a in t["args"][1:] if flow.op_place(a) is not None and "str" in b.locals[flow.op_place(a)["l"]].lower() or
                    (flow.op_place(a) is not None and "String" in b.locals[flow.op_place(a)["l"]])]
            if len(strs) < 2:
                continue

            def origin(op, field):
                sl = flow.backward(b, op, at=bi)
                o = set()
                for a_, f_ in sl.fields:
                    if f_ == field and a_.endswith("Input"):
                        o.add("request")
                    if f_ == field and a_ == "CopySource":
                        o.add("copy source")
                return o
            ob, ok_ = origin(strs[0], "bucket"), origin(strs[1], "key")
            if not ob or not ok_:
                continue
            n += 1
            mixed = len(ob) == 1 and len(ok_) == 1 and ob != ok_
            chk.verdict(not mixed, "R4", "%s:%s#%d" % (short(db.root_of(b).name), short(callee_def(t)), n), b.loc(bi),
                        "%s is given the bucket of the %s and the key of the %s: the path belongs to neither object" %
                        (short(callee_def(t)), "/".join(sorted(ob)), "/".join(sorted(ok_))))
    chk.floor("R4", n, 10, "(bucket, key) path constructions in the backend's S3 methods")


FIXED_WIDTH_TYPES = ("uuid::Uuid",)
REMOVERS = ("remove_file", "remove_dir", "remove_dir_all")


def rule_r5(chk, db):
    """bookkeeping files in the root are selected for removal by a name prefix only if the prefix is unambiguous: it ends in literal text (a
    delimiter) or in a fixed-width value (a UUID).  A prefix that ends in a variable-length value (`.bucket-<b64(name)>`) also matches the
    files of every other bucket / key whose encoded name merely starts with it."""
    from .. import fmtspec, guards
    n = 0
    for b in fscore.fs_bodies(db):
        if not any(short(callee_def(t)) in REMOVERS for _, t in b.calls()):
            continue
        acs = None
        for bi, t in b.calls():
            if short(callee_def(t)) not in REMOVERS:
                continue
            for f in guards.dominating_facts(b, bi):
                if f[0] != "call" or not f[1].endswith("::starts_with") or f[2] is not True:
                    continue
                st = b.blocks[f[3]]["term"]
                if len(st["args"]) < 2:
                    continue
                n += 1
                sl = flow.backward(b, st["args"][1], at=f[3])
                if acs is None:
                    acs = fmtspec.arguments_calls(b)
                mine = [a for a in acs if any(cb == a["bi"] for cb, _, _ in sl.calls)]
                why = None
                for a in mine:
                    pieces = a["pieces"]
                    if not pieces:
                        why = "its format template cannot be read"
                        continue
                    last = pieces[-1]
                    if last[0] == "lit":
                        continue
                    kind, vop, _ = a["args"][last[1]] if last[1] < len(a["args"]) else (None, None, None)
                    root = None
                    if vop is not None:
                        ch = flow.resolve_chain(b, vop) or []
                        root = ch[-1][0] if ch else None
                        # through the argument tuple of format_args!
                        pl = flow.op_place(vop)
                        if pl is not None:
                            from . import c14
                            r2 = c14._root_local(b, vop)
                            root = r2 if r2 is not None else root
                    ty = b.locals[root] if root is not None and root < len(b.locals) else "?"
                    if not any(x in ty for x in FIXED_WIDTH_TYPES):
                        why = "it ends in a value of type `%s`, whose text has no fixed length" % ty.replace("&", "")
                chk.verdict(why is None, "R5", "prefix-selection@%s#%d" % (short(db.root_of(b).name), bi), b.loc(f[3]),
                            "files are removed when their name starts with a prefix, but %s: the files of another bucket / key whose encoded name begins "
                            "with the same characters are removed as well" % why)
    chk.stats["prefix_selections"] = n
    chk.floor("R5", n, 1, "removals selected by a name prefix")


def run(chk, db, tier):
    conf = fscore.confining_fns(db)
    chk.stats["confining_functions"] = sorted(short(n) for n in conf)
    chk.rule("R1", "provenance of every fs effect: each path operand derives from the confinement function family, FileSystem.root, a DirEntry of a confined read_dir, or the FileWriter (whose fields are confined by construction / at every caller)")
    chk.rule("R2", "the confinement function confines: Ok only as the Ok outcome of absolutize_virtually(_, root); FileSystem.root written only from canonicalize()")
    chk.rule("R3", "bucket confinement: object paths are confined to the bucket directory; names placed in the root are built from sanitised values")
    chk.guard("R1", rule_r1, db, conf)
    chk.guard("R1", rule_r1b, db, conf)
    chk.guard("R2", rule_r2, db, conf)
    chk.rule("R4", "one path, one address: a (bucket, key) path is built from the request's own bucket and key or from the copy source's, never mixed")
    chk.guard("R4", rule_r4, db, conf)
    chk.guard("R3", rule_r3, db, conf)
    chk.rule("R5", "bookkeeping files are selected for removal by a prefix only if it ends in literal text or a fixed-width value")
    chk.guard("R5", rule_r5, db)
    # prerequisite: the backend relies on bucket names / keys having passed the adapter's validation in both addressing styles (decided for C12)
    from . import c12
    from ..report import Sub
    sub = Sub(chk, "C12")
    sub.rule("R3", "both S3Path parsers build Bucket/Object only from values that passed check_bucket_name / check_key")
    sub.guard("R3", c12.rule_r3, db)


META = {
    "level": "other",
    "explanation": "Path provenance over the MIR of s3s-fs: every file-system effect (tokio::fs / std::fs / probing Path methods) takes a path whose "
                   "backward slice ends in the confinement function family (functions whose Ok value is the Ok outcome of absolutize_virtually "
                   "against the root or a confined directory), the root itself, a directory entry of a confined read_dir, or the FileWriter; "
                   "object paths must be confined to their bucket directory; names placed in the root come from sanitised values. Also: one path, one address - a (bucket, key) path is built from the request's own pair or from the copy source's, never mixed.",
    "not_decided": ["symlink behaviour", "library contract of absolutize_virtually", "collision-freeness of the base64 bookkeeping names"],
    "assumptions": ["rustc nightly MIR construction", "path_absolutize::absolutize_virtually returns Err when the result would leave the virtual root"],
}
