"""C13 - XML codec (DESIGN.md section 3, C13)."""
import json
import os

from .. import common, extract, flow, guards, paths, writes, inline
from ..facts import callee_def, short
from ..model import NS, T as ST, field_key, load_model, OUTPUT_SHAPE_ALIAS
from ..report import AnchorMissing

SER = "s3s::xml::ser::"
DE = "s3s::xml::de::"
DTO = "s3s::dto::generated::"
HTTP_TRAITS = ("httpHeader", "httpQuery", "httpLabel", "httpPayload", "httpPrefixHeaders", "httpResponseCode", "httpQueryParams")

# deviations documented in codegen/src/v1/dto.rs (patch_types) and xml.rs
OPTIONAL_OVERRIDES = {("Tag", "Key"), ("Tag", "Value"), ("LifecycleExpiration", "Days"), ("LifecycleExpiration", "ExpiredObjectDeleteMarker")}


def shape_for(model, tname):
    """model structure/union for a Rust dto type name, or None"""
    sh = model.shapes.get(NS + tname)
    if sh is not None:
        return NS + tname, model.shapes
    if tname.endswith("Output") and tname[:-6] in OUTPUT_SHAPE_ALIAS:
        n = NS + OUTPUT_SHAPE_ALIAS[tname[:-6]]
        return (n, model.shapes) if n in model.shapes else None
    if tname.endswith("Input"):
        n = NS + tname[:-5] + "Request"
        if n in model.shapes:
            return n, model.shapes
    sts = "com.amazonaws.sts#"
    if sts + tname in model.sts:
        return sts + tname, model.sts
    if tname == "AssumeRoleOutput" and sts + "AssumeRoleResponse" in model.sts:
        return sts + "AssumeRoleResponse", model.sts
    return None


def xml_members(model, shape_name, shapes):
    sh = shapes[shape_name]
    out = []
    for n, raw in sh.get("members", {}).items():
        tr = raw.get("traits", {})
        if any((ST + h) in tr for h in HTTP_TRAITS):
            continue
        tgt = raw["target"]
        tsh = shapes.get(tgt) or model.shapes.get(tgt)
        if tgt.startswith("smithy.api#"):
            ttype = {"String": "string", "Integer": "integer", "Long": "long", "Boolean": "boolean", "Timestamp": "timestamp", "PrimitiveBoolean": "boolean",
                     "PrimitiveInteger": "integer", "PrimitiveLong": "long", "Blob": "blob"}.get(tgt.split("#")[1], "?")
        else:
            ttype = tsh["type"] if tsh else "?"
        m = {"name": n, "xml": tr.get(ST + "xmlName", n), "required": (ST + "required") in tr, "type": ttype, "attribute": (ST + "xmlAttribute") in tr,
             "flattened": (ST + "xmlFlattened") in tr, "member_xml": None, "ts": None, "streaming": False}
        if ttype == "list" and tsh:
            mm = tsh.get("member") or tsh.get("members", {}).get("member") or {}
            m["member_xml"] = mm.get("traits", {}).get(ST + "xmlName", "member")
            if (ST + "xmlFlattened") in tsh.get("traits", {}):
                m["flattened"] = True
        if ttype == "timestamp":
            fmt = tr.get(ST + "timestampFormat") or (tsh or {}).get("traits", {}).get(ST + "timestampFormat") or "date-time"
            m["ts"] = common.TS_FORMAT.get(fmt)
        if tsh and ("smithy.api#streaming" in tsh.get("traits", {}) or (ST + "streaming") in tsh.get("traits", {})):
            m["streaming"] = True
        if ttype in ("blob",) or m["streaming"]:
            continue
        out.append(m)
    return out


def ser_impls(db, trait):
    out = {}
    for b in db.grep('"impl_trait":"%s"' % trait):
        if b.kind == "AssocFn" and b.impl_trait == trait and b.impl_self.startswith(DTO):
            out[short(b.impl_self)] = b
    return out


def field_of_self(body, op, at, tname):
    sl = flow.backward(body, op, at=at)
    fs = sorted({f for a, f in sl.fields if a == tname})
    return fs, sl


def encoder_items(db, b, tname):
    """ordered serializer calls of a serialize_content body: dicts {kind,name,member,field,guarded,fmt,bi}"""
    items = []
    order = {bi: i for i, bi in enumerate(writes.rpo(b))}
    for bi, t in sorted(b.calls(), key=lambda x: order.get(x[0], 0)):
        d = callee_def(t)
        if not d.startswith(SER + "Serializer"):
            continue
        nm = short(d)
        if nm not in ("content", "timestamp", "list", "flattened_list", "content_with_ns", "element", "attribute", "element_with_ns"):
            continue
        lits = paths.str_args(b, t)
        val = t["args"][-1] if nm != "timestamp" else t["args"][2]
        fs, sl = field_of_self(b, val, bi, tname)
        facts = guards.dominating_facts(b, bi)
        guarded = False
        for x in facts:
            if x[0] == "enum" and x[1].startswith("core::option::Option<") and x[2] == frozenset(["Some"]) and x[3] is not None:
                gf = [e[2] for e in x[3][1] if e[0] == "f"]
                if gf and fs and gf[-1] == fs[0]:
                    guarded = True
        fmt = common.enum_const_variant(b, t["args"][3]) if nm == "timestamp" and len(t["args"]) > 3 else None
        items.append({"kind": nm, "name": lits[0] if lits else None, "member": lits[1] if nm == "list" and len(lits) > 1 else None, "field": fs[0] if len(fs) == 1 else (fs or None),
                      "guarded": guarded, "fmt": fmt, "bi": bi})
    return items


def rule_r1(chk, db, model, enc):
    n_types = n_members = 0
    tables = {}
    for tname, b in sorted(enc.items()):
        sf = shape_for(model, tname)
        if sf is None:
            continue
        sname, shapes = sf
        sh = shapes[sname]
        if sh["type"] != "structure":
            continue
        n_types += 1
        items = encoder_items(db, b, tname)
        tables[tname] = items
        by_field = {}
        for it in items:
            if isinstance(it["field"], str):
                by_field.setdefault(field_key(it["field"]), []).append(it)
        members = xml_members(model, sname, shapes)
        for m in members:
            n_members += 1
            key = "%s.%s" % (tname, m["name"])
            its = by_field.get(field_key(m["name"]), [])
            if len(its) != 1:
                chk.fail("R1", key, b.loc(), "XML-bound member %s of %s is written %d times by the encoder" % (m["name"], tname, len(its)))
                continue
            it = its[0]
            what = []
            if it["name"] != m["xml"]:
                what.append("element name %r, model xmlName %r" % (it["name"], m["xml"]))
            if m["attribute"]:
                if it["kind"] != "attribute":
                    what.append("the model binds it as an XML *attribute* (xmlAttribute) but it is written as a child element <%s>" % it["name"])
            elif m["type"] == "list":
                if m["flattened"]:
                    if it["kind"] != "flattened_list":
                        what.append("flattened list written with %s" % it["kind"])
                else:
                    if it["kind"] != "list" or it["member"] != m["member_xml"]:
                        what.append("wrapped list written with %s(member %r), model member name %r" % (it["kind"], it["member"], m["member_xml"]))
            elif m["type"] == "timestamp":
                if it["kind"] != "timestamp" or it["fmt"] != m["ts"]:
                    what.append("timestamp written with %s fmt %s, model format %s" % (it["kind"], it["fmt"], m["ts"]))
            else:
                if it["kind"] != "content":
                    what.append("written with %s" % it["kind"])
            req = m["required"] and (tname, m["name"]) not in OPTIONAL_OVERRIDES
            if m["type"] != "list":
                if req and it["guarded"]:
                    what.append("required member is written conditionally")
                if not req and not it["guarded"]:
                    what.append("optional member is written unconditionally")
            chk.verdict(not what, "R1", key, b.loc(it["bi"]), "; ".join(what))
            if not what and len(chk.samples) < 3:
                chk.sample({"rule": "C13.R1", "key": key, "model": {k: m[k] for k in ("xml", "type", "required", "flattened", "member_xml", "ts", "attribute")},
                            "code": {"call": it["kind"], "name": it["name"], "field": it["field"], "guarded": it["guarded"], "at": b.loc(it["bi"])}})
        # writers without a member
        mk = {field_key(m["name"]) for m in members}
        for it in items:
            if isinstance(it["field"], str) and field_key(it["field"]) not in mk:
                chk.fail("R1", "%s.+%s" % (tname, it["field"]), b.loc(it["bi"]), "encoder writes field %s as <%s> but the model has no XML-bound member for it" % (it["field"], it["name"]))
            if it["field"] is None or isinstance(it["field"], list):
                chk.fail("R1", "%s.?%s" % (tname, it["name"]), b.loc(it["bi"]), "encoder element <%s> is not fed by exactly one field of %s (%s)" % (it["name"], tname, it["field"]))
    chk.floor("R1", n_types, 150, "struct encoders compared with the model")
    chk.floor("R1.members", n_members, 480, "XML-bound members compared (encoder side)")
    chk.stats["programs"] = n_types
    chk.stats["encoder_members"] = n_members
    return tables


def _refuses_when_some(body, bi):
    """the `is_some()` call in block bi leads, when true, to Err(DuplicateField) before anything else is written"""
    from .sigcore import first_writes_from
    o = flow.outcomes_of_call(body, bi)
    tr = o.get("true")
    fw = first_writes_from(body, tr) if tr else []
    for w in fw:
        if w["kind"] == "Err":
            sl = flow.backward(body, w["rv"]["ops"][0], at=w["bi"])
            if any(rv.get("variant") == "DuplicateField" for _, rv in sl.aggs):
                return True
        elif w["kind"] == "residual" and w["term"]["args"]:
            sl = flow.backward(body, w["term"]["args"][0], at=w["bi"])
            if any(rv.get("variant") == "DuplicateField" for _, rv in sl.aggs):
                return True
    return False


def _slot_helper(db, clo, t):
    """(captured slot index, helper body, reader operand) when `t` calls a workspace helper with `&mut <captured Option slot>` and a reader
    (function item or closure)"""
    hb = db.bodies.get(t["callee"].get("resolved") or "") or db.bodies.get(callee_def(t))
    if hb is None or hb.crate != "s3s" or len(t["args"]) < 3:
        return None
    slot = None
    reader = None
    for a in t["args"][1:]:
        if isinstance(a, dict) and a.get("c") == "fn":
            reader = a
            continue
        pl = flow.op_place(a)
        if pl is None:
            continue
        ty = clo.locals[pl["l"]] if pl["l"] < len(clo.locals) else ""
        if ty.startswith("&mut core::option::Option<"):
            r = flow.resolve_place(clo, a)
            if r is not None and r[0] == 1:
                fidx = [e[1] for e in r[1] if e[0] == "f"]
                if fidx:
                    slot = fidx[0]
        elif "{closure" in ty or "closure@" in ty:
            reader = a
    if slot is None or reader is None:
        return None
    return slot, hb, reader


_SLOT_SUMMARY = {}


def _slot_helper_summary(db, hb):
    """guards: the helper refuses (DuplicateField) when the slot is already filled, before it runs the reader; fills: the slot receives
    Some(<what the reader returned>)"""
    key = (db.dir, hb.name)
    if key in _SLOT_SUMMARY:
        return _SLOT_SUMMARY[key]
    slot_l = [l for l in range(1, hb.argc + 1) if hb.locals[l].startswith("&mut core::option::Option<")]
    runs = [bi for bi, t in hb.calls() if short(callee_def(t)) in ("call_once", "call_mut", "call")]
    guards_ = False
    fills = False
    if len(slot_l) == 1 and runs:
        for bi, t in hb.calls():
            if callee_def(t) == "core::option::Option::<T>::is_some" and t["args"]:
                r = flow.resolve_place(hb, t["args"][0])
                if r is not None and r[0] == slot_l[0] and _refuses_when_some(hb, bi):
                    o = flow.outcomes_of_call(hb, bi)
                    if flow.must_pass(hb, runs, o.get("false")):
                        guards_ = True
        for bi, si, st in hb.stmts():
            if st["dst"]["l"] == slot_l[0] and st["dst"]["proj"] == ["*"] and st["rv"].get("ops"):
                some = st["rv"]["k"] == "agg" and st["rv"].get("variant") == "Some"
                sl = flow.backward(hb, st["rv"]["ops"][0], at=bi)
                some = some or any(rv.get("variant") == "Some" and (rv.get("adt") or "").startswith("core::option::Option") for _, rv in sl.aggs)
                if some and any(cb in runs for cb, _, _ in sl.calls):
                    fills = True
    _SLOT_SUMMARY[key] = {"guards": guards_, "fills": fills}
    return _SLOT_SUMMARY[key]


def decoder_arms(db, b, tname):
    """arms of the tag match in the closure given to for_each_element: list of dicts; plus default-arm info"""
    clos = [c for c in b.children]
    clo = None
    for c in clos:
        r = paths.byte_match_arms(c, 0)
        if r is not None:
            clo = c
            arms, defaults = r
            break
    if clo is None:
        return None
    upnames = {}
    for n, p in clo.debug_places():
        if p["l"] == 1:
            fidx = [e["f"] for e in p["proj"] if isinstance(e, dict) and "f" in e]
            if fidx:
                upnames[fidx[0]] = n
    leafs = {}
    for lit, leaf in arms:
        leafs.setdefault(leaf, []).append(lit)
    out = []
    # the arms are studied with private helpers inlined (`ensure_vacant(x.as_ref())?` instead of a literal `if x.is_some() { return Err(..) }`);
    # the blocks of the closure keep their indices, the helper's blocks are appended
    raw_clo = clo
    if any((db.bodies.get(t["callee"].get("resolved") or "") or db.bodies.get(callee_def(t))) is not None and
           not callee_def(t).startswith(DE + "Deserializer") for _, t in clo.calls()):
        try:
            clo = inline.inlined(db, clo)
        except Exception:
            clo = raw_clo
    all_leaves = set(leafs) | set(defaults)
    for leaf, lits in leafs.items():
        others = set()
        for o in all_leaves:
            if o != leaf:
                others |= flow.reach(clo, [o])
        region = [x for x in flow.reach(clo, [leaf]) if x not in others]
        assigned = set()
        readers = []
        dup_guard = False
        flattened = False
        for x in region:
            for st in clo.blocks[x]["stmts"]:
                d = st["dst"]
                if d["l"] == 1:
                    fidx = [e["f"] for e in d["proj"] if isinstance(e, dict) and "f" in e]
                    if fidx:
                        assigned.add(upnames.get(fidx[0], fidx[0]))
            t = clo.blocks[x]["term"]
            if t["k"] == "call":
                dd = callee_def(t)
                if dd.startswith(DE + "Deserializer"):
                    nm = short(dd)
                    lits2 = paths.str_args(clo, t)
                    fmt = common.enum_const_variant(clo, t["args"][1]) if nm == "timestamp" and len(t["args"]) > 1 else None
                    readers.append((nm, lits2, fmt, common.generic_args(t)))
                if short(dd) in ("get_or_insert_with", "get_or_insert_default"):
                    flattened = True
                    p = flow.op_place(t["args"][0])
                    r = flow.resolve_place(clo, t["args"][0])
                    if r is not None and r[0] == 1:
                        fidx = [e[1] for e in r[1] if e[0] == "f"]
                        if fidx:
                            assigned.add(upnames.get(fidx[0], fidx[0]))
                if dd == "core::option::Option::<T>::is_some" and _refuses_when_some(clo, x):
                    dup_guard = True
                # a slot helper of the decoder (`d.single(&mut slot, Deserializer::content)` / `d.single(&mut slot, |d| d.timestamp(fmt))`):
                # the helper guards and fills the slot, the reader is the function or closure it is given
                sh = _slot_helper(db, clo, t)
                if sh is not None:
                    fidx, hb, rd_op = sh
                    assigned.add(upnames.get(fidx, fidx))
                    summ = _slot_helper_summary(db, hb)
                    if summ["guards"]:
                        dup_guard = True
                    if summ["fills"]:
                        if rd_op.get("c") == "fn" and rd_op.get("def", "").startswith(DE + "Deserializer"):
                            readers.append((short(rd_op["def"]), [], None, []))
                        else:
                            ag = flow.resolve_agg(clo, rd_op) if "p" in rd_op else None
                            cdef = None
                            pl = flow.op_place(rd_op)
                            if pl is not None:
                                df0 = flow.single_def(clo, pl["l"])
                                if df0 is not None and df0["kind"] == "assign" and df0["rv"]["k"] == "agg" and df0["rv"].get("agg") == "closure":
                                    cdef = df0["rv"].get("def")
                            cb = db.body(cdef) if cdef else None
                            for x2 in (db.nested(cb) if cb is not None else []):
                                for _, t3 in x2.calls():
                                    d3 = callee_def(t3)
                                    if d3.startswith(DE + "Deserializer"):
                                        nm3 = short(d3)
                                        fmt3 = common.enum_const_variant(x2, t3["args"][1]) if nm3 == "timestamp" and len(t3["args"]) > 1 else None
                                        readers.append((nm3, paths.str_args(x2, t3), fmt3, common.generic_args(t3)))
        out.append({"lits": [l.decode("latin1") for l in lits], "assigned": sorted(map(str, assigned)), "readers": readers, "dup_guard": dup_guard, "flattened": flattened,
                    "leaf": leaf})
    # default arm
    dflt_ok = False
    for dleaf in defaults:
        r = flow.reach(clo, [dleaf])
        for x in r:
            for st in clo.blocks[x]["stmts"]:
                if st["rv"]["k"] == "agg" and st["rv"].get("adt", "").endswith("::DeError") and st["rv"].get("variant") == "UnexpectedTagName":
                    dflt_ok = True
    return {"closure": clo, "arms": out, "default_is_error": dflt_ok}


def decoder_final(db, b, tname):
    """field -> ('required'|'optional'|'default') from the final Self{..} aggregate"""
    out = {}
    for bi, si, st in b.stmts():
        rv = st["rv"]
        if rv["k"] == "agg" and rv.get("adt") == DTO + tname:
            for f, o in zip(rv["fields"], rv["ops"]):
                sl = flow.backward(b, o, at=bi, through_calls=True)
                names = {short(callee_def(t)) for _, t, _ in sl.calls}
                missing = any(rv2.get("variant") == "MissingField" for _, rv2 in sl.aggs)
                if missing:
                    out[f] = "required"
                elif names & {"unwrap_or", "unwrap_or_default", "unwrap_or_else"}:
                    out[f] = "default"
                else:
                    out[f] = "optional"
    return out


def rule_r2_r4(chk, db, model, dec):
    n_types = n_members = 0
    tables = {}
    for tname, b in sorted(dec.items()):
        sf = shape_for(model, tname)
        if sf is None:
            continue
        sname, shapes = sf
        if shapes[sname]["type"] != "structure":
            continue
        d = decoder_arms(db, b, tname)
        if d is None:
            if xml_members(model, sname, shapes):
                chk.fail("R2", tname, b.loc(), "decoder of %s has no tag match" % tname)
            continue
        n_types += 1
        fin = decoder_final(db, b, tname)
        tables[tname] = (d, fin)
        clo = d["closure"]
        members = xml_members(model, sname, shapes)
        by_lit = {}
        for a in d["arms"]:
            for l in a["lits"]:
                by_lit[l] = a
        chk.verdict(d["default_is_error"], "R4", tname + ".unknown-tag", clo.loc(), "an unknown child element of <%s> is not refused with UnexpectedTagName" % tname, nontrivial=False)
        for m in members:
            n_members += 1
            key = "%s.%s" % (tname, m["name"])
            a = by_lit.get(m["xml"])
            if a is None:
                chk.fail("R2", key, clo.loc(), "decoder of %s has no arm for element <%s> (member %s)" % (tname, m["xml"], m["name"]))
                continue
            what = []
            asg = [x for x in a["assigned"] if field_key(x) == field_key(m["name"])]
            if len(a["assigned"]) != 1 or not asg:
                what.append("arm <%s> assigns %s (expected the variable of member %s)" % (m["xml"], a["assigned"], m["name"]))
            rd = [r for r in a["readers"] if r[0] in ("content", "list_content", "timestamp")]
            kinds = [r[0] for r in rd]
            if m["attribute"]:
                what.append("the model binds it as an XML *attribute* (xmlAttribute); the decoder expects a child element <%s>, which no standard client writes" % m["xml"])
            elif m["type"] == "list":
                if m["flattened"]:
                    if not a["flattened"] or kinds != ["content"]:
                        what.append("flattened list read with %s%s" % (kinds, "" if a["flattened"] else " without accumulating"))
                else:
                    if kinds != ["list_content"] or rd[0][1][:1] != [m["member_xml"]]:
                        what.append("wrapped list read with %s %s, model member name %r" % (kinds, rd[0][1] if rd else None, m["member_xml"]))
            elif m["type"] == "timestamp":
                if kinds != ["timestamp"] or rd[0][2] != m["ts"]:
                    what.append("timestamp read with %s fmt %s, model format %s" % (kinds, rd[0][2] if rd else None, m["ts"]))
            else:
                if kinds != ["content"]:
                    what.append("read with %s" % kinds)
            chk.verdict(not what, "R2", key, clo.loc(a["leaf"]), "; ".join(what))
            # R4 strictness
            if not (m["type"] == "list" and m["flattened"]):
                chk.verdict(a["dup_guard"], "R4", key + ".duplicate", clo.loc(a["leaf"]), "a repeated <%s> is not refused (no `is_some() -> DuplicateField` guard): the later occurrence silently replaces the earlier one" % m["xml"])
            fld = [f for f in fin if field_key(f) == field_key(m["name"])]
            req = m["required"] and (tname, m["name"]) not in OPTIONAL_OVERRIDES
            if fld:
                got = fin[fld[0]]
                if m["type"] == "list" and not req:
                    pass
                else:
                    chk.verdict((got == "required") == req or (got == "default" and not req), "R4", key + ".required", b.loc(),
                                "member %s is %s in the model but the decoder treats it as %s" % (m["name"], "required" if req else "optional", got), nontrivial=False)
            else:
                chk.fail("R4", key + ".field", b.loc(), "decoder result has no field for member %s" % m["name"])
        # arms without a member
        mx = {m["xml"] for m in members}
        for l in by_lit:
            if l not in mx:
                chk.fail("R2", "%s.+<%s>" % (tname, l), clo.loc(), "decoder accepts element <%s> which the model does not define for %s" % (l, tname))
    chk.floor("R2", n_types, 140, "struct decoders compared with the model")
    chk.floor("R2.members", n_members, 400, "XML-bound members compared (decoder side)")
    chk.stats["decoder_members"] = n_members
    return tables


def rule_r3(chk, db, enc_tables, dec_tables):
    n = 0
    for tname in sorted(set(enc_tables) & set(dec_tables)):
        n += 1
        e = {(it["name"], field_key(it["field"]) if isinstance(it["field"], str) else None) for it in enc_tables[tname]}
        d = set()
        for a in dec_tables[tname][0]["arms"]:
            for l in a["lits"]:
                for v in a["assigned"]:
                    d.add((l, field_key(v)))
        chk.verdict(e == d, "R3", tname, "", "encoder and decoder of %s disagree: only written %s; only read %s" % (tname, sorted(map(str, e - d)), sorted(map(str, d - e))))
    chk.floor("R3", n, 120, "types with both encoder and decoder")


def rule_r5(chk, db, model):
    """roots and namespaces"""
    ops = {o.name: o for o in model.operations()}
    n = 0
    for b in db.grep('"impl_trait":"s3s::xml::ser::Serialize"'):
        if b.kind != "AssocFn" or b.impl_trait != SER + "Serialize" or not b.impl_self.startswith(DTO):
            continue
        tname = short(b.impl_self)
        calls = [(bi, t) for bi, t in b.calls() if callee_def(t).startswith(SER + "Serializer")]
        if tname == "GetBucketLocationOutput":
            # deviation (xml/mod.rs, PR 127, s3UnwrappedXmlOutput): root is the member itself, under the S3 namespace, empty when absent
            n += 1
            ok = bool(calls) and all(short(callee_def(t)) == "content_with_ns" and paths.str_args(b, t)[:2] == ["LocationConstraint", "http://s3.amazonaws.com/doc/2006-03-01/"] for _, t in calls)
            chk.verdict(ok, "R5", tname + ".unwrapped-root", b.loc(), "GetBucketLocation output must be the unwrapped <LocationConstraint xmlns=S3> element")
            continue
        if tname == "AssumeRoleOutput":
            n += 1
            lits_all = [l for x in db.nested(b) for _, t in x.calls() for l in paths.str_args(x, t)]
            chk.verdict(lits_all[:2] == ["AssumeRoleResponse", "https://sts.amazonaws.com/doc/2011-06-15/"] and "AssumeRoleResult" in lits_all, "R5", tname + ".sts-root", b.loc(),
                        "STS AssumeRole response must be <AssumeRoleResponse xmlns=STS><AssumeRoleResult>..: found %s" % lits_all[:3])
            continue
        if len(calls) != 1:
            chk.fail("R5", tname, b.loc(), "root encoder of %s makes %d serializer calls" % (tname, len(calls)))
            continue
        n += 1
        bi, t = calls[0]
        lits = paths.str_args(b, t)
        consts = [flow.const_of(b, a) for a in t["args"]]
        ns = [db.const_str(c["def"]) for c in consts if c is not None and c.get("c") == "item"]
        is_out = tname.endswith("Output") and tname[:-6] in ops
        nm = short(callee_def(t))
        if is_out:
            op = ops[tname[:-6]]
            chk.verdict(nm == "content_with_ns" and ns and ns[0] == ["http://s3.amazonaws.com/doc/2006-03-01/"], "R5", tname + ".namespace", b.loc(bi),
                        "operation output root is written with %s / namespace %s (restXml: xmlns http://s3.amazonaws.com/doc/2006-03-01/)" % (nm, ns))
            # root element name: xmlName of the output shape if any, else the operation's name + "Result"? s3 uses the shape's xmlName or <OpName>Result / Output name
            out_sh = model.shapes.get(op.output, {})
            xn = out_sh.get("traits", {}).get(ST + "xmlName")
            if xn:
                chk.verdict(lits[:1] == [xn], "R5", tname + ".root", b.loc(bi), "root element %s, model xmlName %s" % (lits[:1], xn))
            else:
                chk.ok("R5", tname + ".root", b.loc(bi), {"root": lits[:1]}, nontrivial=False)
        else:
            sf = shape_for(model, tname)
            xn = None
            if sf:
                xn = sf[1][sf[0]].get("traits", {}).get(ST + "xmlName")
            # payload members may carry their own xmlName
            pm = None
            for o in ops.values():
                for m in o.input_members() + o.output_members():
                    if m.has("httpPayload") and m.target_name == tname:
                        pm = m.t("xmlName") or pm
            want = pm or xn or tname
            chk.verdict(lits[:1] == [want] or lits[:1] == [xn] or lits[:1] == [tname], "R5", tname + ".root", b.loc(bi), "root element %s, model says %s" % (lits[:1], want), nontrivial=False)
    chk.floor("R5", n, 50, "root encoders")
    # root decoders go through named_element(root)
    m = 0
    for b in db.grep('"impl_trait":"s3s::xml::de::Deserialize"'):
        if b.kind != "AssocFn" or b.impl_trait != DE + "Deserialize" or not b.impl_self.startswith(DTO):
            continue
        tname = short(b.impl_self)
        ne = [(bi, t) for bi, t in b.calls() if short(callee_def(t)) == "named_element"]
        m += 1
        if tname == "GetBucketLocationOutput":
            d = decoder_arms(db, b, tname)
            chk.verdict(d is not None and d["default_is_error"] and [a["lits"] for a in d["arms"]] == [["LocationConstraint"]] and d["arms"][0]["dup_guard"], "R5", tname + ".root-decoder", b.loc(),
                        "GetBucketLocation output decoder must accept exactly one <LocationConstraint>", nontrivial=False)
            continue
        chk.verdict(len(ne) == 1, "R5", tname + ".root-decoder", b.loc(), "root decoder of %s does not go through named_element" % tname, nontrivial=False)
    chk.floor("R5.de", m, 40, "root decoders")


LOSSY_READER_CFG = ("trim_text", "trim_text_end", "trim_text_start", "trim_markup_names_in_closing_tags", "expand_empty_elements")


def rule_r6(chk, db):
    """escaping discipline and verbatim text"""
    xml_bodies = [b for b in db.bodies.values() if b.crate == "s3s" and (b.name.startswith("s3s::xml::ser") or b.name.startswith("s3s::xml::de") or b.name.startswith("s3s::xml::")) and
                  "generated" not in b.name]
    raw_ctor = 0
    esc_ctor = 0
    for b in xml_bodies:
        for bi, t in b.calls():
            d = callee_def(t)
            if d.startswith("quick_xml::events::BytesText") and short(d) in ("from_escaped", "from_escaped_str", "from_plain") and b.name.startswith("s3s::xml::ser"):
                c = flow.const_of(b, t["args"][0])
                lit = c is not None and c.get("c") in ("str", "bstr")
                raw_ctor += 1
                chk.verdict(lit, "R6", "raw-text@%s#%d" % (db.root_of(b).name.replace("s3s::xml::", ""), bi), b.loc(bi),
                            "BytesText::%s is given non-literal content: the text bypasses full XML escaping (e.g. a raw `>` makes `]]>` ill-formed)" % short(d))
            if d.startswith("quick_xml::events::BytesText") and short(d) == "new":
                esc_ctor += 1
            if d.startswith("quick_xml::escape::") and short(d) in ("minimal_escape", "partial_escape", "unescape_with"):
                chk.fail("R6", "weak-escape@%s#%d" % (db.root_of(b).name.replace("s3s::xml::", ""), bi), b.loc(bi), "%s escapes less than the XML specification requires for character data" % short(d))
            if short(d) in LOSSY_READER_CFG and "quick_xml" in d:
                chk.fail("R6", "reader-config@%s#%d" % (db.root_of(b).name.replace("s3s::xml::", ""), bi), b.loc(bi),
                         "the XML reader is configured with %s: leaf text is altered before it reaches the decoder (leading/trailing whitespace of values is lost)" % short(d))
            # writes to the reader Config fields
        for bi, si, st in b.stmts():
            pf = flow.proj_fields(flow.norm_proj(st["dst"]["proj"]))
            for a, f in pf:
                if a == "Config" and f in LOSSY_READER_CFG:
                    chk.fail("R6", "reader-config@%s#%d" % (db.root_of(b).name.replace("s3s::xml::", ""), bi), b.loc(bi),
                             "the XML reader's `%s` option is set: leaf text is altered before it reaches the decoder" % f)
    chk.floor("R6", esc_ctor, 1, "escaping BytesText::new sites in xml::ser (positive control)")
    chk.stats["raw_text_constructors"] = raw_ctor
    # the String reader unescapes
    sb = [b for b in db.grep("DeserializeContent") if b.crate == "s3s" and b.impl_trait.startswith(DE + "DeserializeContent") and b.impl_self == "alloc::string::String"]
    ok = False
    for b in sb:
        for x in db.nested(b):
            if any(short(callee_def(t)) == "unescape" for _, t in x.calls()):
                ok = True
    chk.verdict(ok, "R6", "string-reader-unescapes", sb[0].loc() if sb else "", "the String reader does not unescape character data")


def rule_r4_union(chk, db):
    """a union element has exactly one child: the helper that decodes it hands at most one child to the member reader (and leaves a second
    child to the caller's expect_end, which refuses it).  Decided on the helper: its reader parameter is `FnOnce` (the type system allows
    one invocation), or the invocation lies on no cycle - a loop, or a closure handed on to an element loop, would keep the last of several."""
    from .. import writes
    hs = [b for n, b in db.bodies.items() if b.crate == "s3s" and b.kind == "AssocFn" and n.startswith(DE + "Deserializer") and short(n) in ("element", "element_with_ns")]
    chk.floor("R4.union", len(hs), 1, "union element helpers of the deserialiser")
    for b in hs:
        readers = [l for l in range(1, b.argc + 1) if "Fn" in b.locals[l] and "(&mut" in b.locals[l]]
        if not readers:
            chk.fail("R4", "union-single-child@%s" % short(b.name), b.loc(), "cannot identify the member reader parameter of %s" % short(b.name))
            continue
        ty = b.locals[readers[0]]
        once = "FnOnce" in ty
        looped = []
        if not once:
            for x in db.nested(b):
                lb = writes.loop_blocks(x)
                for bi, t in x.calls():
                    if short(callee_def(t)) in ("call_mut", "call", "call_once") and "ops::function" in callee_def(t):
                        if bi in lb or x is not b:
                            looped.append(x.loc(bi))
        chk.verdict(once or not looped, "R4", "union-single-child@%s" % short(b.name), b.loc(),
                    "%s may run the member reader more than once (reader is `%s`, invoked at %s inside a loop / an element-loop closure): of several "
                    "children the last one wins instead of the document being refused" % (short(b.name), ty[:40], ", ".join(looped[:2])))


def rule_r7(chk, db):
    """event pump totality"""
    b = inline.inlined(db, db.body(DE + "Deserializer::<'xml>::read_event"))
    if b is None:
        raise AnchorMissing("Deserializer::read_event not found")
    arms = None
    for s in b.live_blocks():
        t = b.blocks[s]["term"]
        if t["k"] == "switch":
            src = paths.switch_source(b, t)
            if src and src[0] == "discr" and src[1]["enum"].startswith("quick_xml::events::Event"):
                arms = (s, t, src[1])
    if arms is None:
        raise AnchorMissing("read_event: no switch over quick_xml::events::Event")
    s, t, rv = arms
    vals = paths.discr_values(t, rv)
    variants = [n for _, n in rv["variants"]]
    carrying = [v for v in ("Text", "CData", "GeneralRef") if v in variants]
    # blocks constructing a DeEvent
    de_blocks = {bi for bi, si, st in b.stmts() if st["rv"]["k"] == "agg" and st["rv"].get("adt", "").endswith("::DeEvent")}
    be = flow.back_edges(b)
    for v in carrying:
        labs = [lab for lab, val in vals.items() if val == v or (isinstance(val, str) and val.startswith("OTHER:") and v in val[6:].split("|"))]
        ok = False
        for lab in labs:
            tb = flow.edge_target(b, (s, lab))
            # reaches a DeEvent construction without going round the loop
            r = flow.reach(b, [tb], removed=frozenset(be))
            if r & de_blocks:
                ok = True
        # ... and on no path goes round the loop without having built one: an event that is dropped under a condition on its content
        # (`Text(x) if x is all white space => continue`) loses `<Value> </Value>` and the tab of `<FieldDelimiter>`
        if ok:
            srcs = {src_ for (src_, _) in be}
            for lab in labs:
                tb = flow.edge_target(b, (s, lab))
                r2 = flow.reach(b, [tb], stop_blocks=frozenset(de_blocks))
                dropped = sorted(x for x in srcs if x in r2 and x not in de_blocks)
                chk.verdict(not dropped, "R7", "pump-keeps-every:" + v, b.loc(dropped[0]) if dropped else b.loc(s),
                            "a quick-xml `%s` event (character data) can be discarded by the event pump on some path (a condition on its content decides): "
                            "white-space-only values such as `<Value> </Value>` decode as the empty string" % v)
        chk.verdict(ok, "R7", "pump:" + v, b.loc(s),
                    "quick-xml `%s` events (character data) are skipped by the event pump: `<Key><![CDATA[abc]]></Key>` decodes as the empty string" % v if v == "CData" else
                    "quick-xml `%s` events (character data) are skipped by the event pump" % v)
    # expect_end: a Text event may be skipped only after its content was inspected
    # (any method of the deserialiser that loops over events and goes round again on Text)
    skipped_uninspected = False
    e_loc = None
    cands = [inline.inlined(db, x) for x in db.bodies.values() if x.crate == "s3s" and x.kind == "AssocFn" and x.name.startswith(DE + "Deserializer") and
             "::tests::" not in x.name]
    n_skip = 0
    for e in cands:
      for s2 in e.live_blocks():
        t2 = e.blocks[s2]["term"]
        if t2["k"] == "switch":
            src = paths.switch_source(e, t2)
            if src and src[0] == "discr" and src[1]["enum"].endswith("DeEvent<'_>") or (src and src[0] == "discr" and "DeEvent" in src[1]["enum"]):
                vals2 = paths.discr_values(t2, src[1])
                for lab, val in vals2.items():
                    if val == "Text":
                        tb = flow.edge_target(e, (s2, lab))
                        if s2 not in flow.reach(e, [tb]):
                            continue        # Text does not lead round the loop again: nothing is skipped here
                        n_skip += 1
                        e_loc = e_loc or e.loc(s2)
                        # on the Text edge, before looping back: is the payload read (any use of (ev as Text).0)?
                        r = flow.reach(e, [tb], removed=frozenset(flow.back_edges(e)))
                        used = False
                        for x in r:
                            for st in e.blocks[x]["stmts"]:
                                for o in st["rv"]["ops"]:
                                    p = flow.op_place(o)
                                    if p is not None and any(isinstance(el, dict) and el.get("dc") is not None and el.get("n") == "Text" for el in p["proj"]):
                                        used = True
                            tt = e.blocks[x]["term"]
                            if tt["k"] == "call":
                                for a in tt["args"]:
                                    p = flow.op_place(a)
                                    if p is not None and any(isinstance(el, dict) and el.get("n") == "Text" for el in p["proj"]):
                                        used = True
                        if not used:
                            skipped_uninspected = True
    # ... unless the leaf text reader itself gathers every consecutive Text event before the end tag is expected
    tx = inline.inlined(db, db.body(DE + "Deserializer::<'xml>::text"))
    merges = False
    if tx is not None:
        from .c08 import natural_loops
        for head, blocks in natural_loops(tx).items():
            names = {short(callee_def(tx.blocks[x]["term"])) for x in blocks if tx.blocks[x]["term"]["k"] == "call"}
            if "peek_event" in names and names & {"extend_from_slice", "push", "push_str", "extend", "put_slice"}:
                # the loop continues only on Text and its accumulation reaches the callback
                merges = True
    if merges:
        skipped_uninspected = False
    chk.verdict(not skipped_uninspected, "R7", "text-after-text-dropped", e_loc or "crates/s3s/src/xml/de.rs",
                "expect_end discards Text events without looking at them: character data that follows the first text node of a leaf (after a comment, CDATA section or "
                "entity boundary) is silently dropped, e.g. `<Key>ab<!-- c -->cd</Key>` decodes as `ab`")


def rule_r8(chk, db):
    b = db.body("s3s::http::de::deserialize_xml")
    if b is None:
        raise AnchorMissing("http::de::deserialize_xml not found")
    ee = [(bi, t) for bi, t in b.calls() if short(callee_def(t)) == "expect_eof"]
    oks = [w["bi"] for w in flow.return_writes(b) if w["kind"] == "Ok"]
    ok = False
    for bi, t in ee:
        o = flow.outcomes_of_call(b, bi)
        c = o.get("Continue") | o.get("Ok")
        ok = bool(c) and flow.must_pass(b, oks, c)
    chk.verdict(ok, "R8", "nothing-after-root", b.loc(ee[0][0]) if ee else b.loc(), "a document is accepted without expect_eof having succeeded: trailing elements after the root are ignored")
    e = inline.inlined(db, db.body(DE + "Deserializer::<'xml>::expect_eof"))
    if e is not None:
        okr = True
        live = flow.reach(e, [0], removed=frozenset(paths.const_dead_edges(e)))     # arms of a shared `expect(kind)` that `Eof` does not select
        for w in flow.return_writes(e):
            if w["kind"] == "Ok" and w["bi"] in live:
                f = guards.dominating_facts(e, w["bi"])
                okr = okr and any(x[0] == "enum" and "DeEvent" in x[1] and x[2] == frozenset(["Eof"]) for x in f)
        chk.verdict(okr, "R8", "expect_eof-only-on-eof", e.loc(), "expect_eof returns Ok on something other than end of input", nontrivial=False)
    for nm in ("take_xml_body", "take_opt_xml_body"):
        tb = db.body("s3s::http::de::" + nm)
        if tb is None:
            chk.anchor_missing("R8", nm + " not found")
            continue
        chk.verdict(any(short(callee_def(t)) == "deserialize_xml" for _, t in tb.calls()), "R8", nm + ".uses-deserialize_xml", tb.loc(), "%s does not decode through deserialize_xml" % nm, nontrivial=False)


def rule_r9(chk, db):
    from .c02 import int_parser_class
    n = 0
    for b in db.grep("DeserializeContent"):
        if b.crate == "s3s" and b.kind == "AssocFn" and b.impl_trait.startswith(DE + "DeserializeContent") and b.impl_self in ("i32", "i64"):
            n += 1
            cls = None
            for x in db.nested(b):
                c = int_parser_class(db, x)
                if c == "prefix":
                    cls = "prefix"
                cls = cls or c
            chk.verdict(cls == "full", "R9", "int-reader:" + b.impl_self, b.loc(), "XML %s values are parsed with a %s parser (`12abc` would be accepted as 12)" % (b.impl_self, cls))
        if b.crate == "s3s" and b.kind == "AssocFn" and b.impl_trait.startswith(DE + "DeserializeContent") and b.impl_self == "bool":
            for x in db.nested(b):
                r = None
                for bl in range(len(x.blocks)):
                    r = paths.byte_match_arms(x, bl)
                    if r:
                        break
                if r:
                    lits = sorted(l.decode() for l, _ in r[0])
                    chk.verdict(set(lits) >= {"true", "false"} and set(lits) <= {"true", "false", "TRUE", "FALSE"}, "R9", "bool-reader", x.loc(), "XML booleans accept %s" % lits, nontrivial=False)
                    if set(lits) - {"true", "false"}:
                        chk.advisory("XML boolean reader also accepts %s (restXml defines only `true`/`false`): leniency, not a violation" % sorted(set(lits) - {"true", "false"}))
    chk.floor("R9", n, 2, "XML integer readers")


def rule_r10(chk, db, model, enc, dec):
    """string enums and unions: wire values == model enumValue; union arms == member names"""
    n = 0
    for k, sh in model.shapes.items():
        if sh["type"] != "enum":
            continue
        tname = k.split("#")[1]
        adt = db.adts.get(DTO + tname)
        if adt is None:
            continue
        # associated consts hold the wire values
        vals = set()
        for mn, mm in sh["members"].items():
            vals.add(mm.get("traits", {}).get(ST + "enumValue", mn))
        consts = []
        for nme, b in db.bodies.items():
            if b.kind == "AssocConst" and nme.startswith(DTO + tname + "::"):
                v = db.const_str(nme)
                if v:
                    consts += v
        if consts:
            n += 1
            chk.verdict(vals <= set(consts), "R10", "enum:" + tname, "", "wire values of enum %s missing from its constants: %s" % (tname, sorted(vals - set(consts))[:4]), nontrivial=False)
    chk.stats["string_enums_checked"] = n


def run(chk, db, tier):
    model = load_model()
    enc = ser_impls(db, SER + "SerializeContent")
    dec = {}
    for b in db.grep('"impl_trait":"s3s::xml::de::DeserializeContent"'):
        if b.kind == "AssocFn" and b.impl_trait.startswith(DE + "DeserializeContent") and b.impl_self.startswith(DTO):
            dec[short(b.impl_self)] = b
    chk.rule("R1", "encoder table: per struct member element name, wrapped/flattened list + member name, attribute vs element, timestamp format, optional <=> guarded; every XML-bound member written once")
    chk.rule("R2", "decoder table: tag-match arms (literals reconstructed from the byte tries) -> assigned variable and reader, compared with the model")
    chk.rule("R3", "encoder/decoder symmetry per type: same (element, field) pairs")
    chk.rule("R4", "strictness skeleton: unknown tag -> error; repeated non-flattened member -> DuplicateField; required members -> MissingField")
    chk.rule("R5", "roots and namespaces: operation outputs under the S3 namespace; root decoders through named_element")
    chk.rule("R6", "escaping discipline: text only through the escaping constructor; raw constructors only with literals; no weaker escape; reader text options untouched; String reader unescapes")
    chk.rule("R7", "event pump totality: character-data events produce DeEvents; no uninspected Text is dropped after a leaf's text")
    chk.rule("R8", "nothing after the root: Ok only after expect_eof succeeded")
    chk.rule("R9", "scalar readers: integers full-text parsed; booleans exact literals")
    chk.rule("R10", "string enums: model wire values present among the type's constants")
    et = chk.guard("R1", rule_r1, db, model, enc) or {}
    dt = chk.guard("R2", rule_r2_r4, db, model, dec) or {}
    chk.guard("R3", rule_r3, db, et, dt)
    chk.guard("R5", rule_r5, db, model)
    chk.guard("R6", rule_r6, db)
    chk.guard("R7", rule_r7, db)
    chk.guard("R4", rule_r4_union, db)
    chk.guard("R8", rule_r8, db)
    chk.guard("R9", rule_r9, db)
    chk.guard("R10", rule_r10, db, model, enc, dec)
    # prerequisite for "a decoded timestamp is encoded as the same instant": what the literal-`Z` formats print is in UTC (decided for C14)
    from . import c14
    from ..report import Sub
    sub = Sub(chk, "C14")
    sub.rule("R1", "UTC typestate: a format whose description ends in a literal UTC designator is applied only to values normalised to UTC")
    sub.guard("R1", c14.rule_r1, db)


META = {
    "level": "translation_validation",
    "explanation": "Every generated XML codec impl is compared with the Smithy model: encoder call tables (element names, list wrapping/flattening, "
                   "attributes, timestamp formats, requiredness as guards) and decoder tag-match arms (literals reconstructed from the compiled byte "
                   "tries; assigned variable, reader, duplicate/missing/unknown strictness), encoder/decoder symmetry, roots and namespaces; plus "
                   "who-may-call rules for escaping and reader options, totality of the event pump over character-data events, and end-of-input "
                   "dominance. Totality of quick-xml on arbitrary bytes and decoding by an independent client are not decided.",
    "not_decided": ["termination / panic-freedom of quick-xml on arbitrary bytes", "decoding by an independent client", "Unicode/whitespace value fidelity beyond the escaping/reader-option rules"],
    "assumptions": ["rustc nightly MIR construction", "data/s3.json + data/sts.json are the schema oracle (deviations: Tag.Key/Value, LifecycleExpiration.* optional)",
                    "quick_xml::events::BytesText::new escapes; from_escaped does not"],
}
