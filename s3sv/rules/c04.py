"""C04 - every request gets a response; every error is a well-formed S3 error (DESIGN.md section 3, C04)."""
import json
import os
import re

from .. import guards, common, extract, flow, inline, paths
from ..facts import callee_def, callee_resolved, short
from ..model import load_model
from ..report import AnchorMissing
from ..roles import Roles
from . import c01
from .c03 import status_of_const, status_table

SERIALIZE_ERROR = "s3s::ops::serialize_error"


# ------------------------------------------------------------------------------------------------
# R1 funnel
# ------------------------------------------------------------------------------------------------

def _is_rendered(body, w):
    """the return write hands on the result of serialize_error (directly, or through copies of the local that call's result was stored in)"""
    if w["kind"] == "call":
        return callee_def(w["term"]) == SERIALIZE_ERROR
    if w["kind"] == "use" and "rv" in w and w["rv"]["ops"]:
        ch = flow.resolve_chain(body, w["rv"]["ops"][0]) or []
        if ch:
            srcs = [df for df in body.defs().get(ch[-1][0], []) if df["kind"] != "mutarg"]
            return bool(srcs) and all(df["kind"] == "call" and callee_def(df["term"]) == SERIALIZE_ERROR for df in srcs)
    return False


def funnel_body_ok(db, body, depth=0, seen=None):
    """every error this body can return was rendered: returns list of (body, bi, what) offending return writes"""
    seen = seen if seen is not None else set()
    if body.name in seen or depth > 3:
        return []
    seen.add(body.name)
    bad = []
    for w in flow.return_writes(body):
        if w["kind"] == "Ok":
            continue
        if _is_rendered(body, w):
            continue
        if w["kind"] in ("Err", "residual", "use", "call", "other"):
            op = w["rv"]["ops"][0] if "rv" in w and w["rv"]["ops"] else (w["term"]["args"][0] if "term" in w and w["term"]["args"] else None)
            if w["kind"] == "call":
                # value produced by a call: a workspace helper is checked recursively
                srcs = [(w["bi"], w["term"])]
            else:
                sl = flow.backward(body, op, at=w["bi"]) if op is not None else None
                srcs = [(bi, t) for bi, t, _ in sl.calls if not flow.is_transparent(t)] if sl else []
            if not srcs:
                bad.append((body, w["bi"], "returns an error value that does not come from serialize_error (%s)" % w["kind"]))
                continue
            for bi, t in srcs:
                d = callee_def(t)
                if d == SERIALIZE_ERROR:
                    continue
                hb = db.body(d)
                if hb is not None and d.startswith("s3s::ops::") and "Response" in hb.raw.get("ret", "") + " ".join(x.raw.get("ret", "") for x in db.nested(hb)):
                    inner = max(db.nested(hb), key=lambda x: len(x.blocks))
                    bad += funnel_body_ok(db, inner, depth + 1, seen)
                    continue
                bad.append((body, w["bi"], "`%s` lets the error of %s leave without passing serialize_error" % ("?" if w["kind"] == "residual" else w["kind"], short(d))))
    return bad


def rule_r1(chk, db):
    roles = Roles(db)
    # role: the body that calls both `prepare`-like fn and a virtual Operation::call
    def performs_call(b):
        return any(t["callee"].get("trait") == roles.Operation and short(callee_def(t)) == "call" and t["callee"].get("virtual") for _, t in b.calls())
    direct = [b for b in db.grep("s3s::ops::Operation::call") if b.crate == "s3s" and performs_call(b)]
    # studied with its helper functions (sync or async) inlined, so that splitting ops::call into stages does not hide the funnel
    cands = inline.roots_with(db, direct, performs_call)
    if len(cands) != 1:
        raise AnchorMissing("expected one body performing the virtual Operation::call, found %s" % [b.name for b in cands])
    body = cands[0]
    rw = flow.return_writes(body)
    bad = funnel_body_ok(db, body)
    chk.verdict(not bad, "R1", "ops::call.returns", body.loc(bad[0][1]) if bad else body.loc(),
                "; ".join("%s at %s" % (w, b.loc(bi)) for b, bi, w in bad[:3]), detail={"return_writes": len(rw)})
    chk.floor("R1.returns", len(rw), 2, "return writes of ops::call (a response, a rendered error)")
    # every Err outcome of prepare / Operation::call / the custom-route future reaches serialize_error
    fallible = []
    for bi, t in body.calls():
        d = callee_def(t)
        if d.endswith("::prepare") or (t["callee"].get("trait") == roles.Operation and short(d) == "call"):
            fallible.append((bi, t, short(d)))
    for bi, si, st in body.stmts():
        rv = st["rv"]
        if rv["k"] == "agg" and rv.get("agg") in ("coroutine", "closure"):
            ch = db.body(rv["def"])
            if ch is not None and any(x["callee"].get("trait") == roles.S3Route for _, x in ch.calls()):
                fallible.append((bi, None, "custom-route-future"))
    chk.floor("R1.sources", len(fallible), 2, "fallible sources in ops::call (prepare, Operation::call[, custom route future])")
    for bi, t, nm in fallible:
        if t is not None:
            o = flow.outcomes_of_call(body, bi)
        else:
            o = flow.outcomes_of_local(body, body.blocks[bi]["stmts"][0]["dst"]["l"]) if False else None
            # the coroutine aggregate: follow its local
            for st in body.blocks[bi]["stmts"]:
                if st["rv"]["k"] == "agg" and st["rv"].get("agg") in ("coroutine", "closure"):
                    o = flow.outcomes_of_local(body, st["dst"]["l"])
        errs = o.get("Err", "Break") if o else set()      # `match x { Err(e) => .. }` or `x.map_err(..)?`
        if not errs:
            chk.fail("R1", "funnel:" + nm, body.loc(bi), "cannot find the Err outcome of %s in ops::call" % nm)
            continue
        r = flow.reach_from_edges(body, errs)
        # on the Err side, the only return writes reachable must be serialize_error calls
        bad = [w for w in rw if w["bi"] in r and not _is_rendered(body, w)]
        # writes that are also reachable from the Ok side through shared join blocks do not count: restrict to first write
        firsts = []
        for e in errs:
            seen = set()
            st = [flow.edge_target(body, e)]
            while st:
                x = st.pop()
                if x in seen:
                    continue
                seen.add(x)
                ws = [w for w in rw if w["bi"] == x]
                if ws:
                    firsts += ws
                    continue
                for _, tb in body.succ_edges(x):
                    if not body.blocks[tb]["cleanup"]:
                        st.append(tb)
        bad = [w for w in firsts if not _is_rendered(body, w)]
        chk.verdict(bool(firsts) and not bad, "R1", "funnel:" + nm, body.loc(bi),
                    "an error of %s can leave ops::call without passing serialize_error (%s)" % (nm, [(w["kind"], body.loc(w["bi"])) for w in bad]))
    # S3Service::call: HttpError::new only from the Err arm of ops::call
    he = db.calls_matching(lambda t: callee_def(t).endswith("HttpError::new"), "HttpError::new")
    he = [(b, bi, t) for b, bi, t in he if b.crate == "s3s"]
    chk.floor("R1.httperror", len(he), 1, "HttpError::new sites")
    for b, bi, t in he:
        root = db.root_of(b)
        sl = flow.backward(b, t["args"][0])
        srcs = [callee_def(x) for _, x, _ in sl.calls if not flow.is_transparent(x)]
        if b.kind == "Closure" and sl.params and db.body(b.parent) is not None:
            # `result.map_err(|err| HttpError::new(Box::new(err)))`: the error is whatever the adaptor's receiver carries
            par = db.body(b.parent)
            for _, _, st in par.stmts():
                if st["rv"]["k"] == "agg" and st["rv"].get("def") == b.name and not st["dst"]["proj"]:
                    cl = st["dst"]["l"]
                    for bi2, t2 in par.calls():
                        if short(callee_def(t2)) in ("map_err", "or_else", "unwrap_or_else", "map_or_else") and len(t2["args"]) >= 2 and \
                                any(flow.op_place(a) is not None and flow.op_place(a)["l"] == cl for a in t2["args"][1:]):
                            s2 = flow.backward(par, t2["args"][0], at=bi2)
                            srcs += [callee_def(x) for _, x, _ in s2.calls if not flow.is_transparent(x)]
        ok = any(s.endswith("s3s::ops::call") for s in srcs) and "S3Service" in root.name
        chk.verdict(ok, "R1", "HttpError@" + root.name.replace("s3s::", ""), b.loc(bi),
                    "HttpError (transport-level failure) is built from something other than the renderer's own failure: %s" % srcs[:4])


# ------------------------------------------------------------------------------------------------
# R2 rendering
# ------------------------------------------------------------------------------------------------

def rule_r2(chk, db):
    b = db.body(SERIALIZE_ERROR)
    if b is None:
        raise AnchorMissing("serialize_error not found")
    # status operand <- S3Error::status_code then unwrap_or(INTERNAL_SERVER_ERROR)
    ws = [(bi, t) for bi, t in b.calls() if callee_def(t) == "s3s::http::response::Response::with_status"]
    if len(ws) != 1:
        raise AnchorMissing("serialize_error: %d Response::with_status sites" % len(ws))
    sl = flow.backward(b, ws[0][1]["args"][0])
    defs = sl.call_defs()
    ok = "s3s::error::S3Error::status_code" in defs and any(d.endswith("Option::<T>::unwrap_or") for d in defs)
    dflt = [status_of_const(c) for c in sl.consts if c.get("c") == "item"]
    chk.verdict(ok and dflt == [500], "R2", "status", b.loc(ws[0][0]), "error status must be S3Error::status_code().unwrap_or(500); slice calls %s default %s" % (defs, dflt))
    # headers <- take_headers: whole-map assignment, extend, or per-item append (insert would collapse multi-valued headers)
    hdr = False
    lossy = None
    for bi, si, st in b.stmts():
        if flow.proj_names(flow.norm_proj(st["dst"]["proj"])) == ["headers"]:
            s2 = flow.backward(b, st["rv"]["ops"][0], at=bi)
            if "s3s::error::S3Error::take_headers" in s2.call_defs():
                hdr = True
    for bi, t in b.calls():
        d = callee_def(t)
        if d.endswith("HeaderMap::<T>::extend") or d == "core::iter::traits::collect::Extend::extend" or d.endswith("HeaderMap::<T>::append") or d.endswith("HeaderMap::<T>::insert"):
            recv = flow.resolve_chain(b, t["args"][0]) or []
            if not any(flow.proj_names(pr)[:1] == ["headers"] for _, pr in recv):
                continue
            s2 = flow.backward(b, t["args"][-1], at=bi)
            if "s3s::error::S3Error::take_headers" in s2.call_defs():
                if d.endswith("::insert"):
                    lossy = bi
                else:
                    hdr = True
    chk.verdict(hdr and lossy is None, "R2", "headers", b.loc(lossy) if lossy is not None else b.loc(),
                "the error's headers do not all reach the response" + (" (copied with HeaderMap::insert: multi-valued headers collapse to one value)" if lossy is not None else " (res.headers <- take_headers())"))
    # body <- set_xml_body(res, &e) / no_decl variant selected by the flag
    setters = {short(callee_def(t)): bi for bi, t in b.calls() if callee_def(t).startswith("s3s::http::ser::set_xml_body")}
    # (the setter pair may be one function taking the declaration mode; which mode is used when is decided by C03.R4)
    chk.verdict(bool(setters) and all(x.startswith("set_xml_body") for x in setters), "R2", "body", b.loc(),
                "serialize_error must render the error document through the XML body setters of http::ser (found %s)" % sorted(setters))
    # S3Error::status_code: explicit override first, table second
    sc = db.body("s3s::error::S3Error::status_code")
    if sc is None:
        raise AnchorMissing("S3Error::status_code not found")
    ok = False
    for bi, t in sc.calls():
        d = callee_def(t)
        if d.endswith("Option::<T>::or_else") or d.endswith("Option::<T>::or"):
            r = flow.resolve_place(sc, t["args"][0])
            recv_field = flow.proj_names(r[1]) if r else []
            ok = recv_field[-1:] == ["status_code"]
            # the alternative must be the code table
            alt = False
            for ch in db.nested(sc):
                if any(callee_def(x) == "s3s::error::generated::S3ErrorCode::status_code" for _, x in ch.calls()):
                    alt = True
            ok = ok and alt
    chk.verdict(ok, "R2", "override-precedence", sc.loc(), "S3Error::status_code must be `explicit override, else the code table`")
    # XML: element names {Code, Message, RequestId} each fed by the same-named field; root Error
    sc2 = [x for x in db.grep("SerializeContent") if x.impl_self == "s3s::error::S3Error" and x.impl_trait == "s3s::xml::ser::SerializeContent"]
    if len(sc2) != 1:
        raise AnchorMissing("impl SerializeContent for S3Error: %d bodies" % len(sc2))
    x = sc2[0]
    seen = {}
    for bi, t in x.calls():
        d = callee_def(t)
        if d.startswith("s3s::xml::ser::Serializer"):
            lits = paths.str_args(x, t)
            if lits:
                sl = flow.backward(x, t["args"][2]) if len(t["args"]) > 2 else None
                srcs = sl.call_defs() if sl else []
                names = set()
                for l, pr in (sl.params if sl else []):
                    names |= set(flow.proj_names(pr))
                seen[lits[0]] = (srcs, names, bi)
    want = {"Code": ("as_str", "code"), "Message": ("message", "message"), "RequestId": ("request_id", "request_id")}
    for el, (acc, fld) in want.items():
        s = seen.get(el)
        ok = s is not None and (any(short(d) == acc for d in s[0]) or fld in s[1])
        chk.verdict(ok, "R2", "xml." + el, x.loc(s[2]) if s else x.loc(), "error document element <%s> is not fed by the error's %s" % (el, fld))
    for el in sorted(set(seen) - set(want)):
        chk.advisory("error document has extra element <%s>" % el)
    roots = [y for y in db.grep("xml::ser::Serialize") if y.impl_self == "s3s::error::S3Error" and y.impl_trait == "s3s::xml::ser::Serialize"]
    lits = [l for y in roots for _, t in y.calls() for l in paths.str_args(y, t)]
    chk.verdict(lits[:1] == ["Error"], "R2", "xml.root", roots[0].loc() if roots else "", "error document root must be <Error>, found %s" % lits)


# ------------------------------------------------------------------------------------------------
# R3 tables
# ------------------------------------------------------------------------------------------------

def doc_error_table(model):
    """(code -> [status or None...]) from the documentation of com.amazonaws.s3#Error$Code"""
    doc = model.shapes["com.amazonaws.s3#Error"]["members"]["Code"]["traits"]["smithy.api#documentation"]
    txt = re.sub(r"\s+", " ", doc)
    out = {}
    # one <ul> block per error entry: the first `Code:` label names the code; a later `Code:` label inside the same block is a
    # mislabelled line (a status for BucketAlreadyOwnedByYou, "N/A" for one InvalidRequest entry)
    for blk in re.split(r"<ul>", txt):
        labels = re.findall(r"<i>([^<]+?):</i>\s*([^<]*?)\s*<", blk)
        if not labels or labels[0][0] != "Code":
            continue
        code = labels[0][1].strip()
        st = None
        for lab, val in labels[1:]:
            val = val.strip()
            if lab == "HTTP Status Code" and re.match(r"^\d{3}", val):
                st = int(val[:3])
            elif lab == "Code" and re.match(r"^\d{3} ", val) and st is None:
                st = int(val[:3])
        out.setdefault(code, []).append(st)
    return out


def json_error_table():
    with open(os.path.join(extract.REPO, "data", "s3_error_codes.json")) as fh:
        d = json.load(fh)
    out = {}
    for grp in d.values():
        for e in grp:
            out.setdefault(e["code"], []).append(e.get("http_status_code"))
    return out


def enum_arm_table(body, enum_suffix):
    """variant -> leaf for a `match self { V => .. }` body: PATHS with the enum-tag atom"""
    def atom(b, bi, t):
        src = paths.switch_source(b, t)
        if src and src[0] == "discr" and src[1]["enum"].endswith(enum_suffix):
            return ("v",), paths.discr_values(t, src[1])
        raise AnchorMissing("%s: switch at %s is not on the enum tag" % (b.name, b.loc(bi)))

    def leaf(b, bi):
        for st in b.blocks[bi]["stmts"]:
            if st["dst"]["l"] == 0 and not st["dst"]["proj"]:
                return (bi, st["rv"])
        return None
    out = {}
    for p in paths.enumerate_paths(body, atom, leaf):
        vs = [v for a, v in p.conds if a == ("v",)]
        if len(vs) != 1:
            raise AnchorMissing("%s: path with %d tag tests" % (body.name, len(vs)))
        out[vs[0]] = p.leaf
    return out


def rule_r3(chk, db, model):
    E = "s3s::error::generated::S3ErrorCode"
    adt = db.adts.get(E)
    if adt is None:
        raise AnchorMissing("S3ErrorCode ADT not found")
    variants = [v["n"] for v in adt["variants"]]
    doc = doc_error_table(model)
    js = json_error_table()
    sc = db.body(E + "::status_code")
    arms = enum_arm_table(sc, "S3ErrorCode")
    n = 0
    for v in variants:
        leaf = arms.get(v)
        if leaf is None:
            chk.fail("R3", "status:" + v, sc.loc(), "no arm for variant %s in status_code()" % v)
            continue
        bi, rv = leaf
        got = "?"
        if rv["k"] == "agg" and rv.get("adt") == "core::option::Option":
            if rv["variant"] == "None":
                got = None
            else:
                got = status_of_const(flow.const_of(sc, rv["ops"][0]))
        if v == "Custom":
            chk.verdict(got is None, "R3", "status:Custom", sc.loc(bi), "Custom codes must have no table status (got %s)" % got, nontrivial=False)
            continue
        n += 1
        if v in doc:
            sts = set(doc[v])
            if len(sts) > 1:
                chk.advisory("error code %s is documented with several statuses %s" % (v, sorted(map(str, sts))))
            want = sorted(sts, key=str)[0] if len(sts) == 1 else (400 if sts == {400} else list(sts)[0])
            src = "s3.json doc"
        elif v in js:
            sts = set(js[v])
            want = list(sts)[0]
            src = "s3_error_codes.json"
        else:
            chk.fail("R3", "status:" + v, sc.loc(bi), "variant %s occurs in neither error table" % v)
            continue
        if v in doc and v in js and set(js[v]) != set(doc[v]):
            chk.advisory("cross-source conflict for %s: doc %s vs json %s (doc wins, as documented in the repo)" % (v, doc[v], js[v]))
        chk.verdict(got == want, "R3", "status:" + v, sc.loc(bi), "status_code(%s) = %s, the %s says %s" % (v, got, src, want))
        if len(chk.samples) < 6 and v in ("NoSuchKey", "SlowDown"):
            chk.sample({"rule": "C04.R3", "code": v, "table": want, "source": src, "arm": got})
    chk.floor("R3.status", n, 230, "status arms compared with the data files")
    # codes in the tables without a variant
    for c in sorted(set(doc) | set(js)):
        if c not in variants and "." not in c and not re.match(r"^\d{3} ", c):
            chk.fail("R3", "missing-variant:" + c, sc.loc(), "error code %s of the data files has no S3ErrorCode variant" % c)
    # as_enum_tag / STATIC_CODE_LIST / from_bytes
    tagb = db.body(E + "::as_enum_tag")
    lst = db.const_str(E + "::STATIC_CODE_LIST")
    fb = db.body(E + "::from_bytes")
    if tagb is None or lst is None or fb is None:
        raise AnchorMissing("as_enum_tag / STATIC_CODE_LIST / from_bytes not all found")
    tags = enum_arm_table(tagb, "S3ErrorCode")
    r = paths.byte_match_arms(fb, 0)
    if r is None:
        raise AnchorMissing("from_bytes is not a byte-string match")
    arms_fb, defaults = r
    lit_to_variant = {}
    for lit, leaf in arms_fb:
        # leaf block builds Some(Self::V)
        var = None
        seen = set()
        st = [leaf]
        while st and var is None:
            x = st.pop()
            if x in seen:
                continue
            seen.add(x)
            for s in fb.blocks[x]["stmts"]:
                if s["rv"]["k"] == "agg" and s["rv"].get("adt") == E:
                    var = s["rv"]["variant"]
            if var is None and fb.blocks[x]["term"]["k"] == "goto":
                st.append(fb.blocks[x]["term"]["t"])
        lit_to_variant[lit.decode("latin1")] = var
    m = 0
    for v in variants:
        if v == "Custom":
            continue
        m += 1
        leaf = tags.get(v)
        idx = None
        if leaf:
            c = flow.const_of(tagb, leaf[1]["ops"][0]) if leaf[1]["k"] == "use" else None
            idx = int(c["v"]) if c and c.get("c") == "int" else None
        s = lst[idx] if idx is not None and idx < len(lst) else None
        chk.verdict(s == v, "R3", "string:" + v, tagb.loc(leaf[0]) if leaf else tagb.loc(), "STATIC_CODE_LIST[as_enum_tag(%s)] = %r" % (v, s), nontrivial=False)
        chk.verdict(lit_to_variant.get(v) == v, "R3", "parse:" + v, fb.loc(), "from_bytes(b\"%s\") = %s" % (v, lit_to_variant.get(v)), nontrivial=False)
    for lit, var in sorted(lit_to_variant.items()):
        if lit not in variants:
            chk.fail("R3", "parse:+" + lit, fb.loc(), "from_bytes recognises %r which is not a variant name" % lit)
    chk.floor("R3.strings", m, 230, "code<->string rows")
    chk.stats["status_rows"] = n


# ------------------------------------------------------------------------------------------------
# R4 typestate router <-> deserialiser
# ------------------------------------------------------------------------------------------------

def rule_r4(chk, db, model):
    router = c01.find_router(db)
    plist = paths.enumerate_paths(router, c01.router_atom, c01.router_leaf)
    seen = {}
    for p in plist:
        if not p.leaf or p.leaf[0] != "Ok":
            continue
        kind = dict((a[0], v) for a, v in p.conds if a[0] == "path").get("path")
        seen.setdefault(p.leaf[1], set()).add((kind, p.leaf[2]))
    n = 0
    for op, ks in sorted(seen.items()):
        body = db.body("s3s::ops::generated::%s::deserialize_http" % op)
        if body is None:
            chk.fail("R4", op, "", "no deserialize_http")
            continue
        n += 1
        calls = {short(callee_def(t)) for _, t in body.calls() if callee_def(t).startswith("s3s::http::de::")}
        kinds = {k for k, _ in ks}
        flags = {f for _, f in ks}
        need_obj = "unwrap_object" in calls
        need_bkt = "unwrap_bucket" in calls
        ok = True
        what = ""
        if need_obj and kinds != {"Object"}:
            ok, what = False, "deserialize_http calls unwrap_object (panics on other paths) but the router resolves %s under path kinds %s" % (op, sorted(map(str, kinds)))
        if need_bkt and kinds != {"Bucket"}:
            ok, what = False, "deserialize_http calls unwrap_bucket (panics on other paths) but the router resolves %s under path kinds %s" % (op, sorted(map(str, kinds)))
        chk.verdict(ok, "R4", op + ".path", body.loc(), what)
        takes = calls & {"take_xml_body", "take_opt_xml_body", "take_string_body"}
        ok = not takes or flags == {True}
        chk.verdict(ok, "R4", op + ".body", body.loc(),
                    "deserialize_http calls %s (expects a buffered body) but the router returns needs_full_body=%s" % (sorted(takes), sorted(flags)))
        # the converse keeps large uploads streaming: a stream-taking op must not be buffered
        if "take_stream_body" in calls:
            chk.verdict(flags == {False}, "R4", op + ".stream", body.loc(), "streaming operation %s is resolved with needs_full_body=true" % op, nontrivial=False)
    chk.floor("R4", n, 96, "operations cross-checked between router and deserialiser")
    # the POST-form branch: PutObject::deserialize_http_multipart expects vec_stream: prepare must store it on that path
    prep_cs = db.callers_of(router.name)
    prep = [b for b, _, _ in prep_cs if b.crate == "s3s"][0]
    store = []
    for bi, si, st in prep.stmts():
        if flow.proj_names(flow.norm_proj(st["dst"]["proj"]))[-1:] == ["vec_stream"]:
            store.append(bi)
    pre = []
    for bi, si, st in prep.stmts():
        rv = st["rv"]
        if rv["k"] == "agg" and rv.get("agg") == "tuple" and len(rv["ops"]) == 2:
            o = c01.op_of_operand(prep, rv["ops"][0])
            if o and o.endswith("::PutObject"):
                pre.append(bi)
    if pre:
        ok = bool(store) and all(not (p in flow.reach(prep, [0], stop_blocks=frozenset(store))) for p in pre)
        chk.verdict(ok, "R4", "PutObject[form].vec_stream", prep.loc(pre[0]), "the POST-form pre-emption is reachable without storing s3ext.vec_stream (deserialize_http_multipart would panic)")
        mp = db.body("s3s::ops::generated::PutObject::deserialize_http_multipart")
        mcalls = {short(callee_def(t)) for _, t in mp.calls() if callee_def(t).startswith("s3s::http::de::")} if mp is not None else set()
        for fn, want in (("unwrap_bucket", "Bucket"), ("unwrap_object", "Object")):
            if fn in mcalls:
                okp = all(any(v == frozenset([want]) for v in guards.enum_fact(guards.dominating_facts(prep, p), "S3Path")) for p in pre)
                chk.verdict(okp, "R4", "PutObject[form].path", prep.loc(pre[0]),
                            "deserialize_http_multipart calls %s but the POST-form pre-emption in prepare is not confined to S3Path::%s" % (fn, want))


def run(chk, db, tier):
    model = load_model()
    chk.rule("R1", "funnel: every error of prepare / Operation::call / custom route reaches serialize_error; HttpError only from the renderer's own failure")
    chk.rule("R2", "rendering: status = override else table else 500; headers from the error; document <Error> with Code/Message/RequestId fed by the same-named fields")
    chk.rule("R3", "tables: status_code arms == data files; STATIC_CODE_LIST / as_enum_tag / from_bytes agree for every variant")
    chk.rule("R4", "typestate: unwrap_object/unwrap_bucket/take_*_body are called only by operations the router resolves with the matching path kind / needs_full_body")
    chk.guard("R1", rule_r1, db)
    chk.guard("R2", rule_r2, db)
    chk.guard("R3", rule_r3, db, model)
    chk.guard("R4", rule_r4, db, model)
    from . import c04_panics
    chk.rule("R5", "explicit panic constructs reachable from S3Service::call are each discharged by a local proof rule or listed in the reviewed table oracles/panic_sites.json")
    chk.guard("R5", c04_panics.rule_r5, db, tier)
    # prerequisite for "a well-formed error document": an ordinary error starts with the XML declaration, the late error of the keep-alive
    # response (whose declaration was already sent) does not repeat it (decided for C03)
    from ..report import Sub
    sub = Sub(chk, "C03", only=lambda k: k.startswith("error-decl") or k.startswith("late-error"))
    sub.rule("R4", "error documents: declaration exactly once (ordinary errors with it, the keep-alive response's late error without)")
    def _c03_r4(c, db_):
        from . import c03
        from .c01 import operation_impls
        return c03.rule_r4(c, db_, model, operation_impls(db_))
    sub.guard("R4", _c03_r4, db)


META = {
    "level": "other",
    "explanation": "Decides (a) the error funnel: no S3Error leaves ops::call un-rendered and HttpError arises only from the renderer; "
                   "(b) the rendering dataflow (status precedence, headers, document fields); (c) the code->status table against the data "
                   "files and the code<->string tables against each other, exhaustively; (d) the router/deserialiser typestate behind the "
                   "panics in http::de; (e) an inventory of explicit panic constructs reachable from S3Service::call, each discharged by a "
                   "local dominance rule or a reviewed table entry. Does not decide panics inside dependencies or resource exhaustion.",
    "not_decided": ["panics inside dependencies (Bytes::split_to, nom, httparse, quick-xml, hyper Uri)", "allocation failure, stack depth on nested XML"],
    "assumptions": ["rustc nightly MIR construction", "data/s3.json Error$Code documentation then data/s3_error_codes.json as the status oracle",
                    "oracles/panic_sites.json is a human review of each listed site"],
}
