"""Shared facts for the file-system backend rules (C17 / C18 / C19)."""
from .. import flow, inline
from ..facts import callee_def, short
from ..report import AnchorMissing

FS = "s3s_fs::fs::FileSystem"

# fs effect API: callee-def prefix -> indices of path operands
MUTATING = ("create_dir", "create_dir_all", "remove_dir", "remove_dir_all", "remove_file", "rename", "copy", "write", "create", "set_permissions",
            "hard_link", "symlink", "create_new")


def effect_path_args(t):
    """indices of the path operands if the call is a file-system effect, else None"""
    d = callee_def(t)
    if d.startswith("tokio::fs::") or d.startswith("std::fs::"):
        nm = short(d)
        if "::File::" in d or "::file::File::" in d:
            if nm in ("open", "create", "create_new"):
                return [0]
            return None     # reads/writes through an already opened handle
        if "OpenOptions" in d:
            return [1] if nm == "open" else None
        if "DirEntry" in d or "ReadDir" in d or "Metadata" in d or "FileType" in d or "DirBuilder" in d:
            return None
        if nm in ("rename", "copy", "hard_link", "symlink"):
            return [0, 1]
        if nm in ("read_dir", "read", "read_to_string", "write", "metadata", "symlink_metadata", "create_dir", "create_dir_all", "remove_dir", "remove_dir_all",
                  "remove_file", "canonicalize", "read_link", "set_permissions", "try_exists"):
            return [0]
        return None
    if d.startswith("std::path::Path::"):
        nm = short(d)
        if nm in ("exists", "is_dir", "is_file", "is_symlink", "metadata", "symlink_metadata", "read_dir", "canonicalize", "try_exists", "read_link"):
            return [0]
    return None


def is_mutating(t):
    return short(callee_def(t)) in MUTATING


_FS_VIEW = {}
_FS_SETS = {}


def _raw_fs_bodies(db):
    return [b for b in db.bodies.values() if b.crate == "s3s_fs" and b.kind in ("Fn", "AssocFn", "Closure")]


def fs_policy(db, caller, term, callee):
    """what the file-system rules inline: a *parametric* confinement helper (`fn resolve_within(base, path)`: confines to whatever base its caller
    passes - judged at the caller) and ordinary private helpers; a function that confines to the root or to a confined directory by itself
    is a role (the confinement function family) and stays a call"""
    if callee is None or callee.crate != "s3s_fs":
        return False
    anchored, parametric = _FS_SETS.get(db.dir, (set(), set()))
    if callee.name in parametric:
        return callee.kind in ("Fn", "AssocFn") and not callee.raw.get("coroutine") and len(callee.blocks) <= inline.MAX_BLOCKS
    if callee.name in anchored:
        return False
    return inline.default_policy(db, caller, term, callee)


def fs_bodies(db):
    """the bodies of the file-system backend as the rules study them (helpers inlined by fs_policy; a helper that is inlined everywhere it is
    used is not studied on its own)"""
    if db.dir in _FS_VIEW:
        return _FS_VIEW[db.dir]
    raw = _raw_fs_bodies(db)
    # the confinement function family on the code as written
    fam = {}
    cands = [b for b in raw if b.kind != "Closure" and "PathBuf" in b.raw.get("ret", "")]
    for b in cands:
        if any(callee_def(t).endswith("Absolutize::absolutize_virtually") for _, t in b.calls()):
            fam[b.name] = b
    parametric = set()
    for n, b in fam.items():
        par = True
        for bi, t in b.calls():
            if callee_def(t).endswith("Absolutize::absolutize_virtually"):
                sl = flow.backward(b, t["args"][1], at=bi)
                if ("FileSystem", "root") in sl.fields or not sl.params or [1 for _, c, _ in sl.calls if not flow.is_transparent(c) and short(callee_def(c)) not in ("as_ref", "as_path", "borrow", "deref")]:
                    par = False
        if par and not b.raw.get("impl_trait") and b.name not in db.reachable_fns:
            parametric.add(n)
    anchored = set(fam) - parametric
    # functions that hand out a path obtained from an anchored one are roles too (transitively)
    changed = True
    while changed:
        changed = False
        for b in cands:
            if b.name in anchored or b.name in parametric:
                continue
            if any(callee_def(t) in anchored or callee_def(t) in parametric for _, t in b.calls()):
                anchored.add(b.name)
                changed = True
    _FS_SETS.clear()
    _FS_SETS[db.dir] = (anchored, parametric)
    inl = {b.name: inline.inlined(db, b, fs_policy) for b in raw}
    helpers = set()
    for ib in inl.values():
        for h in getattr(ib, "inlined_from", []):
            helpers.add(h)
            hb = db.bodies.get(h)
            if hb is not None and hb.kind == "Closure":
                helpers.add(hb.parent)
    out = [ib for n, ib in inl.items() if n not in helpers]
    _FS_VIEW.clear()
    _FS_VIEW[db.dir] = out
    return out


def effects(db):
    out = []
    for b in fs_bodies(db):
        if "fs::" not in b.text and "path::Path" not in b.text:
            continue
        for bi, t in b.calls():
            idx = effect_path_args(t)
            if idx:
                out.append((b, bi, t, idx))
    return out


def confining_fns(db):
    """workspace fns returning a path whose every Ok value derives from Absolutize::absolutize_virtually (directly or through another
    confining fn).  Returns {fn name: body}"""
    conf = {}
    cands = [b for b in fs_bodies(db) if b.kind != "Closure" and "PathBuf" in b.raw.get("ret", "")]
    base = None
    for b in cands:
        if any(callee_def(t).endswith("Absolutize::absolutize_virtually") for _, t in b.calls()):
            conf[b.name] = b
    changed = True
    while changed:
        changed = False
        for b in cands:
            if b.name in conf:
                continue
            oks = [w for w in flow.return_writes(b) if w["kind"] in ("Ok", "call", "use")]
            if not oks:
                continue
            good = True
            for w in oks:
                if w["kind"] == "call":
                    good = good and callee_def(w["term"]) in conf
                else:
                    sl = flow.backward(b, w["rv"]["ops"][0], at=w["bi"], stop=lambda t: callee_def(t) in conf)
                    good = good and any(callee_def(t) in conf for _, t, _ in sl.calls)
            if good:
                conf[b.name] = b
                changed = True
    if not conf:
        raise AnchorMissing("no confining function (absolutize_virtually) found in s3s-fs")
    return conf


REQUEST_ADT_PREFIX = ("s3s::dto::", "s3s::protocol::")


def _writer_adts(db):
    """the temp-file writer and, where the temp file lives in a type of its own, its guard: their path fields are confined by construction
    (checked at the construction sites, C17.R1 `FileWriter.*`)"""
    tg = temp_guard(db)
    return ("FileWriter", tg[0]) if tg else ("FileWriter",)


def classify_path(db, body, op, at, conf):
    """slice a path operand back to its sources, stopping at confining calls.
    returns dict: conf_calls, root_field, filewriter_fields, request_fields, params, other_calls"""
    sl = flow.backward(body, op, at=at, stop=lambda t: callee_def(t) in conf)
    res = {"conf": [], "root": False, "fw": set(), "request": set(), "params": [], "calls": [], "slice": sl}
    for bi, t, _ in sl.calls:
        d = callee_def(t)
        if d in conf:
            res["conf"].append((bi, d))
        else:
            res["calls"].append(d)
            # accessor of a FileWriter field (`fn dest_path(&self) -> &Path { self.dest_path }`)
            ab = db.body(d)
            if ab is not None and ab.crate == "s3s_fs" and len(ab.blocks) <= 4:
                for w in flow.return_writes(ab):
                    if "rv" in w and w["rv"]["ops"]:
                        s2 = flow.backward(ab, w["rv"]["ops"][0], at=w["bi"])
                        for a, f in s2.fields_full:
                            if a.startswith("s3s_fs::") and a.rsplit("::", 1)[-1] in _writer_adts(db):
                                res["fw"].add(f)
    for a, f in sl.fields_full:
        sa = a.rsplit("::", 1)[-1]
        if a == FS and f == "root":
            res["root"] = True
        elif a.startswith("s3s_fs::") and sa in _writer_adts(db):
            res["fw"].add(f)
        elif a.startswith(REQUEST_ADT_PREFIX):
            res["request"].add((sa, f))
    res["params"] = [(l, pr) for l, pr in sl.params]
    return res


_GUARD = {}


def temp_guard(db):
    """the temp-file guard of the backend, by role: (short name of the ADT whose Drop impl removes a file, the field that holds that file's
    path, [Drop bodies]).  On the pinned tree this is FileWriter.tmp_path; a refactor may move the temp file into a type of its own."""
    if db.dir in _GUARD:
        return _GUARD[db.dir]
    res = None
    for b in fs_bodies(db):
        if b.impl_trait != "core::ops::drop::Drop":
            continue
        for bi, t in b.calls():
            if short(callee_def(t)) != "remove_file" or not t["args"]:
                continue
            sl = flow.backward(b, t["args"][0], at=bi)
            own = b.impl_self.split("<")[0].rsplit("::", 1)[-1]
            fs_ = sorted(f for a, f in sl.fields if a == own)
            if len(fs_) == 1:
                res = (own, fs_[0], [x for x in fs_bodies(db) if x.impl_trait == "core::ops::drop::Drop" and x.impl_self == b.impl_self])
    _GUARD.clear()
    _GUARD[db.dir] = res
    return res
