"""C06 - SigV4 presigned URLs (DESIGN.md section 3, C06)."""
from .. import cmpnorm, flow, guards, paths, inline
from ..facts import callee_def, short
from ..report import AnchorMissing
from . import sigcore, sigwrites
from .sigcore import first_writes_from, is_err_write

PARSE = "s3s::sig_v4::presigned_url_v4::"


def has_call(sl, suffix):
    return any(callee_def(t).endswith(suffix) for _, t, _ in sl.calls)


INEXACT = ("unwrap_or", "unwrap_or_default", "unwrap_or_else", "min", "max", "clamp", "rem_euclid", "abs_diff")


def _inexact_conversions(body, sl):
    """defaulting / saturating / wrapping / clamping steps and narrowing `as` casts in the slice of a compared quantity"""
    out = []
    for _, t, _ in sl.calls:
        n = short(callee_def(t))
        if n in INEXACT or n.startswith(("saturating_", "wrapping_", "overflowing_")):
            out.append(n)
    order = {"i8": 8, "u8": 8, "i16": 16, "u16": 16, "i32": 32, "u32": 32, "i64": 64, "u64": 64, "isize": 64, "usize": 64, "i128": 128, "u128": 128}
    for l in sl.locals:
        for df in body.defs().get(l, []):
            if df["kind"] == "assign" and df["rv"]["k"] == "cast" and "IntToInt" in df["rv"].get("ck", ""):
                src = flow.op_place(df["rv"]["ops"][0])
                sty = body.locals[src["l"]] if src is not None and not src["proj"] and src["l"] < len(body.locals) else None
                dty = df["rv"].get("ty") or (body.locals[l] if l < len(body.locals) else None)
                if sty in order and dty in order and order[dty] < order[sty]:
                    out.append("`as %s`" % dty)
    return out


def rule_r1(chk, db, v):
    body = v.body
    cmps = cmpnorm.ordered_comparisons(body)

    def is_elapsed(sl):
        return has_call(sl, "OffsetDateTime::now_utc") and (("PresignedUrlV4", "amz_date") in sl.fields or has_call(sl, "AmzDate::to_time"))

    def is_expires(sl):
        # exactly the parsed X-Amz-Expires value: no arithmetic on it (e.g. `expires + skew` would widen the window)
        arith = [callee_def(t) for _, t, _ in sl.calls if not flow.is_transparent(t)]
        return ("PresignedUrlV4", "expires") in sl.fields and not has_call(sl, "OffsetDateTime::now_utc") and not arith
    found = False
    for c in cmps:
        r = c.oriented2(lambda sl: is_elapsed(sl) and ("PresignedUrlV4", "expires") not in sl.fields, "PresignedUrlV4", "expires")
        if r is None:
            continue
        rel, te, fe = r
        acc_edges = cmpnorm.accept_side(rel, te, fe, "<=")
        rej_edges = fe if acc_edges is te else te
        found = True
        chk.verdict(bool(acc_edges) and flow.must_pass(body, v.acc, acc_edges), "R1", "expiry", body.loc(c.bi),
                    "acceptance is not dominated by the `elapsed <= X-Amz-Expires` outcome (test is `elapsed %s expires`)" % rel)
        fw = first_writes_from(body, rej_edges)
        chk.verdict(bool(fw) and all(is_err_write(w) for w in fw), "R1", "expired-is-error", body.loc(c.bi), "an expired URL does not end in an error return")
        # the elapsed time enters the comparison exactly: a conversion that substitutes a default / saturates / wraps when the value does not
        # fit (`u32::try_from(secs).unwrap_or(0)`, `as u32`, `min`) makes a very old (or far-future) date compare as fresh
        side = "l" if is_elapsed(c.sl("l")) and ("PresignedUrlV4", "expires") not in c.sl("l").fields else "r"
        inexact = _inexact_conversions(body, c.sl(side))
        chk.verdict(not inexact, "R1", "expiry-exact-elapsed", body.loc(c.bi),
                    "the time elapsed since X-Amz-Date passes %s before it is compared with X-Amz-Expires: where the value does not fit, the substitute "
                    "makes an expired URL compare as valid" % sorted(set(inexact)))
    if not found:
        chk.fail("R1", "expiry", body.loc(), "no comparison between the time elapsed since X-Amz-Date and (exactly) X-Amz-Expires guards acceptance")
    # skew: |elapsed| <= 900 s for future-dated requests
    def is_abs(sl):
        return has_call(sl, "Duration::abs") and has_call(sl, "OffsetDateTime::now_utc")

    def is_limit(sl):
        return has_call(sl, "Duration::seconds") or has_call(sl, "Duration::minutes")
    skew = False
    for c in cmps:
        r = c.oriented(is_abs, is_limit)
        if r is None:
            continue
        rel, te, fe = r
        within = cmpnorm.accept_side(rel, te, fe, "<=")
        # the limit constant
        lim = c.sl("r") if is_limit(c.sl("r")) else c.sl("l")
        secs = None
        for _, t, _ in lim.calls:
            if callee_def(t).endswith("Duration::seconds"):
                secs = flow.const_int_eval(body, t["args"][0])
            elif callee_def(t).endswith("Duration::minutes"):
                k = flow.const_int_eval(body, t["args"][0])
                secs = k * 60 if k is not None else None
        # accept: not negative OR within skew
        neg_false = set()
        for bi, t in body.calls():
            if callee_def(t).endswith("Duration::is_negative"):
                neg_false |= flow.outcomes_of_call(body, bi).get("false")
        skew = True
        chk.verdict(flow.must_pass(body, v.acc, within | neg_false) and bool(neg_false), "R1", "skew", body.loc(c.bi),
                    "a future-dated URL beyond the allowed clock skew can be accepted")
        chk.verdict(secs == 900, "R1", "skew-constant", body.loc(c.bi), "allowed clock skew is %s s (documented: 15 minutes)" % secs, nontrivial=False)
    if not skew:
        chk.fail("R1", "skew", body.loc(), "no clock-skew bound for future-dated presigned URLs")
    # to_time() None -> Err
    tt = [(bi, t) for bi, t in body.calls() if callee_def(t).endswith("AmzDate::to_time")]
    for bi, t in tt:
        o = flow.outcomes_of_call(body, bi)
        cont = o.get("Continue") | o.get("Some")
        chk.verdict(bool(cont) and flow.must_pass(body, v.acc, cont), "R1", "date-valid", body.loc(bi), "acceptance possible although X-Amz-Date is not a valid time", nontrivial=False)


FIELDS = {"algorithm": "X-Amz-Algorithm", "credential": "X-Amz-Credential", "date": "X-Amz-Date", "expires": "X-Amz-Expires",
          "signed_headers": "X-Amz-SignedHeaders", "signature": "X-Amz-Signature"}


def rule_r2(chk, db):
    """every X-Amz-* parameter is taken with get_unique under its literal name and reaches the same-named field of PresignedUrlV4 (through
    whatever intermediate struct / helper the parser uses: the parser is studied with its helpers inlined)"""
    p = inline.inlined(db, db.body(PARSE + "PresignedUrlV4::<'a>::parse"))
    if p is None:
        raise AnchorMissing("PresignedUrlV4::parse not found")
    want = {"algorithm": ("algorithm", None), "credential": ("credential", "CredentialV4::<'a>::parse"), "amz_date": ("date", "AmzDate::parse"),
            "expires": ("expires", "parse_expires"), "signed_headers": ("signed_headers", None), "signature": ("signature", None)}
    n = 0
    for bi, si, st in p.stmts():
        rv = st["rv"]
        if rv["k"] == "agg" and rv.get("adt", "").endswith("::PresignedUrlV4"):
            for f, o in zip(rv["fields"], rv["ops"]):
                if f not in want:
                    chk.fail("R2", "parse." + f, p.loc(bi), "PresignedUrlV4 has a field %s the specification table does not know" % f)
                    continue
                src, via = want[f]
                n += 1
                sl = flow.backward(p, o, at=bi)
                gu = [(cb, t) for cb, t, _ in sl.calls if callee_def(t).endswith("OrderedQs::get_unique")]
                lits = [paths.str_args(p, t) for _, t in gu]
                chk.verdict(len(gu) == 1 and lits == [[FIELDS[src]]], "R2", "qs." + src, p.loc(bi),
                            "PresignedUrlV4.%s is read by get_unique%s (expected exactly one get_unique(%r): duplicates must fail)" % (f, lits, FIELDS[src]))
                ok = True
                if via:
                    ok = any(callee_def(t).endswith(via) for _, t, _ in sl.calls)
                chk.verdict(ok, "R2", "parse." + f, p.loc(bi), "PresignedUrlV4.%s is not derived from the %s parameter%s" % (f, FIELDS[src], " via " + via if via else ""))
            # signature shape check dominates
            f2 = guards.dominating_facts(p, bi)
            chk.verdict(any(x[0] == "call" and x[1].endswith("is_sha256_checksum") and x[2] is True for x in f2), "R2", "parse.signature-shape", p.loc(bi),
                        "X-Amz-Signature is accepted without the 64-hex-digit shape check", nontrivial=False)
    chk.floor("R2", n, 6, "PresignedUrlV4 fields traced to their query parameters")


def rule_r4(chk, db):
    b = db.body(PARSE + "parse_expires")
    if b is None:
        raise AnchorMissing("parse_expires not found")
    calls = [callee_def(t) for _, t in b.calls()]
    full = any(c == "core::str::<impl str>::parse" for c in calls)
    filt = [t for _, t in b.calls() if callee_def(t).endswith("Option::<T>::filter")]
    pos = False
    for x in db.nested(b, include_self=False):
        for bi, si, st in x.stmts():
            rv = st["rv"]
            if rv["k"] == "bin" and rv["op"] in ("Gt", "Ne", "Ge"):
                cs = [int(o["v"]) for o in rv["ops"] if isinstance(o, dict) and o.get("c") == "int"]
                if (rv["op"] in ("Gt", "Ne") and cs == [0]) or (rv["op"] == "Ge" and cs == [1]):
                    pos = True
    if not (bool(filt) and pos):
        # `match s.parse() { Ok(x) if x > 0 => Some(..), _ => None }`: every accepting return lies behind the positivity test
        ib = inline.inlined(db, b)
        somes = [w for w in flow.return_writes(ib) if w["kind"] == "Some"]
        okall = bool(somes)
        for w in somes:
            good = False
            for x in guards.dominating_facts(ib, w["bi"]):
                if x[0] != "cmp":
                    continue
                for b2, si, st in ib.stmts():
                    if b2 == x[3] and st["rv"]["k"] == "bin" and st["rv"]["op"] == x[1]:
                        cs = [int(o["v"]) for o in st["rv"]["ops"] if isinstance(o, dict) and o.get("c") == "int"]
                        c_right = isinstance(st["rv"]["ops"][1], dict) and st["rv"]["ops"][1].get("c") == "int"
                        if c_right and ((x[1] in ("Gt", "Ne") and cs == [0] and x[2] is True) or (x[1] == "Ge" and cs == [1] and x[2] is True) or
                                        (x[1] in ("Le", "Eq") and cs == [0] and x[2] is False) or (x[1] == "Lt" and cs == [1] and x[2] is False)):
                            good = True
            okall = okall and good
        if okall:
            filt, pos = [1], True
    chk.verdict(full and bool(filt) and pos, "R4", "parse_expires", b.loc(), "X-Amz-Expires must be a fully parsed positive integer (full parse: %s, positive filter: %s)" % (full, pos))


def rule_r5(chk, db, v, roles):
    body = v.body
    ok = False
    cmpbi = None
    for bi, t in body.calls():
        d = callee_def(t)
        if d.endswith("cmp::PartialEq::ne") or d.endswith("cmp::PartialEq::eq"):
            lits = paths.str_args(body, t)
            s0 = flow.backward(body, t["args"][0], at=bi)
            if lits == ["AWS4-HMAC-SHA256"] and ("PresignedUrlV4", "algorithm") in s0.fields:
                o = flow.outcomes_of_call(body, bi)
                eq = o.get("false") if d.endswith("::ne") else o.get("true")
                gsk = [b2 for b2, t2 in body.calls() if t2["callee"].get("trait") == roles.S3Auth]
                ok = bool(eq) and flow.must_pass(body, v.acc + gsk, eq)
                cmpbi = bi
    chk.verdict(ok, "R5", "algorithm", body.loc(cmpbi) if cmpbi is not None else body.loc(),
                "X-Amz-Algorithm other than AWS4-HMAC-SHA256 is not refused before the key lookup")


def run(chk, db, tier):
    from ..roles import Roles
    roles = Roles(db)
    vs = sigcore.run_common(chk, db, {"v4-presigned"}, ["s3s::sig_v4::methods::create_presigned_canonical_request", "s3s::sig_v4::methods::create_string_to_sign",
                                                       "s3s::sig_v4::methods::calculate_signature"])
    chk.rule("R1", "window guards: acceptance dominated by `elapsed <= X-Amz-Expires`, by `not future-dated beyond 900 s`, and by a valid X-Amz-Date")
    chk.rule("R2", "every X-Amz-* parameter taken with get_unique under its literal name; parse() maps field-for-field")
    chk.rule("R3", "only X-Amz-Signature is excluded from the canonical query (C05.R4 literal sets) and the presigned layout matches the spec")
    chk.rule("R4", "parse_expires: full parse, positive")
    chk.rule("R5", "algorithm literal enforced before the key lookup")
    for v in vs:
        chk.guard("R1", rule_r1, db, v)
        chk.guard("R5", rule_r5, db, v, roles)
        from .c05 import rule_r3 as host_rule
        chk.guard("R3h", host_rule, db, v)
    chk.guard("R2", rule_r2, db)
    chk.guard("R4", rule_r4, db)
    from .c05 import rule_r4 as skip_rule
    chk.guard("R3", lambda c: skip_rule(c, db))
    chk.rule("R6", "layout of create_presigned_canonical_request / create_string_to_sign == specification")
    chk.guard("R6", sigwrites.rule_r6_presigned, db)
    chk.guard("R6", lambda c: sigwrites.check_layout(c, db, "R6", "s3s::sig_v4::methods::create_string_to_sign", sigwrites.STRING_TO_SIGN))
    chk.guard("R8", sigwrites.rule_r8, db)
    chk.rule("R8", "URI-encoding byte table (shared with C05)")


META = {
    "level": "other",
    "explanation": "As C05 for presigned URLs (V1-V4 on the presigned verifier), plus: the expiry and clock-skew comparisons are normalised "
                   "(which outcome rejects) and must edge-dominate acceptance; each X-Amz-* parameter is read with get_unique under its literal; "
                   "only X-Amz-Signature is excluded from the canonical query; algorithm literal checked before the key lookup; layout of the "
                   "presigned canonical request. The numeric boundary for all times is not decided. Round 4: the elapsed time enters the expiry comparison exactly (no defaulting / saturating conversion); the header view is sorted by name only, stably (V6).",
    "not_decided": ["completeness as a whole", "the numeric expiry boundary for all times (values)", "the 604800 s cap (the property does not demand one)"],
    "assumptions": ["rustc nightly MIR construction", "time crate: Duration::abs/is_negative/seconds, OffsetDateTime::now_utc have their documented meaning"],
}
