"""C12 - addressing styles, keys verbatim (DESIGN.md section 3, C12)."""
from .. import bytesem, flow, guards, paths, inline
from ..facts import callee_def, short
from ..report import AnchorMissing
from ..roles import Roles
from .c07 import find_prepare
from .sigcore import first_writes_from, is_err_write

DECODERS = ("urlencoding::decode", "urlencoding::decode_binary", "percent_encoding::percent_decode", "percent_encoding::percent_decode_str",
            "form_urlencoded::parse", "serde_urlencoded::from_str", "serde_urlencoded::de::from_str", "serde_urlencoded::from_bytes")
S3PATH = "s3s::path::S3Path"


def is_decoder(d):
    return any(d == x or d.startswith(x + "::") for x in DECODERS) or d.startswith("urlencoding::dec") or d.startswith("percent_encoding::percent_decode")


def decoders_in(db, body, depth=0, seen=None):
    """decoder call sites in body and its workspace callees (depth 3)"""
    seen = seen if seen is not None else set()
    if body.name in seen or depth > 3:
        return []
    seen.add(body.name)
    out = []
    for x in db.nested(body):
        for bi, t in x.calls():
            d = callee_def(t)
            if is_decoder(d):
                out.append((x, bi, d))
            elif d.startswith("s3s::") and not d.startswith("s3s::dto::generated") and db.body(d) is not None:
                out += decoders_in(db, db.body(d), depth + 1, seen)
    return out


def rule_r1(chk, db):
    prep = find_prepare(db)
    parsers = [(bi, t) for bi, t in prep.calls() if callee_def(t) in ("s3s::path::parse_path_style", "s3s::path::parse_virtual_hosted_style")]
    chk.floor("R1", len(parsers), 2, "path parser call sites in prepare")
    for bi, t in parsers:
        arg = t["args"][-1]
        sl = flow.backward(prep, arg, at=bi)
        decs = [(cb, callee_def(x)) for cb, x, _ in sl.calls if is_decoder(callee_def(x))]
        from_uri = any(callee_def(x) == "http::uri::Uri::path" for _, x, _ in sl.calls)
        chk.verdict(len(decs) == 1 and from_uri, "R1", "decode-once@%s" % short(callee_def(t)), prep.loc(bi),
                    "the path given to %s passes %d percent-decoders on its way from Uri::path() (expected exactly 1)" % (short(callee_def(t)), len(decs)))
    # no decoder inside the parsers / unwrap helpers / request builder
    for name in ("s3s::path::parse_path_style", "s3s::path::parse_virtual_hosted_style", "s3s::http::de::unwrap_bucket", "s3s::http::de::unwrap_object", "s3s::ops::build_s3_request",
                 "s3s::path::check_key", "s3s::path::check_bucket_name"):
        b = inline.inlined(db, db.body(name))
        if b is None:
            chk.anchor_missing("R1", "%s not found" % name)
            continue
        ds = decoders_in(db, b)
        chk.verdict(not ds, "R1", "no-decoder-in:" + short(name), ds[0][0].loc(ds[0][1]) if ds else b.loc(),
                    "%s (or a helper it calls) percent-decodes again: the path was already decoded once in prepare, so `%%2541` style keys change" % short(name))
    # the same decoded path feeds the V4 canonical URI; V2 takes the raw path (checked in C05/C11)
    scx = [(bi, st["rv"]) for bi, si, st in prep.stmts() if st["rv"]["k"] == "agg" and st["rv"].get("adt", "").endswith("::SignatureContext")]
    for bi, rv in scx:
        m = dict(zip(rv["fields"], rv["ops"]))
        sl = flow.backward(prep, m["decoded_uri_path"], at=bi)
        n = len([1 for _, x, _ in sl.calls if is_decoder(callee_def(x))])
        chk.verdict(n == 1, "R1", "signature-path-decoded-once", prep.loc(bi), "SignatureContext.decoded_uri_path passes %d decoders" % n, nontrivial=False)
    # all decoder sites of the crate (inventory; a new site is not a violation by itself but is listed)
    sites = db.calls_matching(lambda t: is_decoder(callee_def(t)), ("decode",))
    chk.stats["decoder_sites"] = sorted({"%s @ %s" % (db.root_of(b).name.replace("s3s::", ""), b.loc(bi)) for b, bi, t in sites if b.crate == "s3s"})


def rule_r2(chk, db, roles):
    prep = find_prepare(db)
    ph = [(bi, t) for bi, t in prep.calls() if t["callee"].get("trait") == roles.S3Host]
    chk.floor("R2", len(ph), 1, "S3Host::parse_host_header call sites")
    for bi, t in ph:
        # prepare is studied with its helpers inlined: the host parser call must be dominated by "parse::<SocketAddr>() failed" and by
        # "parse::<IpAddr>() failed", each applied to the whole Host value that is then handed to the parser
        f = guards.dominating_facts(prep, bi)
        hsl = flow.backward(prep, t["args"][1], at=bi)
        failed = {}
        for x in f:
            if x[0] != "call":
                continue
            d = x[1]
            neg = (d.endswith("Result::<T, E>::is_ok") and x[2] is False) or (d.endswith("Result::<T, E>::is_err") and x[2] is True)
            if not neg:
                continue
            ct = prep.blocks[x[3]]["term"]
            sl = flow.backward(prep, ct["args"][0], at=x[3])
            for pb, pt, _ in sl.calls:
                if callee_def(pt) != "core::str::<impl str>::parse":
                    continue
                ga = pt["callee"].get("args", "")
                kind = "SocketAddr" if "SocketAddr" in ga else ("IpAddr" if "IpAddr" in ga else None)
                if kind is None:
                    continue
                # applied to the host value itself: nothing but views between the header and the parse
                psl = flow.backward(prep, pt["args"][0], at=pb)
                direct = not [1 for _, c, _ in psl.calls if not flow.is_transparent(c) and (pb, pt) != (_, c) and c is not pt and
                              short(callee_def(c)) not in ("as_deref", "as_str", "as_ref", "deref", "extract_host", "to_str", "get", "map_err", "ok_or_else",
                                                           "map", "transpose", "and_then", "into_owned", "to_owned")]
                same = bool(psl.locals & hsl.locals)
                failed[kind] = failed.get(kind, False) or (direct and same)
        ok = failed.get("SocketAddr", False) and failed.get("IpAddr", False)
        why = "the host parser is reached without both `parse::<SocketAddr>` and `parse::<IpAddr>` having failed on the whole Host value (found %s): " \
              "e.g. `[::1]:8014` or `127.0.0.1:80` would be treated as a virtual-host name" % failed
        chk.verdict(ok, "R2", "ip-guard", prep.loc(bi), why)


def constructions(body, variant):
    """blocks that construct S3Path::<variant> (literal aggregate or the S3Path::bucket/object constructor): (bi, bucket operand, key operand)"""
    out = []
    for bi, si, st in body.stmts():
        rv = st["rv"]
        if rv["k"] == "agg" and rv.get("adt") == S3PATH and rv.get("variant") == variant:
            m = dict(zip(rv["fields"], rv["ops"]))
            out.append((bi, m.get("bucket"), m.get("key")))
    for bi, t in body.calls():
        d = callee_def(t)
        if d == S3PATH + "::" + variant.lower():
            out.append((bi, t["args"][0], t["args"][1] if len(t["args"]) > 1 else None))
    return out


def same_value(body, a, b):
    """do operands a and b denote the same value (share a local on their copy/borrow/into chains)?"""
    ca = flow.resolve_chain(body, a) or []
    cb = flow.resolve_chain(body, b) or []
    sa = flow.backward(body, a, through_calls=True)
    la = {l for l, _ in ca}
    lb = {l for l, _ in cb}
    if la & lb:
        return True
    # through `.into()` etc: compare the slices' root locals restricted to moves
    sb = flow.backward(body, b)
    # b (the checked value) must be among the locals a derives from, and a must not pass a splitting call after b
    return bool(lb & sa.locals) and False


def derives_only_from(body, op, src_op, at):
    """value `op` is `src_op` up to conversions (into/to_owned/Box::from): its slice from `at` reaches src's local through no non-transparent call"""
    src = flow.resolve_chain(body, src_op) or []
    src_l = {l for l, _ in src}
    chain = flow.resolve_chain(body, op) or []
    if {l for l, _ in chain} & src_l:
        return True
    sl = flow.backward(body, op, at=at)
    calls = [callee_def(t) for _, t, _ in sl.calls if not flow.is_transparent(t)]
    return bool(sl.locals & src_l) and not calls


def rule_r3(chk, db):
    for name in ("s3s::path::parse_path_style", "s3s::path::parse_virtual_hosted_style"):
        b = inline.inlined(db, db.body(name))
        if b is None:
            raise AnchorMissing("%s not found" % name)
        n = 0
        for variant in ("Bucket", "Object"):
            for bi, bop, kop in constructions(b, variant):
                n += 1
                key = "%s.%s#%d" % (short(name), variant, bi)
                f = guards.dominating_facts(b, bi)
                okb = False
                for x in f:
                    if x[0] == "call" and x[1] == "s3s::path::check_bucket_name" and x[2] is True:
                        ct = b.blocks[x[3]]["term"]
                        if derives_only_from(b, bop, ct["args"][0], bi):
                            okb = True
                chk.verdict(okb, "R3", key + ".bucket-checked", b.loc(bi), "S3Path::%s is built with a bucket that did not pass check_bucket_name (on the same value)" % variant)
                if variant == "Object":
                    okk = False
                    for x in f:
                        if x[0] == "call" and x[1] == "s3s::path::check_key" and x[2] is True:
                            ct = b.blocks[x[3]]["term"]
                            if derives_only_from(b, kop, ct["args"][0], bi):
                                okk = True
                    chk.verdict(okk, "R3", key + ".key-checked", b.loc(bi), "S3Path::Object is built with a key that did not pass check_key on that same value (e.g. the length of `bucket/key` was checked instead)")
        # delegation of the no-virtual-host case
        chk.floor("R3." + short(name), n, 2, "S3Path constructions in %s" % short(name))
        # failing outcomes map to the right errors
        for bi, t in b.calls():
            d = callee_def(t)
            want = {"s3s::path::check_bucket_name": "InvalidBucketName", "s3s::path::check_key": "KeyTooLong"}.get(d)
            if want:
                o = flow.outcomes_of_call(b, bi)
                fw = first_writes_from(b, o.get("false"))
                vs = set()
                for w in fw:
                    if w["kind"] == "Err":
                        r = flow.backward(b, w["rv"]["ops"][0], at=w["bi"])
                        vs |= {rv.get("variant") for _, rv in r.aggs if rv.get("adt", "").endswith("ParseS3PathError")}
                chk.verdict(vs == {want}, "R3", "%s.%s-error#%d" % (short(name), short(d), bi), b.loc(bi), "failing %s yields %s (expected %s)" % (short(d), sorted(map(str, vs)), want), nontrivial=False)
    # convert_parse_s3_path_error: same-named S3 codes
    c = db.body("s3s::ops::convert_parse_s3_path_error")
    if c is None:
        chk.anchor_missing("R3", "convert_parse_s3_path_error not found")
    else:
        want = {"InvalidPath": "InvalidURI", "InvalidBucketName": "InvalidBucketName", "KeyTooLong": "KeyTooLongError"}
        got = {}
        for s in c.live_blocks():
            t = c.blocks[s]["term"]
            if t["k"] == "switch":
                src = paths.switch_source(c, t)
                if src and src[0] == "discr" and "ParseS3PathError" in src[1]["enum"]:
                    vals = paths.discr_values(t, src[1])
                    for lab, tb in c.succ_edges(s):
                        v = vals.get(lab)
                        r = flow.reach(c, [tb])
                        codes = {st["rv"]["variant"] for b2 in r for st in c.blocks[b2]["stmts"] if st["rv"]["k"] == "agg" and st["rv"].get("adt", "").endswith("::S3ErrorCode")}
                        # restrict to codes not shared with other arms: take first encountered
                        first = None
                        seen = set()
                        stack = [tb]
                        while stack and first is None:
                            x = stack.pop()
                            if x in seen:
                                continue
                            seen.add(x)
                            for st in c.blocks[x]["stmts"]:
                                if st["rv"]["k"] == "agg" and st["rv"].get("adt", "").endswith("::S3ErrorCode"):
                                    first = st["rv"]["variant"]
                            stack += [y for _, y in c.succ_edges(x)]
                        got[v] = first
        for k, v in want.items():
            chk.verdict(got.get(k) == v, "R3", "error-map." + k, c.loc(), "ParseS3PathError::%s maps to %s (expected %s)" % (k, got.get(k), v), nontrivial=False)
    rule_copysource(chk, db)


def rule_copysource(chk, db):
    """CopySource::parse obeys the same two dominances, on the values it stores"""
    cs = inline.inlined(db, db.body("s3s::dto::copy_source::CopySource::parse"))
    if cs is None:
        chk.anchor_missing("R3", "CopySource::parse not found")
        return
    names = {callee_def(t) for _, t in cs.calls()}
    chk.verdict("s3s::path::check_bucket_name" in names and "s3s::path::check_key" in names, "R3", "CopySource.validators", cs.loc(), "CopySource::parse does not run both check_bucket_name and check_key")
    n = 0
    for bi, si, st in cs.stmts():
        rv = st["rv"]
        if rv["k"] == "agg" and rv.get("adt", "").endswith("::CopySource") and rv.get("variant") == "Bucket":
            n += 1
            m = dict(zip(rv["fields"], rv["ops"]))
            f = guards.dominating_facts(cs, bi)
            okb = any(x[0] == "call" and x[1] == "s3s::path::check_bucket_name" and x[2] is True for x in f)
            okk = any(x[0] == "call" and x[1] == "s3s::path::check_key" and x[2] is True for x in f)
            chk.verdict(okb and okk, "R3", "CopySource.Bucket#%d" % n, cs.loc(bi), "CopySource::Bucket is built without both validators having passed")
            for fld, fn in (("bucket", "s3s::path::check_bucket_name"), ("key", "s3s::path::check_key")):
                op = m.get(fld)
                if op is None:
                    continue
                same = False
                for x in f:
                    if x[0] == "call" and x[1] == fn and x[2] is True:
                        ct = cs.blocks[x[3]]["term"]
                        if derives_only_from(cs, op, ct["args"][0], bi):
                            same = True
                chk.verdict(same, "R3", "CopySource.Bucket#%d.%s-same-value" % (n, fld), cs.loc(bi),
                            "CopySource::Bucket stores a %s that is not the value %s accepted (e.g. the still-encoded text was validated, the decoded text stored)" % (fld, short(fn)))
    chk.floor("R3.CopySource", n, 1, "CopySource::Bucket constructions in CopySource::parse")


# string operations that drop or rewrite characters of the value they are applied to, or that cut it from the back; none of them can be part
# of "the key is the rest of the path after the bucket"
LOSSY_STR_OPS = {
    "trim", "trim_start", "trim_end", "trim_left", "trim_right", "trim_matches", "trim_start_matches", "trim_end_matches", "trim_left_matches",
    "trim_right_matches", "trim_ascii", "trim_ascii_start", "trim_ascii_end", "replace", "replacen", "to_lowercase", "to_uppercase",
    "to_ascii_lowercase", "to_ascii_uppercase", "make_ascii_lowercase", "make_ascii_uppercase", "split_whitespace", "split_ascii_whitespace",
    "strip_suffix", "rsplit_once", "rsplit", "rsplitn", "rsplit_terminator", "rfind", "split_terminator", "lines", "escape_debug",
    "escape_default", "escape_unicode", "from_utf8_lossy", "truncate", "pop", "retain", "remove", "drain", "split_off", "filter", "skip",
    "skip_while", "take", "take_while", "step_by", "rev", "dedup", "normalize", "clean",
}
FRONT_STR_OPS = {"strip_prefix", "split_once", "split_at", "split_at_checked", "splitn", "split_inclusive", "split_first", "find", "get", "index"}


def lossy_ops(sl):
    """calls in a value's slice that drop / rewrite characters (by method name on str / String / iterator types)"""
    out = []
    for _, t, _ in sl.calls:
        d = callee_def(t)
        if short(d) in LOSSY_STR_OPS and (d.startswith("core::str") or d.startswith("alloc::str") or d.startswith("alloc::string") or d.startswith("core::iter")
                                           or d.startswith("core::slice") or d.startswith("alloc::vec") or d.startswith("std::path") or "path" in d.split("::")[0]):
            out.append(d)
    return out


def rule_r7(chk, db):
    """verbatim key: the bucket and key a parser stores are pieces of its `uri_path` argument, cut from the front at `/` and nothing else"""
    want = {"s3s::path::parse_path_style": {"key": ["split_once", "strip_prefix"], "bucket": ["split_once", "strip_prefix"]},
            "s3s::path::parse_virtual_hosted_style": {"key": ["strip_prefix"], "bucket": []}}
    for name, forms in want.items():
        b = inline.inlined(db, db.body(name))
        if b is None:
            raise AnchorMissing("%s not found" % name)
        path_params = [i for i in range(1, b.argc + 1) if b.locals[i].replace(" ", "").startswith("&") and "str" in b.locals[i] and "Option" not in b.locals[i]]
        if len(path_params) != 1:
            raise AnchorMissing("%s: expected one &str path parameter, found %s" % (name, [b.locals[i] for i in range(1, b.argc + 1)]))
        n = 0
        for variant in ("Bucket", "Object"):
            for bi, bop, kop in constructions(b, variant):
                for fld, op in (("bucket", bop), ("key", kop)):
                    if op is None:
                        continue
                    n += 1
                    key = "%s.%s#%d.%s" % (short(name), variant, bi, fld)
                    sl = flow.backward(b, op, at=bi)
                    bad = lossy_ops(sl)
                    if bad:
                        chk.fail("R7", key, b.loc(bi), "the %s stored in S3Path::%s passes through %s, which drops or rewrites characters: it is no longer exactly the text the client sent"
                                 % (fld, variant, ", ".join(sorted(set(short(x) for x in bad)))))
                        continue
                    ps = {l for l, _ in sl.params}
                    if fld == "key" and not ps <= set(path_params):
                        chk.fail("R7", key, b.loc(bi), "the key stored in S3Path::%s also depends on parameter(s) %s, not only on the URI path" % (variant, sorted(ps - set(path_params))))
                        continue
                    got = sorted(short(callee_def(t)) for _, t, _ in sl.calls if not flow.is_transparent(t))
                    seps = {c.get("v") for c in sl.consts if c.get("c") == "int" and c.get("ty") == "char"}
                    exact = got == forms[fld] and seps <= {"47"}
                    if not exact:
                        chk.advisory("C12.R7 %s: form not recognised as the exact cut (operations %s, separators %s); only the ban on lossy operations was decided" % (key, got, sorted(seps)))
                    chk.ok("R7", key, b.loc(bi), "exact front cut" if exact else "no lossy operation")
        chk.floor("R7." + short(name), n, 3, "bucket/key operands of S3Path constructions in %s" % short(name))


def rule_r4(chk, db):
    b = db.body("s3s::path::check_key")
    if b is None:
        raise AnchorMissing("check_key not found")
    cmps = [(bi, st["rv"]) for bi, si, st in b.stmts() if st["rv"]["k"] == "bin" and st["rv"]["op"] in ("Le", "Lt", "Ge", "Gt")]
    ok = False
    hi = None
    if len(cmps) == 1:
        bi, rv = cmps[0]
        c0 = flow.const_int_eval(b, rv["ops"][0])
        c1 = flow.const_int_eval(b, rv["ops"][1])
        s0 = flow.backward(b, rv["ops"][0])
        s1 = flow.backward(b, rv["ops"][1])
        len0 = any(callee_def(t).endswith("::len") for _, t, _ in s0.calls)
        len1 = any(callee_def(t).endswith("::len") for _, t, _ in s1.calls)
        op = rv["op"]
        if len0 and c1 is not None:
            hi = {"Le": c1, "Lt": c1 - 1}.get(op)
        elif len1 and c0 is not None:
            hi = {"Ge": c0, "Gt": c0 - 1}.get(op)
        ok = hi == 1024 and any(w["kind"] in ("other", "use") for w in flow.return_writes(b))
    chk.verdict(ok, "R4", "key-bound", b.loc(), "check_key accepts byte lengths up to %s (documented: 1024)" % hi)


def rule_r4b(chk, db):
    """the only way a request is refused as 'key too long' is check_key's verdict (on the decoded key): a length test on anything else -
    the encoded path, the whole URI - refuses legal keys whose wire form is longer"""
    n = 0
    for b in db.grep("KeyTooLong"):
        if b.crate != "s3s" or b.derived or b.name.startswith(("s3s::error::", "s3s::dto::generated")) or "::tests::" in b.name or b.impl_trait:
            continue
        for bi, si, st in b.stmts():
            rv = st["rv"]
            if rv["k"] != "agg" or rv.get("variant") not in ("KeyTooLongError", "KeyTooLong"):
                continue
            n += 1
            f = guards.dominating_facts(b, bi)
            if rv["variant"] == "KeyTooLongError":
                ok = any(x[0] == "enum" and x[1].endswith("ParseS3PathError") and x[2] == frozenset(["KeyTooLong"]) for x in f)
                why = "KeyTooLongError is raised without the path parser having answered KeyTooLong"
            else:
                ok = any(x[0] == "call" and x[1] == "s3s::path::check_key" and x[2] is False for x in f)
                why = "ParseS3PathError::KeyTooLong is returned without check_key having refused the key"
            chk.verdict(ok, "R4", "too-long-only-from-check_key@%s" % short(db.root_of(b).name), b.loc(bi),
                        why + ": a length bound measured on something other than the decoded key refuses keys of up to 1024 bytes")
    chk.floor("R4.sites", n, 2, "constructions of KeyTooLong / KeyTooLongError outside the error tables")


def rule_r1q(chk, db):
    """the query string reaches OrderedQs::parse (which decodes each name and value once) as Uri::query() gave it"""
    def parse_use(t):
        """the operand that is parsed: the argument of a direct call, or the receiver of an adaptor that is handed `OrderedQs::parse`
        (`uri.query().map(OrderedQs::parse)`)"""
        if callee_def(t).endswith("ordered_qs::OrderedQs::parse") and t["args"]:
            return t["args"][0]
        if len(t["args"]) >= 2 and any(isinstance(a, dict) and a.get("c") == "fn" and a.get("def", "").endswith("ordered_qs::OrderedQs::parse") for a in t["args"][1:]):
            return t["args"][0]
        return None
    sites = [(b, bi, t) for b in db.grep("OrderedQs::parse") if b.crate == "s3s" and "::tests::" not in b.name for bi, t in b.calls() if parse_use(t) is not None]
    chk.floor("R1.query", len(sites), 1, "OrderedQs::parse call sites")
    for b, bi, t in sites:
        ib = inline.inlined(db, b) if b.kind in ("Fn", "AssocFn") else b
        for bi2, t2 in ib.calls():
            if parse_use(t2) is None:
                continue
            sl = flow.backward(ib, parse_use(t2), at=bi2)
            decs = sorted({callee_def(x) for _, x, _ in sl.calls if is_decoder(callee_def(x))})
            from_uri = any(callee_def(x) == "http::uri::Uri::query" for _, x, _ in sl.calls)
            chk.verdict(from_uri and not decs, "R1", "query-decoded-once@%s" % short(db.root_of(b).name), ib.loc(bi2),
                        "the query handed to OrderedQs::parse %s: an encoded `&` or `=` inside a value becomes a separator, so value data turns into query flags" %
                        ("was already percent-decoded by %s (the parser decodes every name and value itself)" % decs if decs else "does not come from Uri::query()"))
    qp = db.body("s3s::http::ordered_qs::OrderedQs::parse")
    if qp is not None:
        ds = [1 for x in db.nested(qp) for _, t in x.calls() if is_decoder(callee_def(t)) or "form_urlencoded" in callee_def(t) or "serde_urlencoded" in callee_def(t)]
        chk.verdict(bool(ds), "R1", "query-parser-decodes", qp.loc(), "OrderedQs::parse no longer decodes names and values", nontrivial=False)


def rule_r8(chk, db):
    """verbatim host: the Host value is matched with the configured base domain as the client sent it.  The matcher (the function of the host
    module that takes a base domain and a host and answers with a VirtualHost) compares / strips the base domain on its `host` parameter
    itself - not on a rewritten copy (port stripped, case folded, trimmed), which would let a host of one configured domain resolve under
    another."""
    ms = [b for n, b in db.bodies.items() if b.crate == "s3s" and n.startswith("s3s::host::") and b.kind == "Fn" and b.argc == 2 and
          "VirtualHost" in b.raw.get("ret", "") and "Option<" in b.raw.get("ret", "") and all(b.locals[l].startswith("&") and "str" in b.locals[l] for l in (1, 2))]
    chk.floor("R8", len(ms), 1, "host matchers (base domain, host) -> Option<VirtualHost>")
    for m in ms:
        b = inline.inlined(db, m)
        n = 0
        for bi, t in b.calls():
            nm = short(callee_def(t))
            if nm not in ("eq", "ne", "strip_suffix", "ends_with", "strip_prefix", "starts_with", "rsplit_once", "split_once", "find", "rfind") or len(t["args"]) < 2:
                continue
            roots = []
            for a in t["args"][:2]:
                ch = flow.resolve_chain(b, a) or []
                roots.append(ch[-1] if ch else None)
            params = [r[0] if r is not None and not flow.fields_only(r[1]) and 1 <= r[0] <= 2 else None for r in roots]
            if 1 not in params:
                continue        # not a comparison with the base domain
            n += 1
            other = params[1] if params[0] == 1 else params[0]
            chk.verdict(other == 2, "R8", "host-matched-as-sent:%s#%d" % (nm, bi), b.loc(bi),
                        "the base domain is matched (%s) against a value that is not the Host parameter itself but a rewritten copy: a host that belongs to "
                        "another configured domain (or to none) can resolve under this one" % nm)
        chk.floor("R8.cmp", n, 1, "comparisons of the host with the base domain in %s" % short(m.name))


def _is_closure(b, op, name):
    """the operand is the closure `name` (possibly bound to a local first)"""
    for l, pr in (flow.resolve_chain(b, op) or []):
        for df in b.defs().get(l, []):
            if df["kind"] == "assign" and df["rv"]["k"] == "agg" and df["rv"].get("agg") == "closure" and df["rv"].get("def") == name:
                return True
    return False


def rule_r5(chk, db):
    b = db.body("s3s::host::MultiDomain::new")
    if b is None:
        raise AnchorMissing("MultiDomain::new not found")
    pushes = [(bi, t) for bi, t in b.calls() if short(callee_def(t)) == "push" and "Vec" in callee_def(t)]
    chk.floor("R5", len(pushes), 1, "push sites in MultiDomain::new")
    from .c08 import natural_loops
    loops = natural_loops(b)
    for bi, t in pushes:
        f = guards.dominating_facts(b, bi)
        valid = [x for x in f if x[0] == "call" and x[1] == "s3s::host::is_valid_domain" and x[2] is True]
        chk.verdict(bool(valid), "R5", "push-valid-domain", b.loc(bi), "a base domain is stored without is_valid_domain having accepted it")
        # overlap: both directions of ends_with are tested and a hit refuses (the tests may live in a closure given to `any`)
        dirs = set()
        ew_loc = None
        for x in db.nested(b):
            for cb, ct in x.calls():
                if short(callee_def(ct)) != "ends_with":
                    continue
                ew_loc = ew_loc or x.loc(cb)
                r0 = flow.backward(x, ct["args"][0], at=cb)
                r1 = flow.backward(x, ct["args"][1], at=cb)

                def stored(r):
                    if x is b:
                        return any(x.local_name(l_) in ("v", "other") for l_ in r.locals)
                    return any(l_ == 2 for l_, _ in r.params)      # the closure's item parameter = an already stored domain
                st0, st1 = stored(r0), stored(r1)
                if x is b:
                    o = flow.outcomes_of_call(b, cb)
                    fw = first_writes_from(b, o.get("true")) if o.get("true") else []
                    refuses = bool(fw) and all(is_err_write(w) for w in fw)
                else:
                    # closure result true => the enclosing any()/find() hit refuses
                    refuses = False
                    for pb, pt in b.calls():
                        if short(callee_def(pt)) in ("any", "find", "position") and any(_is_closure(b, a_, x.name) for a_ in pt["args"]):
                            o = flow.outcomes_of_call(b, pb)
                            hit = o.get("true") | o.get("Some")
                            fw = first_writes_from(b, hit) if hit else []
                            refuses = bool(fw) and all(is_err_write(w) for w in fw)
                if refuses:
                    dirs.add("stored.ends_with(candidate)" if st0 and not st1 else ("candidate.ends_with(stored)" if st1 and not st0 else "?"))
        chk.verdict({"stored.ends_with(candidate)", "candidate.ends_with(stored)"} <= dirs, "R5", "overlap-both-directions", ew_loc or b.loc(),
                    "overlapping base domains are refused only for %s: a parent listed before its sub-domain (or the reverse) is accepted" % sorted(dirs))
    # empty => Err
    okz = False
    for bi, t in b.calls():
        if short(callee_def(t)) == "is_empty":
            o = flow.outcomes_of_call(b, bi)
            fw = first_writes_from(b, o.get("true")) if o.get("true") else []
            okz = bool(fw) and all(is_err_write(w) for w in fw)
    chk.verdict(okz, "R5", "zero-domains-refused", b.loc(), "an empty base-domain list is not refused", nontrivial=False)
    sd = db.body("s3s::host::SingleDomain::new")
    if sd is not None:
        for bi, si, st in sd.stmts():
            if st["rv"]["k"] == "agg" and st["rv"].get("adt", "").endswith("::SingleDomain"):
                f = guards.dominating_facts(sd, bi)
                chk.verdict(any(x[0] == "call" and x[1] == "s3s::host::is_valid_domain" and x[2] is True for x in f), "R5", "SingleDomain-valid", sd.loc(bi), "SingleDomain accepts an invalid base domain", nontrivial=False)


CORE_CLASS = set(b"abcdefghijklmnopqrstuvwxyz0123456789.-")
EDGE_CLASS = set(b"abcdefghijklmnopqrstuvwxyz0123456789")
COMPLETE_PREFIXES = {"xn--", "sthree-", "amzn-s3-demo-", "sthree-configurator"}
COMPLETE_SUFFIXES = {"-s3alias", "--ol-s3", ".mrap", "--x-s3", "--table-s3"}


def _closure_arg(db, b, a):
    """the closure body an argument denotes (a closure literal, or a named closure passed by value / reference)"""
    for l, _ in (flow.resolve_chain(b, a) or []):
        for df in b.defs().get(l, []):
            if df["kind"] == "assign" and df["rv"]["k"] == "agg" and df["rv"].get("agg") == "closure":
                return db.body(df["rv"].get("def", ""))
    return None


def rule_r6(chk, db):
    b = db.body("s3s::path::check_bucket_name")
    if b is None:
        raise AnchorMissing("check_bucket_name not found")
    # every `return false` is the rejecting edge of a recognised atom; collect atoms
    rw = flow.return_writes(b)
    falses = [w["bi"] for w in rw if w["kind"] == "use" and flow.const_of(b, w["rv"]["ops"][0]) is not None and flow.const_of(b, w["rv"]["ops"][0]).get("v") == "0"]
    atoms = {}
    closures = {c.name: c for c in b.children}
    for bi, t in b.calls():
        d = callee_def(t)
        nm = short(d)
        o = flow.outcomes_of_call(b, bi)
        if nm == "contains" and "Range" in d:
            # (lo..hi).contains(&len): read the range literal
            sl = flow.backward(b, t["args"][0], at=bi)
            ints = sorted(int(c["v"]) for c in sl.consts if c.get("c") == "int")
            atoms["length"] = (ints, o)
        elif nm == "all" and "Iterator" in d or nm == "all":
            cb = _closure_arg(db, b, t["args"][1]) if len(t["args"]) > 1 else None
            if cb is not None:
                acc, err = bytesem.accepted_bytes(cb, db=db)
                atoms["class"] = (acc, err, o, bi)
        elif (nm == "map" and "Option" in d) or (nm == "is_some_and" and "Option" in d):
            # `first().map(pred) != Some(true)` / `!first().is_some_and(pred)`
            which = None
            sl = flow.backward(b, t["args"][0], at=bi)
            if any(short(callee_def(x)) == "first" for _, x, _ in sl.calls):
                which = "first"
            if any(short(callee_def(x)) == "last" for _, x, _ in sl.calls):
                which = "last"
            cb = _closure_arg(db, b, t["args"][1]) if len(t["args"]) > 1 else None
            if cb is not None and which:
                acc, err = bytesem.accepted_bytes(cb, db=db)
                atoms[which] = (acc, err, bi)
        elif nm == "contains" and "str" in d:
            atoms["contains:" + ",".join(paths.str_args(b, t))] = o
        elif nm == "starts_with":
            atoms["prefix:" + ",".join(paths.str_args(b, t))] = o
        elif nm == "ends_with":
            atoms["suffix:" + ",".join(paths.str_args(b, t))] = o
        elif nm == "parse" and "IpAddr" in t["callee"].get("args", ""):
            atoms["ip"] = bi
    # required core atoms
    ln = atoms.get("length")
    chk.verdict(ln is not None and ln[0][:2] == [3, 64], "R6", "length-3..63", b.loc(), "bucket name length bound is %s (core rule: 3 to 63 characters)" % (ln[0] if ln else None))
    cl = atoms.get("class")
    chk.verdict(cl is not None and cl[0] == CORE_CLASS, "R6", "byte-class", b.loc(cl[3]) if cl else b.loc(),
                "allowed characters are %r (core rule: lower-case letters, digits, `.` and `-`)%s" % (bytes(sorted(cl[0])) if cl and cl[0] is not None else None, " [%s]" % cl[1] if cl and cl[1] else ""))
    for w in ("first", "last"):
        a = atoms.get(w)
        chk.verdict(a is not None and a[0] == EDGE_CLASS, "R6", w + "-char-class", b.loc(a[2]) if a else b.loc(),
                    "%s character class is %r (core rule: letter or digit)" % (w, bytes(sorted(a[0])) if a and a[0] is not None else None))
    chk.verdict("contains:.." in atoms, "R6", "no-adjacent-periods", b.loc(), "names with two adjacent periods are not refused")
    chk.verdict("ip" in atoms, "R6", "not-an-ip-address", b.loc(), "names formatted as IP addresses are not refused")
    # allowed extra rejections only from the complete rule list
    for k in atoms:
        if k.startswith("prefix:"):
            chk.verdict(k[7:] in COMPLETE_PREFIXES, "R6", k, b.loc(), "names starting with %r are refused, which is not an S3 naming rule: a valid name is rejected" % k[7:], nontrivial=False)
        if k.startswith("suffix:"):
            chk.verdict(k[7:] in COMPLETE_SUFFIXES, "R6", k, b.loc(), "names ending with %r are refused, which is not an S3 naming rule" % k[7:], nontrivial=False)
        if k.startswith("contains:") and k != "contains:..":
            chk.fail("R6", k, b.loc(), "names containing %r are refused, which is not an S3 naming rule" % k[9:])
    # every rejecting return is explained: number of `return false` == number of rejecting atoms
    chk.stats["bucket_name_atoms"] = sorted(atoms)
    n_rej = len(falses)
    n_atoms = len([k for k in atoms])
    chk.verdict(n_rej <= n_atoms, "R6", "no-unexplained-rejection", b.loc(), "check_bucket_name has %d rejecting returns but only %d recognised rule atoms: an unrecognised rule may refuse valid names" % (n_rej, n_atoms))


def run(chk, db, tier):
    roles = Roles(db)
    chk.rule("R1", "decode-once: the path given to the S3Path parsers passed exactly one percent-decoder since Uri::path(); no decoder inside parsers / unwrap helpers / request builder")
    chk.rule("R2", "IP guard: the host parser is reached only when neither parse::<SocketAddr> nor parse::<IpAddr> accepts the whole Host value")
    chk.rule("R3", "sibling agreement: both parsers build S3Path::Bucket/Object only from values that passed check_bucket_name / check_key; error mapping; CopySource likewise")
    chk.rule("R4", "key bound: check_key accepts exactly lengths 0..=1024")
    chk.rule("R5", "configuration refusal: MultiDomain stores only valid, pairwise non-overlapping (both directions) domains; empty refused")
    chk.rule("R6", "bucket naming predicate as an atom table: every core rule present with its exact constants/byte classes (evaluated over 256 bytes); extra rejections only from the complete rule list")
    chk.rule("R7", "verbatim key: the bucket and key stored in S3Path are pieces of the URI path cut from the front; no operation on the way drops or rewrites characters")
    chk.guard("R1", rule_r1, db)
    chk.guard("R2", rule_r2, db, roles)
    chk.guard("R3", rule_r3, db)
    chk.guard("R4", rule_r4, db)
    chk.guard("R4", rule_r4b, db)
    chk.guard("R1", rule_r1q, db)
    chk.guard("R5", rule_r5, db)
    chk.guard("R6", rule_r6, db)
    chk.guard("R7", rule_r7, db)
    chk.rule("R8", "verbatim host: the base domain is matched against the Host value as sent, not against a rewritten copy")
    chk.guard("R8", rule_r8, db)


META = {
    "level": "other",
    "explanation": "Exactly-once percent-decoding as a counter on the def-use chain from Uri::path() to the S3Path parsers plus a who-may-call "
                   "ban inside them; the IP guard as a dominance + helper-shape fact; sibling agreement of the two parsers (constructions "
                   "dominated by the validators applied to the same values); the key bound as a normalised interval; MultiDomain's refusal "
                   "conditions; the bucket-naming predicate decomposed into atoms whose byte classes are evaluated over all 256 bytes. Also: the bucket and key stored in S3Path are cut from the front of the URI path with no character-dropping operation on the way (verbatim key); CopySource validates the very values it stores. Round 4: the query reaches OrderedQs::parse undecoded (decoded once, by the parser); a request is refused as too long only by check_key's verdict on the decoded key.",
    "not_decided": ["host/domain resolution predicates (is_valid_domain, suffix matching) as string semantics", "semantics of IpAddr parsing"],
    "assumptions": ["rustc nightly MIR construction", "S3 bucket naming rules page (core / complete lists in the rule module)"],
}
