"""C07 - nothing runs without verified identity and access approval (DESIGN.md section 3, C07)."""
from .. import flow, guards, inline, paths
from ..facts import callee_def, short
from ..model import snake
from ..report import AnchorMissing
from ..roles import Roles
from . import sigcore
from .c01 import operation_impls
from .sigcore import first_writes_from, is_err_write

PREPARE_ADT = "s3s::ops::Prepare"


def _is_prepare(ty):
    """the type string of ops::Prepare, with or without generic arguments"""
    return ty == PREPARE_ADT or ty.startswith(PREPARE_ADT + "<")


def is_sig_check(t):
    d = callee_def(t)
    return d.startswith("s3s::ops::signature::SignatureContext") and short(d) == "check"


def find_prepare(db):
    c = [b for b in db.grep("SignatureContext", "check") if b.crate == "s3s" and any(is_sig_check(t) for _, t in b.calls())]
    c = inline.roots_with(db, c, lambda b: any(is_sig_check(t) for _, t in b.calls()))
    if len(c) != 1:
        raise AnchorMissing("expected one body calling SignatureContext::check, found %s" % [b.name for b in c])
    return c[0]


def continue_edges(body, bi):
    """(success edges, failure edges, outcomes) of a fallible call, whether its result is consumed by `?` or by a match"""
    o = flow.outcomes_of_call(body, bi)
    return o.get("Continue") | o.get("Ok"), o.get("Break") | o.get("Err"), o


def absent_edges(body, bi):
    """edges on which the Option produced by call `bi` is None: the None arm of a match / `if let`, the true edge of `.is_none()`, the false
    edge of `.is_some()`"""
    o = flow.outcomes_of_call(body, bi)
    edges = set(o.get("None"))
    for b2, t2 in body.calls():
        d = callee_def(t2)
        if d in ("core::option::Option::<T>::is_none", "core::option::Option::<T>::is_some") and t2["args"]:
            p = flow.op_place(t2["args"][0])
            if p is not None and p["l"] in o.carriers:
                o2 = flow.outcomes_of_call(body, b2)
                edges |= o2.get("true") if d.endswith("is_none") else o2.get("false")
    return edges


def absent_edges_of_place(body, pred):
    """the same for an Option read from a place (field) whose slice satisfies pred"""
    edges = set()
    for bi in body.live_blocks():
        t = body.blocks[bi]["term"]
        if t["k"] == "switch":
            src = paths.switch_source(body, t)
            if src and src[0] == "discr" and pred(flow.backward(body, src[1]["ops"][0], at=bi)):
                vals = paths.discr_values(t, src[1])
                edges |= {(bi, lab) for lab, v in vals.items() if v == "None"}
    for b2, t2 in body.calls():
        d = callee_def(t2)
        if d in ("core::option::Option::<T>::is_none", "core::option::Option::<T>::is_some") and t2["args"]:
            if pred(flow.backward(body, t2["args"][0], at=b2)):
                o2 = flow.outcomes_of_call(body, b2)
                edges |= o2.get("true") if d.endswith("is_none") else o2.get("false")
    return edges


def _result_leaves(body):
    """leaf definitions of the value a body returns (through copies and the Poll::Ready wrapper of an async block); None when unknown"""
    out = []
    live = flow.reach(body, [0], removed=frozenset(paths.const_dead_edges(body)))
    for bi in sorted(live):
        for st in body.blocks[bi]["stmts"]:
            if st["dst"]["l"] == 0 and not st["dst"]["proj"]:
                rv = st["rv"]
                if rv["k"] == "agg" and rv.get("adt") == "core::task::poll::Poll":
                    if rv.get("variant") != "Ready" or not rv["ops"]:
                        continue
                    r = flow._value_sources(body, rv["ops"][0], bi, 0, set())
                elif rv["k"] == "agg" and rv.get("adt") == "core::result::Result":
                    r = [{"bi": bi, "kind": rv["variant"], "rv": rv}]
                elif rv["k"] == "use":
                    r = flow._value_sources(body, rv["ops"][0], bi, 0, set())
                else:
                    r = None
                if r is None:
                    return None
                out += r
        t = body.blocks[bi]["term"]
        if t["k"] == "call" and t["dst"]["l"] == 0 and not t["dst"]["proj"]:
            d = callee_def(t)
            out.append({"bi": bi, "kind": "residual" if d.endswith("FromResidual::from_residual") else "call", "term": t})
    return out


def _refuses_anonymous(body):
    """every way the body returns success passes a successful access::default_check, or lies behind `credentials()` being present"""
    good = set()
    delegates = set()
    for bi, t in body.calls():
        d = callee_def(t)
        if d == "s3s::access::default_check":
            c, _, _ = continue_edges(body, bi)
            good |= c
            delegates.add(bi)
        elif short(d) == "credentials":
            o = flow.outcomes_of_call(body, bi)
            good |= o.get("Some")
            for b2, t2 in body.calls():
                d2 = callee_def(t2)
                if d2 in ("core::option::Option::<T>::is_none", "core::option::Option::<T>::is_some") and t2["args"]:
                    p = flow.op_place(t2["args"][0])
                    if p is not None and p["l"] in o.carriers:
                        o2 = flow.outcomes_of_call(body, b2)
                        good |= o2.get("false") if d2.endswith("is_none") else o2.get("true")
    if not good and not delegates:
        return False
    leaves = _result_leaves(body)
    if leaves is None:
        rets = flow.return_blocks(body)
        return bool(rets) and bool(good) and flow.must_pass(body, rets, good)
    if not leaves:
        return False
    for w in leaves:
        if w["kind"] in ("Err", "residual"):
            continue
        if w["kind"] == "call" and w["bi"] in delegates:
            continue
        if good and flow.must_pass(body, [w["bi"]], good):
            continue
        return False
    return True


def rule_prepare(chk, db, roles):
    body = find_prepare(db)
    A = [(bi, t) for bi, t in body.calls() if is_sig_check(t)]
    if len(A) != 1:
        raise AnchorMissing("prepare: %d calls of SignatureContext::check" % len(A))
    abi = A[0][0]
    a_cont, a_break, a_out = continue_edges(body, abi)
    if not a_cont:
        raise AnchorMissing("prepare: cannot find the Continue edge of `scx.check().await?`")
    s3_targets = [bi for bi, si, st in body.stmts() if st["rv"]["k"] == "agg" and st["rv"].get("adt") == PREPARE_ADT and st["rv"]["variant"] == "S3"]
    cr_targets = [bi for bi, si, st in body.stmts() if st["rv"]["k"] == "agg" and st["rv"].get("adt") == PREPARE_ADT and st["rv"]["variant"] == "CustomRoute"]
    chk.floor("R1", len(s3_targets) + len(cr_targets), 2, "Prepare::{S3,CustomRoute} constructions")
    # R1
    for i, tb in enumerate(s3_targets):
        chk.verdict(flow.must_pass(body, [tb], a_cont), "R1", "prepare->S3#%d" % i, body.loc(tb),
                    "Prepare::S3 is reachable without the signature check having succeeded")
    for i, tb in enumerate(cr_targets):
        chk.verdict(flow.must_pass(body, [tb], a_cont), "R1", "prepare->CustomRoute#%d" % i, body.loc(tb),
                    "Prepare::CustomRoute is reachable without the signature check having succeeded")
    # R3 access hook before Prepare::S3 whenever a provider is configured
    B = []
    for bi, t in body.calls():
        d = callee_def(t)
        if (t["callee"].get("trait") == roles.S3Access and short(d) == "check") or d == "s3s::access::default_check":
            B.append((bi, t))
    b_edges = set()
    for bi, t in B:
        c, br, _ = continue_edges(body, bi)
        b_edges |= c
    auth_none = set()
    for bi, t in body.calls():
        d = callee_def(t)
        if d in ("core::option::Option::<T>::is_some", "core::option::Option::<T>::is_none"):
            sl = flow.backward(body, t["args"][0])
            if ("CallContext", "auth") in sl.fields:
                o = flow.outcomes_of_call(body, bi)
                auth_none |= o.get("false") if d.endswith("is_some") else o.get("true")
    for l in []:
        pass
    # also `if let Some(auth) = ccx.auth` / match forms
    for bi in body.live_blocks():
        t = body.blocks[bi]["term"]
        if t["k"] == "switch":
            src = paths.switch_source(body, t)
            if src and src[0] == "discr" and "dyn s3s::auth::S3Auth" in src[1]["enum"]:
                r = flow.resolve_chain(body, src[1]["ops"][0]) or []
                if any(("CallContext", "auth") in flow.proj_fields(pr) for _, pr in r):
                    vals = paths.discr_values(t, src[1])
                    for lab, v in vals.items():
                        if v == "None":
                            auth_none.add((bi, lab))
    chk.floor("R3", len(B), 1, "access hook call sites in prepare (S3Access::check / default_check)")
    if not auth_none:
        chk.fail("R3", "auth-configured-test", body.loc(), "prepare has no test of `ccx.auth` being configured around the access block")
    for i, tb in enumerate(s3_targets):
        ok = flow.must_pass(body, [tb], b_edges | auth_none)
        chk.verdict(ok, "R3", "access-before-S3#%d" % i, body.loc(tb),
                    "with an auth provider configured, Prepare::S3 is reachable without a successful access check (S3Access::check / default_check)")
    # both hook variants: custom hook used iff configured
    kinds = {("custom" if t["callee"].get("trait") == roles.S3Access else "default") for _, t in B}
    chk.verdict(kinds == {"custom", "default"}, "R3", "hook-variants", body.loc(B[0][0]) if B else body.loc(), "access hooks in prepare: %s (expected the configured hook, else the default)" % sorted(kinds), nontrivial=False)
    # default_check refuses anonymous
    dc = db.body("s3s::access::default_check")
    if dc is None:
        chk.anchor_missing("R3", "access::default_check not found")
    else:
        ok = False
        for bi, t in dc.calls():
            if short(callee_def(t)) == "credentials":
                none = absent_edges(dc, bi)
                if none:
                    fw = first_writes_from(dc, none)
                    ok = bool(fw) and all(is_err_write(w) for w in fw)
        chk.verdict(ok, "R3", "default-refuses-anonymous", dc.loc(), "access::default_check does not return Err when credentials() is None")
    # the provided `S3Access::check` (what a hook that only overrides typed methods inherits) refuses anonymous as well
    provided = [b for b in db.grep("S3Access", "check") if b.crate == "s3s" and b.name.startswith("s3s::access::") and "::S3Access::check" in b.name
                and any(callee_def(t) == "s3s::access::default_check" or short(callee_def(t)) == "credentials" for _, t in b.calls())]
    outer = [b for b in db.grep("S3Access", "check") if b.crate == "s3s" and b.name.endswith("::S3Access::check") and b.name.startswith("s3s::access::")]
    if not outer:
        chk.anchor_missing("R3", "the provided method S3Access::check was not found")
    else:
        ok = False
        where = outer[0].loc()
        for pb in provided:
            ib = inline.inlined(db, pb)
            ok = ok or _refuses_anonymous(ib)
            where = pb.loc()
        chk.verdict(ok, "R3", "provided-check-refuses-anonymous", where,
                    "the provided method S3Access::check (inherited by hooks that override only typed methods) neither delegates to access::default_check "
                    "nor returns Err when credentials() is None")
    # R4 custom route sees only verified requests; CustomRoute only on match
    M = [(bi, t) for bi, t in body.calls() if t["callee"].get("trait") == roles.S3Route and short(callee_def(t)) == "is_match"]
    chk.floor("R4", len(M), 1, "S3Route::is_match call sites")
    m_true = set()
    for bi, t in M:
        chk.verdict(flow.must_pass(body, [bi], a_cont), "R4", "is_match-after-auth", body.loc(bi), "S3Route::is_match runs before the signature check succeeded")
        m_true |= flow.outcomes_of_call(body, bi).get("true")
    for i, tb in enumerate(cr_targets):
        chk.verdict(flow.must_pass(body, [tb], m_true), "R4", "CustomRoute-only-on-match#%d" % i, body.loc(tb), "Prepare::CustomRoute is returned without is_match being true")
    # R9 denial is final
    for nm, bi in [("signature", abi)] + [("access#%d" % i, b) for i, (b, _) in enumerate(B)]:
        c, br, _ = continue_edges(body, bi)
        fw = first_writes_from(body, br) if br else []
        chk.verdict(bool(fw) and all(is_err_write(w) for w in fw), "R9", "prepare." + nm, body.loc(bi),
                    "a denial (%s) does not end processing with an error return" % nm)
        r = flow.reach_from_edges(body, br) if br else set()
        chk.verdict(not any(t in r for t in s3_targets + cr_targets), "R9", "prepare." + nm + ".no-resume", body.loc(bi),
                    "after a denial (%s) Prepare::S3/CustomRoute is still reachable" % nm, nontrivial=False)
    return body, abi, a_out


def rule_r2(chk, db, prep, abi, a_out):
    """who-may-write S3Extensions.credentials; identity shown to hook/backend == the verifier's"""
    writers = []
    covered = {prep.name} | set(getattr(prep, "inlined_from", []))      # prepare is studied with its helpers inlined
    for b in [prep] + [x for x in db.grep("credentials") if x.name not in covered]:
        if b.crate != "s3s":
            continue
        for bi, si, st in b.stmts():
            pf = flow.proj_fields(flow.norm_proj(st["dst"]["proj"]))
            if pf and pf[-1] == ("S3Extensions", "credentials"):
                writers.append((b, bi, st))
    chk.floor("R2", len(writers), 1, "writes to S3Extensions.credentials")
    for b, bi, st in writers:
        if b is not prep:
            # build_s3_request moves it out with take(): a call, not an assignment; any other assigning body is a violation
            chk.fail("R2", "writer@" + db.root_of(b).name.replace("s3s::", ""), b.loc(bi), "S3Extensions.credentials is assigned outside the body that verifies signatures")
            continue
        rv = st["rv"]
        sl = flow.backward(b, rv["ops"][0])
        if flow.is_none_literal(b, {"p": {"l": st["dst"]["l"], "proj": []}}) and False:
            pass
        is_none = (rv["k"] == "agg" and rv.get("adt") == "core::option::Option" and rv.get("variant") == "None") or \
            (rv["k"] == "use" and flow.is_none_literal(b, rv["ops"][0]))
        if is_none:
            chk.ok("R2", "write-none#%d" % bi, b.loc(bi), nontrivial=False)
            continue
        # Some(Credentials{access_key: cred.access_key, secret_key: cred.secret_key}) from the check result
        from_check = any(cb == abi for cb, _, _ in sl.calls)
        ak = sk = False
        for cb, rv2 in sl.aggs:
            if rv2.get("adt", "").startswith("s3s::auth::") and short(rv2.get("adt", "")) == "Credentials":
                m = dict(zip(rv2["fields"], rv2["ops"]))
                s_ak = flow.backward(b, m["access_key"])
                s_sk = flow.backward(b, m["secret_key"])
                ak = ("CredentialsExt", "access_key") in s_ak.fields and ("CredentialsExt", "secret_key") not in s_ak.fields
                sk = ("CredentialsExt", "secret_key") in s_sk.fields
        chk.verdict(from_check and ak and sk, "R2", "write-some#%d" % bi, b.loc(bi),
                    "request credentials are not copied field-for-field from the verified CredentialsExt (from check: %s, access_key: %s, secret_key: %s)" % (from_check, ak, sk))
        # dominated by the Some outcome of the check
        some = a_out.get("Some")
        chk.verdict(bool(some) and flow.must_pass(b, [bi], some), "R2", "write-some#%d.dominated" % bi, b.loc(bi),
                    "credentials are stored on a path where the signature check did not return Some(verified)", nontrivial=False)
    # region / service
    for fld in ("region", "service"):
        n = 0
        for bi, si, st in prep.stmts():
            pf = flow.proj_fields(flow.norm_proj(st["dst"]["proj"]))
            if pf and pf[-1] == ("S3Extensions", fld):
                n += 1
                sl = flow.backward(prep, st["rv"]["ops"][0])
                chk.verdict(("CredentialsExt", fld) in sl.fields, "R2", fld + "#%d" % bi, prep.loc(bi), "s3ext.%s does not come from the verified CredentialsExt.%s" % (fld, fld), nontrivial=False)
    # build_s3_request: credentials <- take() of s3ext.credentials
    bs = db.body("s3s::ops::build_s3_request")
    if bs is None:
        chk.anchor_missing("R2", "build_s3_request not found")
    else:
        aggs = [(bi, st["rv"]) for bi, si, st in bs.stmts() if st["rv"]["k"] == "agg" and st["rv"].get("adt") == "s3s::protocol::S3Request"]
        ok = False
        for bi, rv in aggs:
            m = dict(zip(rv["fields"], rv["ops"]))
            sl = flow.backward(bs, m["credentials"])
            ok = ("S3Extensions", "credentials") in sl.fields
        chk.verdict(ok, "R2", "backend-identity", bs.loc(), "S3Request.credentials is not the verified s3ext.credentials")
    # S3AccessContext.credentials <- as_ref() of the same field
    for bi, si, st in prep.stmts():
        rv = st["rv"]
        if rv["k"] == "agg" and rv.get("adt") == "s3s::access::context::S3AccessContext":
            m = dict(zip(rv["fields"], rv["ops"]))
            sl = flow.backward(prep, m["credentials"])
            chk.verdict(("S3Extensions", "credentials") in sl.fields, "R2", "hook-identity", prep.loc(bi), "the identity shown to the access hook is not the verified s3ext.credentials")


def rule_r10(chk, db):
    """the identity is the presented access key, verbatim, on both sides: the provider shipped with the adapter looks the secret up under
    exactly the key it was asked for.  (The verifiers copy the presented key into the credentials as it is; a provider that trims or
    case-folds before its lookup verifies a request under one key while hooks and backend see another - a deny-list keyed on the access key
    is bypassed by padding it.)"""
    from .c12 import lossy_ops
    impls = [b for b in db.bodies.values() if b.crate == "s3s" and b.name.startswith("s3s::auth::") and "::tests::" not in b.name and
             any(short(callee_def(t)) in ("get", "get_key_value", "contains_key", "binary_search_by_key", "binary_search_by") and
                 ("collections" in callee_def(t) or "hash" in callee_def(t).lower() or "slice" in callee_def(t)) for _, t in b.calls())]
    n = 0
    for b in impls:
        for bi, t in b.calls():
            d = callee_def(t)
            if short(d) not in ("get", "get_key_value", "contains_key", "binary_search_by_key", "binary_search_by") or not ("collections" in d or "hash" in d.lower() or "slice" in d):
                continue
            if len(t["args"]) < 2:
                continue
            sl = flow.backward(b, t["args"][1], at=bi)
            if not sl.params:
                continue
            n += 1
            lossy = lossy_ops(sl)
            chk.verdict(not lossy, "R10", "provider-looks-up-verbatim@%s#%d" % (short(db.root_of(b).name), bi), b.loc(bi),
                        "the provider rewrites the presented access key (%s) before it looks the secret up: the request is verified under one key "
                        "while the credentials shown to hooks and backend carry the presented text" % ", ".join(sorted({short(x) for x in lossy})))
    chk.floor("R10", n, 1, "key lookups in the provided S3Auth implementation")


def rule_r5(chk, db, roles):
    """ops::call: Operation::call only under Prepare::S3; route.call only after route.check_access succeeded"""
    def performs_call(b):
        return any(t["callee"].get("trait") == roles.Operation and short(callee_def(t)) == "call" and t["callee"].get("virtual") for _, t in b.calls())
    direct = [b for b in db.grep("s3s::ops::Operation::call") if b.crate == "s3s" and performs_call(b)]
    cands = inline.roots_with(db, direct, performs_call)       # ops::call with its (sync / async) helpers inlined
    if len(cands) != 1:
        raise AnchorMissing("ops::call body not found")
    body = cands[0]
    for bi, t in body.calls():
        if t["callee"].get("trait") == roles.Operation and short(callee_def(t)) == "call":
            f = guards.dominating_facts(body, bi)
            prep_s3 = any(x[0] == "enum" and _is_prepare(x[1]) and x[2] == frozenset(["S3"]) for x in f)
            # `match prepare().await { Ok(p) => .. }` or `prepare().await.map_err(..)?`
            prep_ok = any(x[0] == "enum" and "Result<s3s::ops::Prepare" in x[1] and x[2] == frozenset(["Ok"]) for x in f) or \
                any(x[0] == "enum" and "ControlFlow<" in x[1] and x[1].rstrip(">").endswith("s3s::ops::Prepare") and x[2] == frozenset(["Continue"]) for x in f)
            chk.verdict(prep_s3 and prep_ok, "R5", "op-call-after-prepare", body.loc(bi), "Operation::call is reachable without prepare() having returned Ok(Prepare::S3)")
    # custom route
    rr = db.calls_matching(lambda t: t["callee"].get("trait") == roles.S3Route and short(callee_def(t)) == "call", "S3Route")
    rr = [(b, bi, t) for b, bi, t in rr if b.crate == "s3s"]
    chk.floor("R5", len(rr), 1, "S3Route::call sites")
    for b, bi, t in rr:
        rc = [(b2, t2) for b2, t2 in b.calls() if t2["callee"].get("trait") == roles.S3Route and short(callee_def(t2)) == "check_access"]
        ok = False
        for b2, t2 in rc:
            c, br, _ = continue_edges(b, b2)
            if c and flow.must_pass(b, [bi], c):
                ok = True
                fw = first_writes_from(b, br) if br else []
                chk.verdict(bool(fw) and all(is_err_write(w) for w in fw), "R9", "route.check_access", b.loc(b2), "a route access denial does not end in an error")
        chk.verdict(ok, "R5", "route-call-after-check_access", b.loc(bi), "S3Route::call is reachable without check_access having succeeded")
        # and the enclosing body is entered only under Prepare::CustomRoute
        root = db.root_of(b)
        if b is not body:
            site = None
            for bi2, si, st in body.stmts():
                if st["rv"]["k"] == "agg" and st["rv"].get("def") == b.name:
                    site = bi2
            if site is not None:
                f = guards.dominating_facts(body, site)
                ok2 = any(x[0] == "enum" and _is_prepare(x[1]) and x[2] == frozenset(["CustomRoute"]) for x in f)
                chk.verdict(ok2, "R5", "route-only-under-CustomRoute", body.loc(site), "the custom-route future is built outside the Prepare::CustomRoute arm")
    # default check_access refuses anonymous
    dca = [b for b in db.grep("check_access") if b.crate == "s3s" and b.name.startswith(roles.S3Route + "::check_access")]
    inner = None
    for b in dca:
        for x in db.nested(b):
            if len(x.blocks) > 5 and (inner is None or len(x.blocks) > len(inner.blocks)):
                inner = x
    if inner is None:
        chk.anchor_missing("R5", "default body of S3Route::check_access not found")
    else:
        none = absent_edges_of_place(inner, lambda sl: ("S3Request", "credentials") in sl.fields or any(f == "credentials" for _, f in sl.fields))
        fw = first_writes_from(inner, none) if none else []
        ok = bool(fw) and all(is_err_write(w) for w in fw)
        chk.verdict(ok, "R5", "route-default-refuses-anonymous", inner.loc(), "the default S3Route::check_access does not return Err for anonymous requests")


def rule_r6(chk, db, roles):
    impls = operation_impls(db)
    n = 0
    for ty, fns in sorted(impls.items()):
        name = short(ty)
        call = fns.get("call")
        if call is None:
            continue
        bodies = db.nested(call)
        D = [(b, bi, t) for b in bodies for bi, t in b.calls() if t["callee"].get("trait") == roles.S3]
        C = [(b, bi, t) for b in bodies for bi, t in b.calls() if t["callee"].get("trait") == roles.S3Access]
        if len(D) != 1 or len(C) != 1:
            chk.fail("R6", name, call.loc(), "%d backend calls / %d typed hook calls (C01.R3 reports the detail)" % (len(D), len(C)))
            continue
        n += 1
        db_, dbi, dt = D[0]
        cb, cbi, ct = C[0]
        # target in the hook's body: the backend call itself, or the construction site of the nested future that holds it
        target = dbi
        if db_ is not cb:
            target = None
            x = db_
            while x is not cb and x is not None:
                parent = db.body(x.parent)
                if parent is None:
                    break
                for bi2, si, st in parent.stmts():
                    if st["rv"]["k"] == "agg" and st["rv"].get("def") == x.name:
                        if parent is cb:
                            target = bi2
                x = parent
            if target is None:
                chk.fail("R6", name, call.loc(), "backend call is in a nested body whose construction site cannot be related to the typed hook")
                continue
        c_cont, c_break, _ = continue_edges(cb, cbi)
        # access None edge
        acc_none = set()
        for bi in cb.live_blocks():
            t = cb.blocks[bi]["term"]
            if t["k"] == "switch":
                src = paths.switch_source(cb, t)
                if src and src[0] == "discr" and "dyn s3s::access::generated::S3Access" in src[1]["enum"]:
                    vals = paths.discr_values(t, src[1])
                    acc_none |= {(bi, lab) for lab, v in vals.items() if v == "None"}
        ok = bool(c_cont) and flow.must_pass(cb, [target], c_cont | acc_none) and bool(acc_none)
        chk.verdict(ok, "R6", name + ".hook-before-backend", cb.loc(cbi), "%s: the backend is reachable without the typed access hook having approved (when a hook is configured)" % name)
        # deserialize_http first
        de = [(bi, t) for bi, t in cb.calls() if short(callee_def(t)) == "deserialize_http"]
        ok = False
        for bi, t in de:
            c, br, _ = continue_edges(cb, bi)
            if c and flow.must_pass(cb, [target, cbi], c):
                ok = True
        chk.verdict(ok, "R6", name + ".input-first", cb.loc(), "%s: hook/backend reachable without a successfully deserialised input" % name, nontrivial=False)
        # same request object shown to hook and backend
        hook_req = flow.resolve_place(cb, ct["args"][1])
        if db_ is cb:
            be_req = flow.resolve_place(cb, dt["args"][1])
            same = hook_req is not None and be_req is not None and hook_req[0] == be_req[0]
        else:
            # captured: the nested future's aggregate must capture the hook's request local
            same = False
            for bi2, si, st in cb.stmts():
                if st["rv"]["k"] == "agg" and st["rv"].get("agg") in ("coroutine", "closure") and bi2 == target:
                    for o in st["rv"]["ops"]:
                        r = flow.resolve_place(cb, o)
                        if r is not None and hook_req is not None and r[0] == hook_req[0]:
                            same = True
        chk.verdict(same, "R6", name + ".same-request", cb.loc(cbi), "%s: the request shown to the typed hook is not the one handed to the backend" % name)
        # R9: hook denial is final
        fw = first_writes_from(cb, c_break) if c_break else []
        chk.verdict(bool(fw) and all(is_err_write(w) for w in fw), "R9", name + ".hook-denial", cb.loc(cbi), "%s: a typed-hook denial does not end in an error return" % name, nontrivial=False)
    chk.floor("R6", n, 96, "Operation::call bodies with hook and backend")


def rule_r7(chk, db, roles):
    """who-may-call: virtual calls on dyn S3 / dyn S3Route::call only from Operation::call bodies / ops::call"""
    sites = db.calls_matching(lambda t: t["callee"].get("trait") == roles.S3, roles.S3) + \
        db.calls_matching(lambda t: t["callee"].get("trait") == roles.S3Route, roles.S3Route)
    n = 0
    for b, bi, t in sites:
        if b.crate != "s3s" or not t["callee"].get("virtual"):
            continue
        root = db.root_of(b)
        n += 1
        if t["callee"].get("trait") == roles.S3:
            ok = root.impl_trait == roles.Operation and short(root.name) == "call"
            chk.verdict(ok, "R7", "backend-call@" + root.name.replace("s3s::", "")[:80], b.loc(bi), "backend method %s is invoked outside an Operation::call body" % short(callee_def(t)), nontrivial=False)
        else:
            ok = inline.top_owners(db, b) <= {"s3s::ops::call", "s3s::ops::prepare"}
            chk.verdict(ok, "R7", "route-call@" + root.name.replace("s3s::", "")[:80] + "." + short(callee_def(t)), b.loc(bi), "S3Route::%s is invoked outside ops::call/prepare" % short(callee_def(t)), nontrivial=False)
    chk.floor("R7", n, 99, "virtual calls on dyn S3 / dyn S3Route")
    # Operation::call (virtual) only from ops::call; ops::call only from S3Service::call
    oc = db.calls_matching(lambda t: t["callee"].get("trait") == roles.Operation and short(callee_def(t)) == "call", "ops::Operation::call")
    for b, bi, t in oc:
        if b.crate == "s3s":
            chk.verdict(inline.top_owners(db, b) == {"s3s::ops::call"}, "R7", "Operation::call@" + db.root_of(b).name.replace("s3s::", ""), b.loc(bi), "Operation::call is invoked outside ops::call", nontrivial=False)
    for b, bi, t in db.callers_of("s3s::ops::call"):
        if b.crate == "s3s":
            chk.verdict("S3Service" in db.root_of(b).name, "R7", "ops::call@" + db.root_of(b).name.replace("s3s::", ""), b.loc(bi), "ops::call is invoked outside S3Service::call", nontrivial=False)


def run(chk, db, tier):
    roles = Roles(db)
    chk.rule("R1", "every Ok(Prepare::_) is edge-dominated by the Continue edge of the signature check")
    chk.rule("R2", "who-may-write credentials: only the verifying body, from the verified CredentialsExt field-for-field; hook and backend see that identity")
    chk.rule("R3", "with a provider configured, Prepare::S3 is preceded by a successful S3Access::check / default_check; default_check refuses anonymous")
    chk.rule("R4", "S3Route::is_match runs only after the signature check; Prepare::CustomRoute only on match")
    chk.rule("R5", "Operation::call only under Ok(Prepare::S3); S3Route::call only after check_access succeeded; default check_access refuses anonymous")
    chk.rule("R6", "each Operation::call: backend dominated by deserialize_http and (when configured) the typed hook's approval; same request object")
    chk.rule("R7", "who-may-call: dyn S3 methods only from Operation::call bodies; S3Route::call only from ops::call; Operation::call only from ops::call")
    chk.rule("R8", "signature presented without provider => refusal (V3 for all five verifiers)")
    chk.rule("R9", "denial is final: Break edges of the signature check, access hooks and route check reach only error returns")
    r = chk.guard("R1", rule_prepare, db, roles)
    if r:
        prep, abi, a_out = r
        chk.guard("R2", rule_r2, db, prep, abi, a_out)
    chk.guard("R5", rule_r5, db, roles)
    chk.guard("R6", rule_r6, db, roles)
    chk.rule("R10", "the provided S3Auth looks the secret up under the presented access key verbatim (no trimming / case folding before the lookup)")
    chk.guard("R10", rule_r10, db)
    chk.guard("R7", rule_r7, db, roles)
    # R8 = V3 + V1 for every verifier (an accepted identity is always a verified one)
    vs = sigcore.find_verifiers(db)
    chk.floor("R8", len(vs), 5, "verifier bodies")
    for v in vs:
        chk.guard("V1", lambda c, vv=v: sigcore.rule_v1(c, vv))
        chk.guard("V3", lambda c, vv=v: sigcore.rule_v3(c, vv, roles))
        if v.cmp:
            chk.guard("V2", lambda c, vv=v: sigcore.rule_v2(c, vv, roles))
    chk.guard("V3", sigcore.rule_v3_check, db)
    chk.rule("V1", "compare-before-accept for all five verifiers (see C05/C06/C10/C11)")
    chk.rule("V2", "identity attribution for all five verifiers")
    chk.rule("V3", "provider required; SignatureContext::check never drops a verdict")


META = {
    "level": "other",
    "explanation": "Ordering and provenance facts over the MIR of prepare, ops::call and all 96 Operation::call bodies: the signature check's "
                   "Continue edge dominates every Prepare result and the custom-route match; with a provider configured a successful access "
                   "check dominates Prepare::S3; typed hook approval and input deserialisation dominate the backend call; credentials are "
                   "written only from the verified CredentialsExt; denials reach only error returns; who-may-call for dyn S3 / S3Route. Also: the provided S3Access::check (what a hook that overrides only typed methods inherits) refuses anonymous requests.",
    "not_decided": ["behaviour of user-supplied S3Auth / S3Access / S3Route implementations"],
    "assumptions": ["rustc nightly MIR construction", "await loops resume at the same program point (the yield back edge is not a new iteration of user code)"],
}
