"""C15 - event-stream framing (DESIGN.md section 3, C15)."""
from .. import flow, guards, paths, writes, inline
from ..facts import callee_def, short
from ..report import AnchorMissing

M = "s3s::dto::event_stream::"
BE_PUTS = {"put_u32": 4, "put_u16": 2, "put_u8": 1, "put_u64": 8}


def find_serialize(db):
    b = db.body(M + "Message::serialize")
    if b is None:
        c = [x for x in db.grep("crc32fast::hash") if x.crate == "s3s" and x.kind != "Closure"]
        if len(c) != 1:
            raise AnchorMissing("frame writer (the fn calling crc32fast::hash) not found")
        b = c[0]
    return b


def fields_of(sl, adt):
    return {f for a, f in sl.fields if a == adt}


def rule_r1_r2(chk, db):
    b = inline.inlined(db, find_serialize(db))       # with its stages (length computation, prelude, header loop) inlined
    buf = None
    for l in range(len(b.locals)):
        if buf is None and "Vec<u8>" in b.locals[l] and not b.locals[l].startswith("&") and b.local_name(l) is not None and l < len(b.original.locals if hasattr(b, "original") else b.locals):
            # the writer's own (owned) byte buffer, whatever it is called
            w_ = [1 for _, t in b.calls() if short(callee_def(t)).startswith("put") and t["args"] and writes.targets_buffer(b, t["args"][0], l)]
            if w_:
                buf = l
    if buf is None:
        # the local converted into the returned Bytes
        for w in flow.return_writes(b):
            if w["kind"] == "Ok":
                sl = flow.backward(b, w["rv"]["ops"][0], at=w["bi"])
                for l in sl.locals:
                    if "Vec<u8>" in b.locals[l] and not b.locals[l].startswith("&"):
                        buf = l
    if buf is None:
        raise AnchorMissing("frame buffer not found")
    buf_local = buf
    buf = writes.move_aliases(b, buf)        # the buffer may travel through a wrapper (`FrameBuf(buf)`) between the stages
    # closures handed to iterator adaptors (`headers.iter().try_for_each(|h| h.put_into(&mut buf))`) and methods that take the buffer are
    # expanded into their own appends
    ev = writes.buffer_events(b, buf, db, prim=set(BE_PUTS) | {"put", "put_slice", "extend_from_slice", "push", "put_u64", "put_i32", "put_bytes"})
    desc = writes.describe(ev)
    shape = [(e["short"], bool(e["in_loop"])) for e in ev]
    want = [("put_u32", False), ("put_u32", False), ("put_u32", False), ("put_u8", True), ("put", True), ("put_u8", True), ("put_u16", True), ("put", True),
            ("put", False), ("put_u32", False)]
    norm = [(("put" if s in ("put", "put_slice", "extend_from_slice") else s), l) for s, l in shape]
    le = [e["short"] for e in ev if e["short"].endswith("_le") or e["short"].endswith("_ne")]
    chk.verdict(not le, "R1", "big-endian", b.loc(le and ev[0]["bi"]) if le else b.loc(), "little/native-endian writers used: %s (the format is big-endian)" % le, nontrivial=False)
    if norm != want:
        chk.fail("R1", "layout", b.loc(), "frame write trace %s differs from the specified layout "
                 "[total:u32 headers_len:u32 prelude_crc:u32 (name_len:u8 name 7:u8 value_len:u16 value)* payload? message_crc:u32]" % desc, {"trace": desc})
        return
    chk.ok("R1", "layout", b.loc(), {"trace": desc})
    chk.sample({"rule": "C15.R1", "frame_write_trace": desc})
    hashes = [(bi, t) for bi, t in b.calls() if callee_def(t) == "crc32fast::hash"]
    order = {bi: i for i, bi in enumerate(writes.rpo(b))}
    hashes.sort(key=lambda x: order.get(x[0], 0))
    chk.verdict(len(hashes) == 2, "R1", "two-crcs", b.loc(), "the frame writer computes %d CRCs (prelude and message expected)" % len(hashes))
    # operands
    s_total = flow.backward(b, ev[0]["args"][0], at=ev[0]["bi"])
    s_hdr = flow.backward(b, ev[1]["args"][0], at=ev[1]["bi"])
    t_f = fields_of(s_total, "Message")
    h_f = fields_of(s_hdr, "Message")
    chk.verdict({"headers", "payload"} <= t_f, "R1", "field1-total-length", b.loc(ev[0]["bi"]), "the first u32 does not derive from both the headers and the payload (derives from %s)" % sorted(t_f))
    chk.verdict("headers" in h_f and "payload" not in h_f, "R1", "field2-headers-length", b.loc(ev[1]["bi"]), "the second u32 must be the headers length only (derives from %s)" % sorted(h_f))
    if len(hashes) == 2:
        for i, (hbi, ht) in enumerate(hashes):
            sl = flow.backward(b, ht["args"][0], at=hbi)
            whole = not any(short(callee_def(t)) in ("index", "get", "split_at", "slice", "as_ptr") or "Index" in callee_def(t) for _, t, _ in sl.calls)
            rc = flow.resolve_chain(b, ht["args"][0]) or []
            in_buf = (buf in sl.locals) if not isinstance(buf, tuple) else any((a in sl.locals) if not isinstance(a, tuple) else (a[1] in sl.locals) for a in buf[1])
            chk.verdict(whole and in_buf, "R1", "crc%d-over-whole-buffer" % (i + 1), b.loc(hbi), "CRC %d is not computed over the whole buffer written so far" % (i + 1))
        def direct_call(op):
            r = flow.resolve_place(b, op)
            df = flow.single_def(b, r[0]) if r else None
            return df["bi"] if df is not None and df["kind"] == "call" else None
        chk.verdict(direct_call(ev[2]["args"][0]) == hashes[0][0], "R1", "prelude-crc-written", b.loc(ev[2]["bi"]), "the third u32 is not the CRC of the 8 prelude bytes")
        chk.verdict(direct_call(ev[-1]["args"][0]) == hashes[1][0], "R1", "message-crc-written", b.loc(ev[-1]["bi"]), "the trailing u32 is not the CRC of everything before it")
        # ordering: crc1 after the two length writes and before the headers; crc2 after the payload
        chk.verdict(order[ev[1]["bi"]] < order[hashes[0][0]] < order[ev[2]["bi"]] and order[ev[8]["bi"]] < order[hashes[1][0]] < order[ev[9]["bi"]] or
                    (order[ev[7]["bi"]] < order[hashes[1][0]]), "R1", "crc-positions", b.loc(hashes[0][0]), "the CRCs are not computed at the specified points", nontrivial=False)
    # header items
    nm_len, nm, tag, v_len, v = ev[3], ev[4], ev[5], ev[6], ev[7]
    tagc = tag["consts"][:1]
    if tagc and isinstance(tagc[0], tuple) and tagc[0][0] == "item":
        tagc = [flow.const_int_eval(tag["body"], {"c": "item", "def": tagc[0][1]})]        # a named constant (`HEADER_VALUE_TYPE_STRING`)
    chk.verdict(tagc == [7], "R1", "value-type-7", tag["body"].loc(tag["bi"]), "header value type byte is %s (7 = string)" % tagc)

    def hdr_field(e, f, length):
        sl = flow.backward(e["body"], e["args"][0], at=e["bi"])
        fs = fields_of(sl, "Header")
        has_len = any(short(callee_def(t)) == "len" for _, t, _ in sl.calls)
        lossy = [short(callee_def(t)) for _, t, _ in sl.calls if short(callee_def(t)) in ("min", "clamp", "truncate", "split_to", "slice", "index", "get", "saturating_sub", "wrapping_sub")]
        return fs == {f} and has_len == length and not lossy, fs, lossy
    for e, f, ln, what in ((nm_len, "name", True, "name length"), (nm, "name", False, "name bytes"), (v_len, "value", True, "value length"), (v, "value", False, "value bytes")):
        ok, fs, lossy = hdr_field(e, f, ln)
        chk.verdict(ok, "R1", "header-" + what.replace(" ", "-"), b.loc(e["bi"]), "header %s is written from %s%s (expected exactly Header.%s)" % (what, sorted(fs), " through %s" % lossy if lossy else "", f))
    s_pay = flow.backward(b, ev[8]["args"][0], at=ev[8]["bi"])
    chk.verdict(fields_of(s_pay, "Message") == {"payload"}, "R1", "payload-bytes", b.loc(ev[8]["bi"]), "the payload item is not Message.payload")
    # narrowing through TryFrom + `?`, never `as`
    tf_bodies = []
    for e_ in ev:
        if not any(e_["body"] is x for x in tf_bodies):
            tf_bodies.append(e_["body"])
    if not any(b is x for x in tf_bodies):
        tf_bodies.append(b)
    ok_tf = 0
    for xb in tf_bodies:
        for bi, t in xb.calls():
            if callee_def(t) == "core::convert::TryFrom::try_from":
                o = flow.outcomes_of_call(xb, bi)
                if o.get("Break") or o.get("Err"):
                    ok_tf += 1
    chk.verdict(ok_tf >= 4, "R2", "checked-narrowing", b.loc(), "only %d checked narrowings (u32 total, u32 headers, u8 name, u16 value expected): an overlong item would be silently truncated" % ok_tf)
    for e in (ev[0], ev[1], nm_len, v_len):
        sl = flow.backward(e["body"], e["args"][0], at=e["bi"])
        casts = []
        for l in sl.locals:
            for df in e["body"].defs().get(l, []):
                if df["kind"] == "assign" and df["rv"]["k"] == "cast" and "IntToInt" in df["rv"].get("ck", "") and df["rv"].get("ty") in ("u8", "u16", "u32"):
                    casts.append(b.loc(df["bi"]))
        chk.verdict(not casts, "R2", "no-as-truncation#%d" % e["bi"], casts[0] if casts else b.loc(e["bi"]), "a length is narrowed with `as` (wraps silently) at %s" % casts, nontrivial=False)
    # width agreement: the checked narrowing in front of a length field targets exactly the width that is written (a narrower guard
    # refuses items the format can carry; a wider one would be truncated by the write)
    import re as _re
    for e, what in ((ev[0], "total length"), (ev[1], "headers length"), (nm_len, "header name length"), (v_len, "header value length")):
        m = _re.search(r"put_(u8|u16|u32|u64)", e["short"]) if "short" in e else None
        if m is None:
            continue
        written = m.group(1)
        sl = flow.backward(e["body"], e["args"][0], at=e["bi"])
        targets = sorted({(t["callee"].get("args") or "").strip("[]").split(",")[0].strip() for _, t, _ in sl.calls
                          if callee_def(t) == "core::convert::TryFrom::try_from"})
        if not targets:
            continue        # reported by checked-narrowing / no-as-truncation
        chk.verdict(targets == [written], "R2", "narrowing-width:" + what.replace(" ", "-"), b.loc(e["bi"]),
                    "the %s is written as %s but its checked narrowing targets %s: items whose length fits the field are refused (or overlong ones truncated)"
                    % (what, written, ", ".join(targets)))
    # R2 length accounting: per-header constant and fixed part.  "Per header" = a checked addition inside a closure (fold) or inside a loop of
    # the writer; "fixed" = one outside any loop.
    clo = db.nested(b, include_self=False)
    for hn in getattr(b, "inlined_from", []):
        hb = db.body(hn)
        if hb is not None:
            clo += db.nested(hb, include_self=False)
    loops = writes.loop_blocks(b)
    consts_in_fold, consts_outer = [], []
    lens = set()
    def iterating(x):
        """closure handed to an iterator adaptor (fold / try_fold / map / for_each ...), as opposed to e.g. Option::and_then"""
        par = db.body(x.parent)
        if par is None:
            return True
        for _, _, st in par.stmts():
            if st["rv"]["k"] == "agg" and st["rv"].get("def") == x.name:
                cl = st["dst"]["l"]
                for _, t2 in par.calls():
                    if any(flow.op_place(a) is not None and flow.op_place(a)["l"] == cl for a in t2["args"]):
                        return callee_def(t2).startswith("core::iter::") or short(callee_def(t2)) in ("try_fold", "fold", "for_each", "sum")
        return True

    def per_item(x, depth=0):
        """the closure runs once per header: handed to an iterator adaptor, or created inside a loop (or inside such a closure)"""
        if iterating(x):
            return True
        par = db.body(x.parent) if x.parent != b.name else b
        if par is None or depth > 3:
            return False
        site = [bi2 for bi2, _, st in par.stmts() if st["rv"]["k"] == "agg" and st["rv"].get("def") == x.name]
        if site and site[0] in writes.loop_blocks(par):
            return True
        return per_item(par, depth + 1) if par.kind == "Closure" and par is not b else False
    iter_ctx = {x.name: per_item(x) for x in clo}
    for x in [b] + clo:
        for bi, t in x.calls():
            per_header = (x is not b and iter_ctx.get(x.name, True)) or (x is b and bi in loops)
            if short(callee_def(t)) == "checked_add":
                for a_ in t["args"]:
                    v_ = flow.const_int_eval(x, a_)
                    if v_ is not None:
                        (consts_in_fold if per_header else consts_outer).append(v_)
            if short(callee_def(t)) == "len" and per_header:
                lens |= {f for a, f in flow.backward(x, t["args"][0], at=bi).fields if a == "Header"}
        for bi, si, st in x.stmts():
            rv = st["rv"]
            if rv["k"] == "bin" and rv["op"].startswith("Add"):
                for o in rv["ops"]:
                    v_ = flow.const_int_eval(x, o) if isinstance(o, dict) and "c" in o else None
                    if v_ is not None:
                        ((consts_in_fold if (x is not b and iter_ctx.get(x.name, True)) or (x is b and bi in loops) else consts_outer)).append(v_)
    # every header is written and every header is counted: the declared lengths stay equal to the bytes on the wire only if no iteration of
    # the header loop skips an item that the length computation counts (and vice versa)
    for e, what in ((nm_len, "name length"), (nm, "name bytes"), (tag, "value type"), (v_len, "value length"), (v, "value bytes")):
        skip = _skippable(e)
        if skip is None:
            chk.advisory("header %s: the per-header write is neither in a loop of its own body nor in a unit closure; skipping is not decided" % what)
            continue
        chk.verdict(not skip, "R2", "every-header-written:" + what.replace(" ", "-"), e["body"].loc(e["bi"]),
                    "an iteration of the header loop can finish without writing the header %s (blocks %s reach the next iteration around the write), while the "
                    "declared headers length counts every header" % (what, skip))
    for x in clo:
        if not iter_ctx.get(x.name, True):
            continue
        adds = [bi for bi, t in x.calls() if short(callee_def(t)) == "checked_add" or short(callee_def(t)) == "len"]
        somes = [w["bi"] for w in flow.return_writes(x) if w["kind"] in ("Some", "Ok", "use", "call")]
        if not adds or not somes:
            continue
        for bi in adds:
            r = flow.reach(x, [0], stop_blocks=frozenset([bi]))
            bad = sorted(s_ for s_ in somes if s_ in r and s_ != bi)
            chk.verdict(not bad, "R2", "every-header-counted:%s#%d" % (short(callee_def(x.blocks[bi]["term"])), adds.index(bi)), x.loc(bi),
                        "the per-header length closure can return a count without this term (return blocks %s are reachable around it): headers that are written would not be counted" % bad)
    # bytes appended per header by the trace: 1 (name len) + 1 (type) + 2 (value len) = 4; fixed: 4+4+4 prelude + 4 trailing crc = 16
    per_header = BE_PUTS["put_u8"] * 2 + BE_PUTS["put_u16"]
    fixed = BE_PUTS["put_u32"] * 4
    chk.verdict(per_header in consts_in_fold, "R2", "per-header-constant", b.loc(), "declared per-header overhead %s, bytes actually written per header (besides name and value): %d" % (consts_in_fold, per_header))
    chk.verdict(fixed in consts_outer, "R2", "fixed-part-constant", b.loc(), "declared fixed part %s, bytes actually written outside headers/payload: %d" % (consts_outer, fixed))
    chk.verdict(lens == {"name", "value"}, "R2", "header-length-terms", b.loc(), "the headers length sums %s (expected name and value lengths)" % sorted(lens))


def _skippable(e):
    """blocks from which the loop that contains write event `e` starts its next iteration without having passed the write (empty list = the
    write happens in every iteration); for a write inside a unit closure handed to an iterator adaptor: its returns reachable around the
    write.  None = the event is in neither form."""
    body = e["body"]
    own = [lid for lid in e.get("loops", ()) if lid[0] == body.name]
    if own:
        head = own[-1][1]
        srcs = {s_ for (s_, lab) in flow.back_edges(body) if flow.edge_target(body, (s_, lab)) == head}
        r = flow.reach(body, [head], stop_blocks=frozenset([e["bi"]]))
        return sorted(s_ for s_ in srcs if s_ in r and s_ != e["bi"])
    if body.kind == "Closure" and body.raw.get("ret", "") in ("()", ""):
        r = flow.reach(body, [0], stop_blocks=frozenset([e["bi"]]))
        return sorted(x for x in flow.return_blocks(body) if x in r and x != e["bi"])
    return None


SPEC = {
    "ContinuationEvent": ({":event-type": "Cont", ":message-type": "event"}, None),
    "EndEvent": ({":event-type": "End", ":message-type": "event"}, None),
    "ProgressEvent": ({":event-type": "Progress", ":content-type": "text/xml", ":message-type": "event"}, "xml:details"),
    "StatsEvent": ({":event-type": "Stats", ":content-type": "text/xml", ":message-type": "event"}, "xml:details"),
    "RecordsEvent": ({":event-type": "Records", ":content-type": "application/octet-stream", ":message-type": "event"}, "raw:payload"),
}


def const_str_of(db, body, o):
    c = flow.const_of(body, o)
    if c is None:
        return None
    if c.get("c") == "str":
        return c["v"]
    if c.get("c") == "item":
        v = db.const_str(c["def"])
        return v[0] if v else None
    return None


def _table_of_const(db, name):
    """{name: value} of a `const X: &[(&str, &str)]` header table"""
    cb = db.body(name)
    out = {}
    if cb is None:
        return out
    for bi, si, st in cb.stmts():
        rv = st["rv"]
        if rv["k"] == "agg" and rv.get("agg") == "tuple" and len(rv["ops"]) == 2:
            k, v = const_str_of(db, cb, rv["ops"][0]), const_str_of(db, cb, rv["ops"][1])
            if k is not None and v is not None:
                out[k] = v
    return out


def _rule_r3_by_arm(chk, db):
    """the five per-event tables when they are written as arms of one `match self` in the dispatcher (or inlined into it): decided per arm"""
    disp = [b for b in db.grep("into_message") if b.crate == "s3s" and short(b.name) == "into_message" and "SelectObjectContentEvent" in b.name]
    if len(disp) != 1:
        raise AnchorMissing("event dispatcher into_message: %d bodies" % len(disp))
    b = disp[0]
    sw = None
    for s_ in b.live_blocks():
        t = b.blocks[s_]["term"]
        if t["k"] == "switch":
            src = paths.switch_source(b, t)
            if src and src[0] == "discr" and "SelectObjectContentEvent" in src[1]["enum"]:
                sw = (s_, t, src)
    if sw is None:
        raise AnchorMissing("the dispatcher does not match on the event")
    s_, t, src = sw
    vals = paths.discr_values(t, src[1])
    arms = {}
    for lab, tb in b.succ_edges(s_):
        v = vals.get(lab)
        if v and not v.startswith("OTHER:"):
            arms[v] = flow.reach(b, [tb], stop_blocks=frozenset([s_]))
    n = 0
    by_event = {want[":event-type"]: (ty, want, payload) for ty, (want, payload) in SPEC.items()}
    for v, region in sorted(arms.items()):
        if v not in by_event:
            chk.fail("R3", "variant:" + v, b.loc(), "event variant %s is not in the specification table" % v)
            continue
        ty, want, payload = by_event[v]
        mine = region - set().union(*[r for k, r in arms.items() if k != v]) if len(arms) > 1 else region
        n += 1
        got = {}
        pay_ops = []
        for bi in sorted(mine):
            for st in b.blocks[bi]["stmts"]:
                rv = st["rv"]
                if rv["k"] == "agg" and rv.get("agg") == "tuple" and len(rv["ops"]) == 2:
                    k, val = const_str_of(db, b, rv["ops"][0]), const_str_of(db, b, rv["ops"][1])
                    if k is not None and val is not None:
                        got[k] = val
                    else:
                        pay_ops.append((bi, rv["ops"][1]))
                if rv["k"] == "agg" and rv.get("adt", "").endswith("event_stream::Message"):
                    m = dict(zip(rv["fields"], rv["ops"]))
                    pay_ops.append((bi, m["payload"]))
            tt = b.blocks[bi]["term"]
            if tt["k"] == "call" and short(callee_def(tt)) == "const_headers":
                for a in tt["args"]:
                    if isinstance(a, dict) and a.get("c") == "item":
                        got.update(_table_of_const(db, a["def"]))
        chk.verdict(got == want, "R3", ty + ".headers", b.loc(), "%s frame headers %s differ from the specification %s" % (ty, got, want))
        okp = bool(pay_ops)
        for bi, op in pay_ops:
            sl = flow.backward(b, op, at=bi)
            if payload is None:
                okp = okp and flow.is_none_literal(b, op)
            elif payload.startswith("raw:"):
                okp = okp and any(f == "payload" for a_, f in sl.fields if a_ == ty) and not [1 for _, c, _ in sl.calls if not flow.is_transparent(c)]
            else:
                fnarg = [c for c in sl.consts if c.get("c") == "fn" and short(c["def"]) == "xml_payload"]
                okx = bool(fnarg) or any(short(callee_def(c)) == "xml_payload" for _, c, _ in sl.calls)
                okp = okp and okx and {f for a_, f in sl.fields if a_ == ty} == {"details"}
        chk.verdict(okp, "R3", ty + ".payload", b.loc(), "%s payload does not follow the specification (%s)" % (ty, payload or "no payload"))
    chk.floor("R3", n, 5, "event arms of the dispatcher")
    return n


def rule_r3(chk, db):
    n = 0
    per_type = [1 for ty in SPEC if len([b for b in db.grep("event_stream", "into_message") if b.crate == "s3s" and short(b.name) == "into_message" and ty in b.name]) == 1]
    if len(per_type) != len(SPEC):
        _rule_r3_by_arm(chk, db)
        _rule_r3_tail(chk, db, dispatch=False)     # the arms are the dispatch
        return
    for ty, (want, payload) in SPEC.items():
        bs = [b for b in db.grep("event_stream", "into_message") if b.crate == "s3s" and short(b.name) == "into_message" and ty in b.name]
        if len(bs) != 1:
            chk.fail("R3", ty, "", "into_message for %s: %d bodies" % (ty, len(bs)))
            continue
        b = bs[0]
        n += 1
        got = {}
        for bi, si, st in b.stmts():
            rv = st["rv"]
            if rv["k"] == "agg" and rv.get("agg") == "tuple" and len(rv["ops"]) == 2:
                k, v = const_str_of(db, b, rv["ops"][0]), const_str_of(db, b, rv["ops"][1])
                if k is not None and v is not None:
                    got[k] = v
        chk.verdict(got == want, "R3", ty + ".headers", b.loc(), "%s frame headers %s differ from the specification %s" % (ty, got, want))
        # payload
        aggs = [(bi, st["rv"]) for bi, si, st in b.stmts() if st["rv"]["k"] == "agg" and st["rv"].get("adt", "").endswith("event_stream::Message")]
        for bi, rv in aggs:
            m = dict(zip(rv["fields"], rv["ops"]))
            sl = flow.backward(b, m["payload"], at=bi)
            hsl = flow.backward(b, m["headers"], at=bi)
            chk.verdict(any(short(callee_def(t)) == "const_headers" for _, t, _ in hsl.calls), "R3", ty + ".headers-used", b.loc(bi), "the Message does not carry the constant header table", nontrivial=False)
            if payload is None:
                chk.verdict(flow.is_none_literal(b, m["payload"]), "R3", ty + ".payload", b.loc(bi), "%s must have no payload" % ty)
            elif payload.startswith("raw:"):
                r = flow.resolve_place(b, m["payload"])
                direct = r is not None and r[0] == 1 and flow.proj_names(r[1]) == ["payload"] and not [1 for _, t, _ in sl.calls if not flow.is_transparent(t)]
                chk.verdict(direct, "R3", ty + ".payload", b.loc(bi), "Records payload is not the event's payload unchanged")
            else:
                fnarg = [c for c in sl.consts if c.get("c") == "fn" and short(c["def"]) == "xml_payload"]
                ok = bool(fnarg) or any(short(callee_def(t)) == "xml_payload" for _, t, _ in sl.calls)
                fs = {f for a, f in sl.fields if a == ty}
                chk.verdict(ok and fs == {"details"}, "R3", ty + ".payload", b.loc(bi), "%s payload must be the XML of its details (fields %s)" % (ty, sorted(fs)))
    chk.floor("R3", n, 5, "event into_message bodies")
    _rule_r3_tail(chk, db)


def _rule_r3_tail(chk, db, dispatch=True):
    # const_headers writes name -> name, value -> value
    ch = db.body(M + "const_headers")
    hd = db.body(M + "header")
    if hd is not None:
        for bi, si, st in hd.stmts():
            rv = st["rv"]
            if rv["k"] == "agg" and rv.get("adt", "").endswith("::Header"):
                m = dict(zip(rv["fields"], rv["ops"]))
                r1, r2 = flow.resolve_place(hd, m["name"]), flow.resolve_place(hd, m["value"])
                chk.verdict(r1 and r2 and r1[0] == 1 and r2[0] == 2, "R3", "header(name,value)", hd.loc(bi), "header() swaps name and value", nontrivial=False)
    if ch is not None:
        for bi, t in ch.calls():
            if short(callee_def(t)) == "header":
                s0, s1 = flow.backward(ch, t["args"][0], at=bi), flow.backward(ch, t["args"][1], at=bi)
                n0 = {ch.local_name(l) for l in s0.locals} & {"name", "value"}
                n1 = {ch.local_name(l) for l in s1.locals} & {"name", "value"}
                chk.verdict(n0 == {"name"} and n1 == {"value"}, "R3", "const_headers-order", ch.loc(bi), "const_headers passes (%s, %s) as (name, value)" % (sorted(n0), sorted(n1)), nontrivial=False)
    # dispatch: each event variant -> its own into_message
    disp = [b for b in db.grep("into_message") if b.crate == "s3s" and short(b.name) == "into_message" and "SelectObjectContentEvent" in b.name] if dispatch else []
    for b in disp:
        for s in b.live_blocks():
            t = b.blocks[s]["term"]
            if t["k"] == "switch":
                src = paths.switch_source(b, t)
                if src and src[0] == "discr" and "SelectObjectContentEvent" in src[1]["enum"]:
                    vals = paths.discr_values(t, src[1])
                    for lab, tb in b.succ_edges(s):
                        v = vals.get(lab)
                        if v is None or v.startswith("OTHER"):
                            continue
                        callee = None
                        x = tb
                        for _ in range(6):
                            tt = b.blocks[x]["term"]
                            if tt["k"] == "call":
                                callee = callee_def(tt)
                                break
                            nx = b.succ_edges(x)
                            if not nx:
                                break
                            x = nx[0][1]
                        want_ty = {"Cont": "ContinuationEvent", "End": "EndEvent", "Progress": "ProgressEvent", "Records": "RecordsEvent", "Stats": "StatsEvent"}.get(v)
                        chk.verdict(callee is not None and want_ty is not None and want_ty in callee, "R3", "dispatch." + str(v), b.loc(s), "event variant %s is framed by %s" % (v, callee), nontrivial=False)
    # request-level error frame
    e = db.body(M + "request_level_error")
    if e is None:
        chk.anchor_missing("R3", "request_level_error not found")
        return
    pairs = []
    for bi, t in e.calls():
        if short(callee_def(t)) == "header":
            s0 = flow.backward(e, t["args"][0], at=bi)
            s1 = flow.backward(e, t["args"][1], at=bi)
            k = [c for c in s0.consts if c.get("c") in ("str", "item")]
            name = None
            for c in k:
                name = c["v"] if c.get("c") == "str" else (db.const_str(c["def"]) or [None])[0]
            vcalls = {short(callee_def(x)) for _, x, _ in s1.calls}
            vlits = [c["v"] for c in s1.consts if c.get("c") == "str"]
            pairs.append((name, vcalls, vlits, bi))
    names = [p[0] for p in pairs]
    chk.verdict(sorted(map(str, names)) == [":error-code", ":error-message", ":message-type"], "R3", "error-frame.headers", e.loc(), "error frame headers are %s" % names)
    for name, vcalls, vlits, bi in pairs:
        if name == ":error-code":
            chk.verdict("code" in vcalls, "R3", "error-frame.code", e.loc(bi), ":error-code is not the error's code", nontrivial=False)
        if name == ":error-message":
            chk.verdict("message" in vcalls, "R3", "error-frame.message", e.loc(bi), ":error-message is not the error's message", nontrivial=False)
        if name == ":message-type":
            chk.verdict(vlits == ["error"], "R3", "error-frame.type", e.loc(bi), ":message-type of an error frame is %s" % vlits, nontrivial=False)


def rule_r4(chk, db):
    ws = [b for b in db.grep("event_stream") if b.crate == "s3s" and short(b.name) == "poll_next" and "Wrapper" in b.impl_self]
    if len(ws) != 1:
        raise AnchorMissing("Wrapper::poll_next: %d bodies" % len(ws))
    b = ws[0]
    inner = [(bi, t) for bi, t in b.calls() if short(callee_def(t)) == "poll_next"]
    chk.verdict(len(inner) == 1, "R4", "one-poll-per-call", b.loc(), "Wrapper::poll_next polls the event source %d times per call" % len(inner))
    conv = [(bi, t) for bi, t in b.calls() if short(callee_def(t)) == "event_into_bytes"]
    chk.verdict(len(conv) == 1, "R4", "one-frame-per-item", b.loc(), "an item is framed %d times" % len(conv))
    # Ready(None) only because the source ended
    for bi, si, st in b.stmts():
        rv = st["rv"]
        if rv["k"] == "agg" and rv.get("adt") == "core::task::poll::Poll" and rv.get("variant") == "Ready" and rv["ops"]:
            if flow.is_none_literal(b, rv["ops"][0]):
                f = guards.dominating_facts(b, bi)
                src_none = [x for x in f if x[0] == "enum" and x[1].startswith("core::option::Option<core::result::Result<s3s::dto::generated::SelectObjectContentEvent") and x[2] == frozenset(["None"])]
                chk.verdict(bool(src_none), "R4", "end-only-when-source-ends#%d" % bi, b.loc(bi),
                            "the frame stream ends (Ready(None)) on a path where the event source did not end: later events / errors are dropped")
            else:
                sl = flow.backward(b, rv["ops"][0], at=bi)
                if conv:
                    chk.verdict(any(cb == conv[0][0] for cb, _, _ in sl.calls), "R4", "item-is-its-frame#%d" % bi, b.loc(bi), "a yielded item is not the frame of the polled event", nontrivial=False)
    # errors become frames: event_into_bytes handles Err(err) through request_level_error + serialize
    e = db.body(M + "event_into_bytes")
    if e is None:
        chk.anchor_missing("R4", "event_into_bytes not found")
        return
    names = [short(callee_def(t)) for _, t in e.calls()]
    chk.verdict("request_level_error" in names and names.count("serialize") >= 2 and "into_message" in names, "R4", "errors-become-frames", e.loc(),
                "event_into_bytes calls %s (expected: Ok -> into_message().serialize(), Err -> request_level_error().serialize())" % sorted(set(names)))


def run(chk, db, tier):
    chk.rule("R1", "byte layout of the frame writer: abstract write trace == specified layout; operands (lengths, CRCs over the whole buffer, type tag 7, exact name/value/payload)")
    chk.rule("R2", "length accounting: declared per-header and fixed constants == bytes written by the trace; narrowing only through checked TryFrom")
    chk.rule("R3", "event tables: header pairs and payload source per event type == specification; error frame headers")
    chk.rule("R4", "order and termination: one polled item -> one frame; the stream ends only when the source ends; errors become frames")
    chk.guard("R1", rule_r1_r2, db)
    chk.guard("R3", rule_r3, db)
    chk.guard("R4", rule_r4, db)
    # prerequisite: the XML payload of Stats / Progress events is the model's encoding of those two types (decided for C13)
    from . import c13
    from ..report import Sub
    from ..model import load_model
    sub = Sub(chk, "C13", only=lambda k: k.split(".")[0] in ("Stats", "Progress"))
    sub.rule("R1", "encoder table of the Stats and Progress payload types == model (element names, members written once from the same-named field)")
    enc = c13.ser_impls(db, c13.SER + "SerializeContent")
    sub.guard("R1", c13.rule_r1, db, load_model(), enc)
    # prerequisite: the `:error-code` header of an error frame names the error that was raised (code <-> string tables, decided for C04)
    sub4 = Sub(chk, "C04", only=lambda k: k.startswith("string:") or k.startswith("strings"))
    sub4.rule("R3", "S3ErrorCode <-> wire string tables agree in both directions (the :error-code header is as_static_str of the code)")
    def _c04_r3(c, db_):
        from . import c04
        return c04.rule_r3(c, db_, load_model())
    sub4.guard("R3", _c04_r3, db)


META = {
    "level": "other",
    "explanation": "Byte-layout conformance of the event-stream frame writer as an abstract write trace with operand provenance (total/headers "
                   "lengths, CRC over the whole buffer at the two specified points, type tag, exact name/value/payload bytes), symbolic agreement of "
                   "the declared length constants with the bytes the trace writes, per-event header tables against the specification, and the "
                   "termination/ordering structure of the wrapping stream. CRC-32 and big-endian encoding are library contracts. Round 4: every header is written in every iteration of the header loop and counted by every run of the length fold (R2).",
    "not_decided": ["the CRC algorithm and big-endian encoding (crc32fast / bytes::BufMut contracts)", "the XML payload of Stats/Progress (C13)"],
    "assumptions": ["rustc nightly MIR construction", "S3 SelectObjectContent response appendix (frame layout and per-event headers)"],
}
