"""C04.R5 placeholder (inventory built later)"""


def rule_r5(chk, db, tier):
    chk.advisory("R5 (panic inventory) not built yet")
