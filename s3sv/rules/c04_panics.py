"""C04.R5 - inventory of explicit panic constructs reachable from S3Service::call (DESIGN.md section 3, C04.R5)."""
import json
import os

from .. import extract, flow, guards, inline, intervals, lenrel, optstate
from ..facts import callee_def, short
from ..report import AnchorMissing
from ..roles import Roles

TABLE = os.path.join(extract.VERIF, "oracles", "panic_sites.json")

PANIC_CALLEES = {
    "core::option::Option::<T>::unwrap": "unwrap", "core::option::Option::<T>::expect": "expect",
    "core::result::Result::<T, E>::unwrap": "unwrap", "core::result::Result::<T, E>::expect": "expect",
    "core::result::Result::<T, E>::unwrap_err": "unwrap_err", "core::result::Result::<T, E>::expect_err": "expect_err",
}
# library functions documented to panic on some arguments (the subset that occurs in, or could plausibly be edited into, the request path)
MAY_PANIC_LIB = {
    "core::slice::<impl [T]>::split_at": "mid > len", "core::slice::<impl [T]>::split_at_mut": "mid > len",
    "core::str::<impl str>::split_at": "mid > len or not a char boundary",
    "core::slice::<impl [T]>::copy_from_slice": "length mismatch", "core::slice::<impl [T]>::clone_from_slice": "length mismatch",
    "core::slice::<impl [T]>::chunks": "chunk size 0", "core::slice::<impl [T]>::chunks_exact": "chunk size 0", "core::slice::<impl [T]>::windows": "size 0",
    "core::slice::<impl [T]>::swap": "index out of bounds", "core::slice::<impl [T]>::rotate_left": "mid > len", "core::slice::<impl [T]>::rotate_right": "k > len",
    "core::iter::traits::iterator::Iterator::step_by": "step 0",
    "bytes::buf::buf_impl::Buf::advance": "cnt > remaining", "bytes::bytes::Bytes::split_to": "at > len", "bytes::bytes::Bytes::split_off": "at > len",
    "bytes::bytes::Bytes::slice": "range out of bounds", "bytes::bytes_mut::BytesMut::split_to": "at > len", "bytes::bytes_mut::BytesMut::split_off": "at > capacity",
    "bytes::buf::buf_impl::Buf::copy_to_slice": "dst longer than remaining", "bytes::buf::buf_impl::Buf::copy_to_bytes": "len > remaining",
    "bytes::buf::buf_impl::Buf::get_u8": "no bytes remaining",
    "alloc::vec::Vec::<T, A>::remove": "index out of bounds", "alloc::vec::Vec::<T, A>::swap_remove": "index out of bounds",
    "alloc::vec::Vec::<T, A>::insert": "index > len", "alloc::vec::Vec::<T, A>::drain": "range out of bounds", "alloc::vec::Vec::<T, A>::split_off": "at > len",
    "alloc::string::String::insert": "not a char boundary", "alloc::string::String::insert_str": "not a char boundary", "alloc::string::String::remove": "not a char boundary",
    "alloc::string::String::truncate": "not a char boundary", "alloc::string::String::drain": "range out of bounds", "alloc::string::String::split_off": "not a char boundary",
    "alloc::string::String::replace_range": "range out of bounds",
    "core::cell::RefCell::<T>::borrow": "already mutably borrowed", "core::cell::RefCell::<T>::borrow_mut": "already borrowed",
    "time::duration::Duration::new": "overflow", "time::duration::Duration::seconds_f64": "overflow", "time::duration::Duration::seconds_f32": "overflow",
    "time::duration::Duration::minutes": "overflow", "time::duration::Duration::hours": "overflow", "time::duration::Duration::days": "overflow",
    "time::duration::Duration::weeks": "overflow",
    "time::offset_date_time::OffsetDateTime::to_offset": "result outside the supported year range",
    "time::offset_date_time::OffsetDateTime::replace_offset": "-", "time::primitive_date_time::PrimitiveDateTime::assume_offset": "-",
    "core::time::Duration::from_secs_f64": "negative / overflow / NaN", "core::time::Duration::from_secs_f32": "negative / overflow / NaN",
    "core::time::Duration::new": "overflow", "std::time::Instant::duration_since": "-",
    "tokio::time::interval::interval": "period 0", "tokio::time::interval::interval_at": "period 0",
    "http::header::value::HeaderValue::from_static": "invalid header value", "http::header::name::HeaderName::from_static": "invalid header name",
    "bytestring::ByteString::from_static": "-", "http::uri::Uri::from_static": "invalid uri",
    "http::header::map::HeaderMap::<T>::with_capacity": "capacity above 32768", "http::header::map::HeaderMap::<T>::reserve": "capacity above 32768",
    "core::ops::arith::Add::add": "overflow (non-primitive operands)", "core::ops::arith::Sub::sub": "overflow (non-primitive operands)",
    "core::ops::arith::Mul::mul": "overflow (non-primitive operands)", "core::ops::arith::Div::div": "division by zero (non-primitive operands)",
    "core::ops::arith::AddAssign::add_assign": "overflow (non-primitive operands)", "core::ops::arith::SubAssign::sub_assign": "overflow (non-primitive operands)",
    "core::num::<impl usize>::div_ceil": "division by zero", "core::num::<impl u64>::div_ceil": "division by zero",
    "core::num::<impl usize>::next_power_of_two": "overflow", "core::num::<impl usize>::pow": "overflow", "core::num::<impl u64>::pow": "overflow",
    "core::num::<impl u32>::pow": "overflow", "core::num::<impl i64>::pow": "overflow", "core::num::<impl i64>::abs": "overflow",
    "core::num::<impl i32>::abs": "overflow",
    "core::str::<impl str>::repeat": "capacity overflow", "alloc::str::<impl str>::repeat": "capacity overflow", "alloc::slice::<impl [T]>::repeat": "capacity overflow",
    "core::char::from_digit": "radix > 36", "core::char::methods::<impl char>::to_digit": "radix > 36", "core::char::methods::<impl char>::from_digit": "radix > 36",
    "core::option::Option::<T>::unwrap_unchecked": "-", "core::hint::unreachable_unchecked": "-",
    "hex_simd::encode_as_str": "output buffer too small", "hex_simd::encode": "output buffer too small", "base64_simd::Base64::encode_as_str": "output buffer too small",
    "std::thread::spawn": "-", "tokio::task::spawn::spawn": "outside a runtime", "tokio::runtime::handle::Handle::current": "outside a runtime",
    "tokio::time::sleep::sleep": "outside a runtime (timer disabled)",
}
PANICKING_PREFIX = ("core::panicking::", "std::rt::begin_panic", "core::panic::", "std::panicking::")
SKIP_MACROS = ("tracing", "format_args", "debug", "error", "info", "warn", "trace", "event", "span", "valueset", "fieldset", "callsite", "level_enabled", "enabled")


def reachable_bodies(db, roles):
    roots = [b for b in db.bodies.values() if b.crate == "s3s" and b.name.startswith("s3s::service::S3Service::call")]
    if not roots:
        raise AnchorMissing("S3Service::call not found")
    backend_traits = {roles.S3, roles.S3Auth, roles.S3Access, roles.S3Route, roles.S3Host}
    impl_index = {}
    for b in db.bodies.values():
        if b.crate == "s3s" and b.kind == "AssocFn" and b.impl_trait.startswith("s3s::"):
            impl_index.setdefault((b.impl_trait, short(b.name)), []).append(b)
    seen = {}
    st = list(roots)
    for r in roots:
        seen[r.name] = r
    while st:
        b = st.pop()
        for c in b.children:
            if c.name not in seen:
                seen[c.name] = c
                st.append(c)
        if "dto/generated.rs" in b.text[:600]:
            pass
        for bi, t in b.calls():
            cal = t["callee"]
            tr = cal.get("trait", "")
            if tr in backend_traits:
                continue
            cands = []
            for d in (cal.get("resolved"), cal.get("def")):
                if d and d in db.bodies:
                    cands.append(db.bodies[d])
            if tr.startswith("s3s::") and (cal.get("virtual") or not cal.get("resolved") or cal.get("resolved") == cal.get("def")):
                cands += impl_index.get((tr, short(cal.get("def", ""))), [])
            for a in t["args"]:
                if isinstance(a, dict) and a.get("c") == "fn" and a["def"] in db.bodies:
                    cands.append(db.bodies[a["def"]])
            for c in cands:
                if c.crate == "s3s" and c.name not in seen:
                    seen[c.name] = c
                    st.append(c)
    return seen


def from_skipped_macro(span):
    if not span or not span.get("exp"):
        return False
    m = span.get("mac", "")
    last = m.rsplit("::", 1)[-1]
    return m.startswith("tracing") or last in SKIP_MACROS or "format_args" in m


def sites_of(db, b):
    """panic constructs of one body: list of dicts {kind, callee, bi, loc}"""
    out = []
    for bi in b.live_blocks():
        t = b.blocks[bi]["term"]
        if t["k"] == "call":
            d = callee_def(t)
            if from_skipped_macro(t.get("span")):
                continue
            if d in PANIC_CALLEES:
                out.append({"kind": PANIC_CALLEES[d], "callee": d, "bi": bi})
            elif d.startswith(PANICKING_PREFIX):
                mac = (t.get("span") or {}).get("mac", "")
                out.append({"kind": "panic:" + (mac.rsplit("::", 1)[-1] or short(d)), "callee": d, "bi": bi})
            elif d.endswith("ops::index::Index::index") or d.endswith("ops::index::IndexMut::index_mut"):
                out.append({"kind": "index", "callee": d, "bi": bi})
            elif d in MAY_PANIC_LIB:
                out.append({"kind": "lib:" + short(d), "callee": d, "bi": bi})
        elif t["k"] == "assert":
            if from_skipped_macro(t.get("span")):
                continue
            out.append({"kind": "assert:" + str(t.get("kind")), "callee": "", "bi": bi})
    return out


def discharge(db, b, s):
    """local proof rules; returns reason or None"""
    bi = s["bi"]
    t = b.blocks[bi]["term"]
    f = guards.dominating_facts(b, bi)
    if s["kind"] in ("unwrap", "expect"):
        recv = flow.resolve_chain(b, t["args"][0]) or []
        rl = {l for l, _ in recv}
        rsl = flow.backward(b, t["args"][0], at=bi)
        # (i) discriminant tested on a dominating edge
        for x in f:
            if x[0] == "enum" and x[3] is not None and x[3][0] in rl and x[2] <= frozenset(["Some", "Ok"]):
                return "discriminant tested: %s" % sorted(x[2])
            if x[0] == "call" and x[1] in ("core::option::Option::<T>::is_some", "core::result::Result::<T, E>::is_ok") and x[2] is True:
                ct = b.blocks[x[3]]["term"]
                r2 = flow.resolve_chain(b, ct["args"][0]) or []
                if {l for l, _ in r2} & rl:
                    return "is_some()/is_ok() tested on the same value"
            if x[0] == "call" and x[1] in ("core::option::Option::<T>::is_none", "core::result::Result::<T, E>::is_err") and x[2] is False:
                ct = b.blocks[x[3]]["term"]
                r2 = flow.resolve_chain(b, ct["args"][0]) or []
                if {l for l, _ in r2} & rl:
                    return "is_none()/is_err() == false on the same value"
        # (ii) definite-Some/Ok typestate of the unwrapped place
        key = optstate.place_key(b, t["args"][0])
        if key is not None and optstate.definitely_good(b, key, bi):
            return "typestate: the place is Some/Ok on every path reaching the unwrap (s3sv/optstate.py)"
        if key is not None:
            why = caller_guard(db, b, key, bi)
            if why:
                return why
        why = variant_guard(db, b, t, bi)
        if why:
            return why
        # (iii) fmt::Write into a String / (iv) infallible conversions
        for cb, ct, _ in rsl.calls:
            d = callee_def(ct)
            if d == "core::fmt::Write::write_fmt" and ct["args"]:
                p = flow.op_place(ct["args"][0])
                ch = flow.resolve_chain(b, ct["args"][0]) or []
                if any("alloc::string::String" in b.locals[l] for l, _ in ch):
                    return "fmt::Write into a String cannot fail"
    if s["kind"].startswith("assert:"):
        why = discharge_assert(db, b, s)
        if why:
            return why
    if s["kind"] in ("index", "assert:bounds") or s["kind"].startswith("lib:"):
        why = discharge_length(db, b, s)
        if why:
            return why
    if s["kind"].startswith("lib:"):
        why = discharge_lib_const(db, b, s)
        if why:
            return why
    why = infeasible_otherwise(db, b, bi)
    if why or s.get("_in_context"):
        return why
    # the site lies in a helper (a stage, an extracted block): decide it where the helper is used, with the helper inlined
    try:
        ctx = inline.contexts_of(db, b, bi)
    except Exception:
        ctx = []
    if not ctx:
        # the site is in the function itself, but a private helper called on the way (`apply_outcome(req, ..)`, taking `&mut`) hides that
        # it leaves the unwrapped place alone: decide the site with the helpers inlined (the function's own blocks keep their indices)
        try:
            ib = inline.inlined(db, b)
        except Exception:
            ib = b
        if ib is not b and bi < len(ib.blocks) and ib.blocks[bi]["term"].get("k") == t.get("k"):
            w = discharge(db, ib, dict(s, bi=bi, body=ib, _in_context=True))
            if w:
                return "with the helpers it calls inlined: %s" % w
    if ctx:
        whys = []
        for ib, cbi in ctx:
            if ib.blocks[cbi]["term"].get("k") != t.get("k"):
                return None
            w = discharge(db, ib, dict(s, bi=cbi, body=ib, _in_context=True))
            if not w:
                return None
            whys.append(w)
        return "in each of the %d places the helper is inlined into: %s" % (len(whys), whys[0])
    return None


def discharge_lib_const(db, b, s):
    """library calls whose panic condition is decided by literal arguments"""
    t = b.blocks[s["bi"]]["term"]
    d = s["callee"]
    if d == "http::header::value::HeaderValue::from_static" and len(t["args"]) == 1:
        c = flow.const_of(b, t["args"][0])
        if c is not None and c.get("c") == "str" and all(ch == "\t" or 0x20 <= ord(ch) < 0x7f for ch in c["v"]):
            return "from_static on the literal %r: only visible ASCII, which is what the function requires" % c["v"]
    if d == "bytestring::ByteString::from_static" and len(t["args"]) == 1:
        c = flow.const_of(b, t["args"][0])
        if c is not None and c.get("c") == "str":
            return "ByteString::from_static on a literal never panics"
    if d == "time::duration::Duration::new" and len(t["args"]) == 2:
        n = _iv(db).op(b, t["args"][1], s["bi"])
        sec = _iv(db).op(b, t["args"][0], s["bi"])
        if n == (0, 0):
            return "Duration::new(_, 0): no nanosecond carry, so the seconds are stored as they are"
        if n not in (None, intervals.EMPTY) and sec not in (None, intervals.EMPTY) and -999999999 <= n[0] and n[1] <= 999999999 and \
                -(1 << 62) <= sec[0] and sec[1] <= (1 << 62):
            return "Duration::new: seconds %s and nanoseconds %s cannot overflow" % (_fmt(sec), _fmt(n))
    return None


_LR = {}


def _lr(db):
    if id(db) not in _LR:
        _LR.clear()
        _LR[id(db)] = lenrel.LenRel(db, _iv(db))
    return _LR[id(db)]


LEN_LIBS = {"advance": False, "split_to": False, "split_off": False, "split_at": False, "split_at_mut": False, "truncate": False}


def discharge_length(db, b, s):
    """the index / split position is provably within the buffer it is applied to (s3sv/lenrel.py)"""
    lr = _lr(db)
    bi = s["bi"]
    t = b.blocks[bi]["term"]
    pt = lenrel.Point(bi, None)
    if s["kind"] == "assert:bounds":
        p, rv = _cond_def(b, bi)
        if rv is None or rv["k"] != "bin" or rv["op"] != "Lt":
            return None
        # the length operand names the buffer
        lp = flow.op_place(rv["ops"][1])
        if lp is None:
            return None
        si = len(b.blocks[bi]["stmts"])
        d = lr.one_def(b, lp["l"], pt)
        if d is None or d[0] != "stmt" or d[3]["rv"]["k"] != "un" or d[3]["rv"].get("op") != "PtrMetadata":
            return None
        key = lr.key_of(b, d[3]["rv"]["ops"][0], lenrel.Point(d[1], d[2]))
        if key is None:
            return None
        why = lr.le_len(b, rv["ops"][0], key, pt, strict=True)
        return ("index within the slice: %s" % why) if why else None
    if t["k"] != "call" or len(t["args"]) < 2:
        return None
    key = lr.key_of(b, t["args"][0], pt)
    if key is None:
        return None
    if s["kind"].startswith("lib:"):
        if s["kind"][4:] not in LEN_LIBS:
            return None
        why = lr.le_len(b, t["args"][1], key, pt, strict=False)
        return ("%s position within the buffer: %s" % (s["kind"][4:], why)) if why else None
    # Index::index(buffer, idx)
    ip = flow.op_place(t["args"][1])
    if ip is None or ip["proj"]:
        return None
    d = lr.one_def(b, ip["l"], pt)
    if d is not None and d[0] == "stmt" and d[3]["rv"]["k"] == "agg" and d[3]["rv"].get("agg") == "adt":
        rv = d[3]["rv"]
        at = lenrel.Point(d[1], d[2])
        adt = rv.get("adt", "")
        m = dict(zip(rv.get("fields", []), rv["ops"]))
        if adt == "core::ops::range::RangeFull":
            return "full range"
        if adt == "core::ops::range::RangeTo" and "end" in m:
            why = lr.le_len(b, m["end"], key, at)
            return ("range end within the slice: %s" % why) if why and lr.unchanged(b, key, at, pt) else None
        if adt == "core::ops::range::RangeFrom" and "start" in m:
            why = lr.le_len(b, m["start"], key, at)
            return ("range start within the slice: %s" % why) if why and lr.unchanged(b, key, at, pt) else None
        return None
    if "usize" in (b.locals[ip["l"]] if ip["l"] < len(b.locals) else ""):
        why = lr.le_len(b, t["args"][1], key, pt, strict=True)
        return ("index within the buffer: %s" % why) if why else None
    return None


def infeasible_otherwise(db, b, bi):
    """the site is reachable only through the `otherwise` edge of an integer switch whose scrutinee's interval is covered by the explicit arms"""
    iv = _iv(db)
    for sb in b.live_blocks():
        t = b.blocks[sb]["term"]
        if t["k"] != "switch" or sb == bi:
            continue
        edges = b.succ_edges(sb)
        labs = [(lab, tb) for lab, tb in edges if lab != "otherwise"]
        oth = [tb for lab, tb in edges if lab == "otherwise"]
        if not oth or not labs:
            continue
        try:
            vals = [int(lab) for lab, _ in labs]
        except (TypeError, ValueError):
            continue
        p = flow.op_place(t["discr"])
        if p is None or p["proj"]:
            continue
        df = flow.single_def(b, p["l"])
        if df is not None and df["kind"] == "assign" and df["rv"]["k"] == "discr":
            continue        # enum discriminant: not an integer scrutinee
        if bi not in flow.reach(b, [0], stop_blocks=frozenset()) or bi in flow.reach(b, [0], stop_blocks=frozenset([sb])):
            continue        # sb does not dominate the site
        via_arms = flow.reach(b, [tb for _, tb in labs if tb not in oth], stop_blocks=frozenset([sb]))
        if bi in via_arms:
            continue
        r = iv.op(b, t["discr"], sb)
        if r == intervals.EMPTY:
            return "unreachable: switch scrutinee has an empty range"
        if r is None or r[1] - r[0] > 64:
            continue
        if all(v in vals for v in range(r[0], r[1] + 1)):
            return "reachable only through the default arm of a switch at %s whose scrutinee has the range %s, all covered by explicit arms" % (b.loc(sb), _fmt(r))
    return None


# an enum variant that is only constructed where an Option field is Some: unwrapping that field under a match on the variant is safe
VARIANT_GUARDS = [{"adt": "s3s::ops::Prepare", "variant": "CustomRoute", "field_adt": "s3s::ops::CallContext", "field": "route"}]


def _under_variant(db, b, bi, g, depth=0):
    """block bi of body b is executed only under a match arm for the variant - in b itself, or at every place b is called / awaited from"""
    f = guards.dominating_facts(b, bi)
    if any(x[0] == "enum" and x[1] == g["adt"] and x[2] == frozenset([g["variant"]]) for x in f):
        return True
    if depth > 3:
        return False
    from .. import inline
    sites = []
    if b.kind == "Closure":
        par = db.bodies.get(b.parent)
        if par is None:
            return False
        if b.raw.get("coroutine") and par.kind in ("Fn", "AssocFn"):
            if inline.is_role(db, par):
                return False
            sites = [(cb, cbi) for cb, cbi, _ in db.callers_of(par.name)]
        else:
            sites = [(par, b2) for b2, _, st in par.stmts() if st["rv"]["k"] == "agg" and st["rv"].get("def") == b.name]
    elif inline.default_policy(db, None, None, b):
        sites = [(cb, cbi) for cb, cbi, _ in db.callers_of(b.name)]
    return bool(sites) and all(_under_variant(db, cb, cbi, g, depth + 1) for cb, cbi in sites)


def variant_guard(db, b, t, bi):
    sl = flow.backward(b, t["args"][0], at=bi, through_calls=False)
    for g in VARIANT_GUARDS:
        if (g["field_adt"], g["field"]) not in sl.fields_full and (g["field_adt"].rsplit("::", 1)[-1], g["field"]) not in sl.fields:
            continue
        if [1 for _, ct, _ in sl.calls if not flow.is_transparent(ct)]:
            continue
        if not _under_variant(db, b, bi, g):
            continue
        bad = check_lemma(db, {"body": b, "bi": bi}, dict(g, kind="variant-implies-some"))
        if bad:
            continue
        return "%s::%s is only constructed where %s.%s is Some, and this unwrap runs only under that variant" % (
            g["adt"].rsplit("::", 1)[-1], g["variant"], g["field_adt"].rsplit("::", 1)[-1], g["field"])
    return None


def _param_of_site(db, b, key):
    """(function, parameter index, field path below the parameter) for a place rooted at a parameter - of the function itself or, for the
    coroutine body of an `async fn`, of the function that builds the coroutine"""
    if b.kind == "Closure":
        f = db.bodies.get(b.parent)
        if f is None or f.kind not in ("Fn", "AssocFn") or not key[1] or key[0] != 1:
            return None
        aggs = [st for _, _, st in f.stmts() if st["rv"]["k"] == "agg" and st["rv"].get("agg") in ("coroutine", "closure") and st["rv"].get("def") == b.name]
        if len(aggs) != 1 or len(list(f.live_blocks())) > 2:
            return None
        ops = aggs[0]["rv"]["ops"]
        if key[1][0] >= len(ops):
            return None
        p = flow.op_place(ops[key[1][0]])
        if p is None or p["proj"] or not (1 <= p["l"] <= f.argc):
            return None
        return f, p["l"], key[1][1:]
    if 1 <= key[0] <= b.argc:
        return b, key[0], key[1]
    return None


def _escapes(db, f):
    for cb in db.grep(f.name):
        for _, t in cb.calls():
            if any(isinstance(a, dict) and a.get("c") == "fn" and a.get("def") == f.name for a in t["args"]):
                return True
        for _, _, st in cb.stmts():
            if any(isinstance(o, dict) and o.get("c") == "fn" and o.get("def") == f.name for o in st["rv"]["ops"]):
                return True
    return False


def _callers_establish(db, f, j, rest, depth, trail):
    """every call site of f passes, as argument j, a value whose field path `rest` is definitely Some/Ok at the call - directly, or because
    the calling function received it in that state from all of its own callers (up to 3 levels)"""
    if not rest or f.name in db.reachable_fns or f.raw.get("impl_trait") or depth > 3 or f.name in trail or _escapes(db, f):
        return 0
    callers = db.callers_of(f.name)
    if not callers:
        return 0
    n = 0
    for cb, cbi, t in callers:
        if len(t["args"]) < j:
            return 0
        # the caller is studied with its private helpers inlined (a classifier the dispatcher consults, a stage): block indices and locals of
        # the caller itself are unchanged by inlining
        try:
            cb = inline.inlined(db, cb)
        except Exception:
            pass
        k0 = optstate.place_key(cb, t["args"][j - 1])
        if k0 is None:
            return 0
        k = (k0[0], k0[1] + rest)
        if optstate.definitely_good(cb, k, cbi):
            n += 1
            continue
        # not established inside the caller: does the caller receive it established and leave it alone up to the call?
        ps = _param_of_site(db, cb, k)
        if ps is None or not optstate.definitely_good(cb, k, cbi, entry=True):
            return 0
        m = _callers_establish(db, ps[0], ps[1], ps[2], depth + 1, trail + (f.name,))
        if not m:
            return 0
        n += m
    return n


def caller_guard(db, b, key, bi):
    """interprocedural typestate: the unwrapped place is a field path of a parameter, the function does not disturb it before the unwrap,
    the function cannot be called from outside the crate, and every call site passes an argument whose same field path is definitely Some/Ok"""
    ps = _param_of_site(db, b, key)
    if ps is None:
        return None
    f, j, rest = ps
    if not rest or not optstate.definitely_good(b, key, bi, entry=True):
        return None
    n = _callers_establish(db, f, j, rest, 0, ())
    if not n:
        return None
    return "typestate: at each of the %d call sites leading to %s the receiver's field is Some/Ok, and nothing disturbs it before the unwrap" % (
        n, f.name.replace("s3s::", ""))


_IV = {}


def _iv(db):
    if id(db) not in _IV:
        _IV.clear()
        _IV[id(db)] = intervals.Intervals(db)
    return _IV[id(db)]


def _fmt(r):
    return "empty" if r == intervals.EMPTY else ("?" if r is None else "[%d, %d]" % r)


def _cond_def(b, bi):
    t = b.blocks[bi]["term"]
    p = flow.op_place(t["cond"])
    if p is None:
        return None, None
    for st in reversed(b.blocks[bi]["stmts"]):
        if st["dst"]["l"] == p["l"] and not st["dst"]["proj"]:
            return p, st["rv"]
    return p, None


def _in(v, r):
    return r is None or (r != intervals.EMPTY and r[0] <= v <= r[1])


def discharge_assert(db, b, s):
    """interval proof that the assert cannot fail (s3sv/intervals.py)"""
    iv = _iv(db)
    bi = s["bi"]
    kind = s["kind"][len("assert:"):]
    p, rv = _cond_def(b, bi)
    if rv is None:
        return None
    E = intervals.EMPTY
    if kind.startswith("overflow:") and rv["k"] == "bin" and "WithOverflow" in rv["op"]:
        A, B = iv.op(b, rv["ops"][0], bi), iv.op(b, rv["ops"][1], bi)
        if A == E or B == E:
            return "unreachable: an operand has an empty range"
        tr = intervals._pair_first_range(b.locals[p["l"]])
        r = intervals.arith(intervals.base_op(rv["op"]), A, B)
        if r is not None and tr is not None and tr[0] <= r[0] and r[1] <= tr[1]:
            return "interval: %s %s %s = %s fits the result type" % (_fmt(A), intervals.base_op(rv["op"]), _fmt(B), _fmt(r))
        return None
    if kind == "bounds" and rv["k"] == "bin" and rv["op"] == "Lt":
        I, L = iv.op(b, rv["ops"][0], bi), iv.op(b, rv["ops"][1], bi)
        if I == E:
            return "unreachable: the index has an empty range"
        if I is not None and L not in (None, E) and I[1] < L[0]:
            return "interval: index %s < length %s" % (_fmt(I), _fmt(L))
        return None
    if kind in ("div0", "rem0") and rv["k"] == "bin" and rv["op"] == "Eq":
        D = iv.op(b, rv["ops"][0], bi)
        if not _in(0, D):
            return "interval: divisor %s excludes 0" % _fmt(D)
        return None
    if kind in ("overflow:Div", "overflow:Rem") and rv["k"] == "bin" and rv["op"] == "BitAnd":
        for o in rv["ops"]:
            q = flow.op_place(o)
            df = flow.single_def(b, q["l"]) if q is not None else None
            if df is None or df["kind"] != "assign" or df["rv"]["k"] != "bin" or df["rv"]["op"] != "Eq":
                continue
            X = iv.op(b, df["rv"]["ops"][0], bi)
            c = intervals.const_value(df["rv"]["ops"][1])
            if c is not None and not _in(c, X):
                return "interval: operand %s excludes %d (the only overflowing case of signed division)" % (_fmt(X), c)
        return None
    if kind == "overflow:Neg" and rv["k"] == "bin" and rv["op"] == "Eq":
        X = iv.op(b, rv["ops"][0], bi)
        c = intervals.const_value(rv["ops"][1])
        if c is not None and not _in(c, X):
            return "interval: operand %s excludes the minimum value" % _fmt(X)
    return None


def explain(db, b, s):
    """what the interval analysis knows about a failing assert (for the report)"""
    if not s["kind"].startswith("assert:"):
        return ""
    try:
        iv = _iv(db)
        p, rv = _cond_def(b, s["bi"])
        if rv is None or rv["k"] != "bin":
            return ""
        A, B = iv.op(b, rv["ops"][0], s["bi"]), iv.op(b, rv["ops"][1], s["bi"])
        if "WithOverflow" in rv["op"]:
            r = intervals.arith(intervals.base_op(rv["op"]), A, B)
            return "; interval analysis: %s %s %s = %s, result type holds %s" % (_fmt(A), intervals.base_op(rv["op"]), _fmt(B), _fmt(r), _fmt(intervals._pair_first_range(b.locals[p["l"]])))
        return "; interval analysis: %s(%s, %s)" % (rv["op"], _fmt(A), _fmt(B))
    except Exception:
        return ""


def check_lemma(db, s, lem):
    """re-check the mechanical part of a table entry; returns None if it holds, else what failed"""
    import re
    b = s["body"]
    kind = lem.get("kind")
    if kind == "callers":
        f = db.root_of(b)
        cs = db.callers_of(f.name)
        if not cs:
            return "no caller of %s found" % f.name
        bad = sorted({cb.name for cb, _, _ in cs if not re.match(lem["pattern"], db.root_of(cb).name)})
        if bad:
            return "%s is also called from %s, which %s does not cover" % (f.name.replace("s3s::", ""), ", ".join(x.replace("s3s::", "") for x in bad[:3]), lem.get("covered_by"))
        return None
    if kind == "callers-under-selector":
        # every call of the enclosing function happens where `<selector>(<const>)` has answered Some - the same single-valued selector the
        # callee's own lookup uses, so "present" means the same thing on both sides (a guard loosened to "at least one" no longer implies it)
        from .. import guards, inline
        f = db.root_of(b)
        cs = [c for c in db.callers_of(f.name) if "::tests::" not in c[0].name]
        if not cs:
            return "no caller of %s found" % f.name

        def under(x, xbi):
            for fact in guards.dominating_facts(x, xbi):
                arg = at = None
                if fact[0] == "call" and fact[1].endswith("::is_some") and fact[2] is True:
                    at = fact[3]
                    arg = x.blocks[at]["term"]["args"][0]
                elif fact[0] == "enum" and fact[2] == frozenset(["Some"]) and fact[3] is not None:
                    arg = {"p": {"l": fact[3][0], "proj": []}}
                if arg is None:
                    continue
                sl = flow.backward(x, arg, at=at)
                direct = [t for _, t, _ in sl.calls if not flow.is_transparent(t) and not callee_def(t).endswith(("::as_ref", "::as_deref", "::copied", "::cloned"))]
                if direct and all(callee_def(t).endswith(lem["selector"]) for t in direct) and \
                        any(c.get("c") == "item" and c.get("def", "").endswith(lem["const"]) for c in sl.consts):
                    return True
            return False

        def keep(db_, caller, term, callee):
            if callee is not None and db_.root_of(callee).name == f.name:
                return False
            return inline.default_policy(db_, caller, term, callee)
        keep.__name__ = "c04_keep_" + short(f.name)
        def fn_under(fn, depth):
            """every call of fn happens under the selector's Some answer - at the call site itself, or because the calling function is a
            crate-internal stage that is itself only called under it"""
            sites = [c for c in db.callers_of(fn.name) if "::tests::" not in c[0].name]
            if not sites:
                return "no caller of %s found" % fn.name

            def keep_(db_, caller, term, callee, _fn=fn):
                if callee is not None and db_.root_of(callee).name == _fn.name:
                    return False
                return inline.default_policy(db_, caller, term, callee)
            keep_.__name__ = "c04_keep_" + short(fn.name)
            for cb, cbi, ct in sites:
                if under(cb, cbi):
                    continue
                ib = inline.inlined(db, cb, keep_)
                inl = [xbi for xbi, xt in ib.calls() if callee_def(xt) == fn.name]
                if inl and all(under(ib, xbi) for xbi in inl):
                    continue
                g = db.root_of(cb)
                if depth < 3 and g.name != fn.name and g.name not in db.reachable_fns and fn_under(g, depth + 1) is None:
                    continue
                return "%s is called at %s where %s(%s) is not known to have answered Some" % (short(fn.name), cb.loc(cbi), lem["selector"], lem["const"])
            return None
        return fn_under(f, 0)
    if kind == "const-args":
        t = b.blocks[s["bi"]]["term"]
        for a in t["args"]:
            c = flow.const_of(b, a)
            if c is None or c.get("c") not in ("str", "bstr", "int"):
                return "an argument of %s is not a literal" % short(s["callee"])
        return None
    if kind == "variant-implies-some":
        n = 0
        for cb in db.grep('"adt":"%s"' % lem["adt"]):
            if cb.raw.get("derived"):
                continue
            for bi, si, st in cb.stmts():
                rv = st["rv"]
                if not (rv["k"] == "agg" and rv.get("adt") == lem["adt"] and rv.get("variant") == lem["variant"]):
                    continue
                n += 1
                keys = set()
                for b2, _, st2 in cb.stmts():
                    for o in st2["rv"]["ops"]:
                        p = flow.op_place(o)
                        if p is None:
                            continue
                        if any(e[0] == "f" and e[2] == lem["field"] and e[3] == lem["field_adt"] for e in flow.norm_proj(p["proj"])):
                            k = optstate.place_key(cb, o)
                            if k is not None:
                                keys.add(k)
                if not any(optstate.definitely_good(cb, k, bi) for k in keys):
                    return "%s::%s is constructed at %s where %s.%s is not known to be Some" % (lem["adt"], lem["variant"], cb.loc(bi), lem["field_adt"], lem["field"])
        if n == 0:
            return "no construction of %s::%s found" % (lem["adt"], lem["variant"])
        # the consuming site must be in a body that only reads the field
        return None
    return "unknown lemma kind %r" % kind


def fingerprint(b, s):
    """name-independent identity of a site: construct, callee, and how its operands are computed (callee names and literals in the backward
    slice of the operands inside the body).  Lets a reviewed site be recognised after its function was renamed, moved or extracted."""
    t = b.blocks[s["bi"]]["term"]
    ops = []
    if t["k"] == "call":
        ops = list(t["args"])
    elif t["k"] == "assert":
        p, rv = _cond_def(b, s["bi"])
        ops = list(rv["ops"]) if rv is not None else []
    names, consts = set(), set()
    names1 = set()
    for o in ops:
        if not isinstance(o, dict):
            continue
        if "c" in o:
            if o.get("c") in ("str", "bstr", "int"):
                consts.add(str(o.get("v"))[:24])
            continue
        sl = flow.backward(b, o, at=s["bi"], max_nodes=400, through_calls=False)
        level1 = []
        for cb, ct, _ in sl.calls:
            d = callee_def(ct)
            if not flow.is_transparent(ct) and not from_skipped_macro(ct.get("span")):
                names.add(short(d))
                names1.add(short(d))
                level1.append((cb, ct))
        # one more hop: what the first-level calls were applied to (`iter.next()` <- `headers.get_all(name)`)
        for cb, ct in level1:
            for a in ct["args"]:
                if isinstance(a, dict) and "p" in a:
                    s2 = flow.backward(b, a, at=cb, max_nodes=200, through_calls=False)
                    for _, c2, _ in s2.calls:
                        if not flow.is_transparent(c2) and not from_skipped_macro(c2.get("span")):
                            names.add(short(callee_def(c2)))
        for c in sl.consts:
            if c.get("c") in ("str", "bstr", "int"):
                consts.add(str(c.get("v"))[:24])
    head = "%s|%s|" % (s["kind"], short(s["callee"]) if s["callee"] else "")
    tail = "|" + ",".join(sorted(consts)[:10])
    return head + ",".join(sorted(names1)[:14]) + tail, head + ",".join(sorted(names)[:14]) + tail


WEAK_NAMES = {"next", "into_iter", "iter", "get", "first", "last", "pop", "peek", "take", "as_ref", "as_mut"}


def _weak_fp(fp):
    kind, callee, names, consts = (fp.split("|") + ["", "", "", ""])[:4]
    ns = {n for n in names.split(",") if n}
    return (not ns and not consts) or (ns and ns <= WEAK_NAMES and not consts)


def load_table():
    if not os.path.exists(TABLE):
        return {}
    with open(TABLE) as fh:
        d = json.load(fh)
    return {e["key"]: e for e in d.get("sites", [])}


def inventory(db):
    roles = Roles(db)
    bodies = reachable_bodies(db, roles)
    out = []
    for name, b in sorted(bodies.items()):
        file = b.span["file"]
        if file.endswith("dto/generated.rs") or not file.startswith("crates/s3s/"):
            continue
        root = db.root_of(b)
        sites = sites_of(db, b)
        counters = {}
        for s in sorted(sites, key=lambda x: x["bi"]):
            k0 = (s["kind"], short(s["callee"]))
            counters[k0] = counters.get(k0, 0) + 1
            s["key"] = "%s|%s|%d" % (b.name.replace("s3s::", ""), s["kind"], counters[k0])
            s["body"] = b
            s["loc"] = b.loc(s["bi"])
            out.append(s)
    return bodies, out


def rule_r5(chk, db, tier):
    bodies, sites = inventory(db)
    table = load_table()
    # (a fingerprint that says nothing about the operands would match unrelated sites: not used)
    # and one whose operands are only an iterator step / element access would match any such site)
    by_fp = {}
    for e in table.values():
        for fp in (e.get("fp"), e.get("fp2")):
            if fp and not _weak_fp(fp):
                by_fp[(fp, e.get("file"))] = e
    n_fp = 0
    chk.stats["request_path_bodies"] = len(bodies)
    chk.floor("R5.bodies", len(bodies), 400, "bodies reachable from S3Service::call")
    n_dis = n_tab = n_lem = 0
    generated = 0
    for s in sites:
        b = s["body"]
        why = discharge(db, b, s)
        if why:
            n_dis += 1
            chk.ok("R5", s["key"], s["loc"], {"discharged": why}, nontrivial=True)
            continue
        e = table.get(s["key"])
        if e is None:
            # the same construct in a renamed / moved / extracted function
            fps = fingerprint(b, s)
            f0 = s["loc"].rsplit(":", 1)[0]
            e = by_fp.get((fps[0], f0)) or by_fp.get((fps[1], f0))
            if e is None:
                # the construct was extracted into a helper whose operands are parameters: take the fingerprint where the helper is
                # inlined into the functions that use it (all of them must lead to the same reviewed entry)
                try:
                    ctx = inline.contexts_of(db, b, s["bi"])
                except Exception:
                    ctx = []
                es = []
                for ib, cbi in ctx:
                    if ib.blocks[cbi]["term"].get("k") != b.blocks[s["bi"]]["term"].get("k"):
                        es = [None]
                        break
                    f2 = fingerprint(ib, dict(s, bi=cbi, body=ib))
                    es.append(by_fp.get((f2[0], f0)) or by_fp.get((f2[1], f0)))
                if es and all(x is not None for x in es) and len({x.get("key") for x in es}) == 1:
                    e = es[0]
            if e is not None:
                n_fp += 1
        if e is not None:
            if e.get("lemma"):
                bad = check_lemma(db, s, e["lemma"])
                if bad:
                    chk.fail("R5", s["key"], s["loc"], "the reviewed argument for this panic site no longer holds: %s (oracles/panic_sites.json: %s)" % (bad, e.get("reason")))
                    continue
                n_lem += 1
            n_tab += 1
            chk.ok("R5", s["key"], s["loc"], {"reviewed": e.get("reason"), "lemma": (e.get("lemma") or {}).get("kind")}, nontrivial=bool(e.get("lemma")))
            continue
        chk.fail("R5", s["key"], s["loc"], "panic construct on the request path that no proof rule discharges and the reviewed table does not list: %s%s in %s%s" %
                 (s["kind"], " (" + short(s["callee"]) + ")" if s["callee"] else "", b.name.replace("s3s::", ""), explain(db, b, s)))
    chk.stats["panic_sites"] = len(sites)
    chk.stats["panic_sites_discharged_locally"] = n_dis
    chk.stats["panic_sites_reviewed_table"] = n_tab
    chk.stats["panic_sites_reviewed_with_checked_lemma"] = n_lem
    chk.stats["panic_sites_matched_by_fingerprint_only"] = n_fp
    chk.floor("R5", len(sites), 40, "explicit panic constructs on the request path")   # a floor against vacuity, not a quota: removing panic constructs is welcome
    chk.floor("R5.discharged", n_dis, 20, "panic constructs discharged by a proof rule")
    stale = sorted(set(table) - {s["key"] for s in sites}) if not n_fp else []
    if stale:
        chk.advisory("%d entries of oracles/panic_sites.json no longer match a site (e.g. %s)" % (len(stale), stale[:2]))


if __name__ == "__main__":
    # helper: print the inventory with source lines (used once to write the reviewed table)
    import sys
    from ..facts import load_db
    db = load_db()
    bodies, sites = inventory(db)
    table = load_table()
    if "--update-fp" in sys.argv:
        with open(TABLE) as fh:
            d = json.load(fh)
        bykey = {s["key"]: s for s in sites}
        for e in d["sites"]:
            s0 = bykey.get(e["key"])
            if s0 is not None:
                e["fp"], e["fp2"] = fingerprint(s0["body"], s0)
                e["file"] = s0["loc"].rsplit(":", 1)[0]
        with open(TABLE, "w") as fh:
            json.dump(d, fh, indent=1)
        print("fingerprints written for %d entries" % len([e for e in d["sites"] if e.get("fp")]))
        sys.exit(0)
    for s in sites:
        why = discharge(db, s["body"], s)
        if why or s["key"] in table:
            continue
        f, ln = s["loc"].rsplit(":", 1)
        try:
            src = open(os.path.join(extract.REPO, f)).read().split("\n")[int(ln) - 1].strip()
        except Exception:
            src = "?"
        print("%s\t%s\t%s" % (s["key"], s["loc"], src[:150]))
