"""Common core of C05 / C06 / C10 / C11: "accepted => verified, over everything the spec signs" (DESIGN.md section 3)."""
from .. import flow, guards, inline, paths
from ..facts import callee_def, short
from ..report import AnchorMissing
from ..roles import Roles

CRED_EXT = "s3s::ops::signature::CredentialsExt"

# parsed structures holding the client-supplied signature: short type name -> (kind, signature field, access-key path)
PARSED = {
    "AuthorizationV4": ("v4-header", "signature"),
    "PresignedUrlV4": ("v4-presigned", "signature"),
    "PostSignatureInfo": ("v4-post", "x_amz_signature"),
    "AuthorizationV2": ("v2-header", "signature"),
    "PresignedUrlV2": ("v2-presigned", "signature"),
}
KIND_PROPERTY = {"v4-header": "C05", "v4-presigned": "C06", "v4-post": "C10", "v2-header": "C11", "v2-presigned": "C11"}


def type_short(ty):
    """`&mut a::b::Name<'_>` -> Name"""
    t = ty.strip()
    while t.startswith("&"):
        t = t[1:].strip()
        if t.startswith("mut "):
            t = t[4:]
        if t.startswith("'"):
            t = t.split(" ", 1)[1] if " " in t else t
    t = t.split("<", 1)[0]
    return t.rsplit("::", 1)[-1]


def is_calc_sig(d):
    return d.endswith("::calculate_signature") and (d.startswith("s3s::sig_v4::") or d.startswith("s3s::sig_v2::"))


class Verifier:
    def __init__(self, db, body):
        self.db = db
        self.body = body
        self.root = db.root_of(body)
        self.name = short(self.root.name)
        self.acc = [bi for bi, si, st in body.stmts() if st["rv"]["k"] == "agg" and st["rv"].get("adt") == CRED_EXT]
        self.acc_aggs = [(bi, st["rv"]) for bi, si, st in body.stmts() if st["rv"]["k"] == "agg" and st["rv"].get("adt") == CRED_EXT]
        kinds = set()
        for ty in body.locals:
            n = type_short(ty)
            if n in PARSED and not ty.strip().startswith("core::"):
                kinds.add(PARSED[n][0])
        # direct locals only (Result<Parsed,..> temporaries share the short name after stripping, so require exact ADT)
        self.kinds = set()
        for ty in body.locals:
            t = ty.strip().lstrip("&").strip()
            if t.startswith("mut "):
                t = t[4:]
            for n, (k, f) in PARSED.items():
                if t.startswith("s3s::sig_v") and t.split("<")[0].endswith("::" + n):
                    self.kinds.add(k)
        self.kind = sorted(self.kinds)[0] if len(self.kinds) == 1 else None
        self.cmp = None           # dict describing the accepting comparison
        self.calc = None          # (bi, term) of the calculate_signature call feeding the comparison

    def typed_places(self, sl, type_name):
        """1-tuples (field,) of fields of ADT `type_name` projected anywhere in slice `sl`"""
        return {(f,) for a, f in sl.fields if a == type_name}

    def ctx_fields(self, sl):
        return {f for a, f in sl.fields if a == "SignatureContext"}


def _constructs_cred(b):
    return any(st["rv"]["k"] == "agg" and st["rv"].get("adt") == CRED_EXT for _, _, st in b.stmts())


def find_verifiers(db):
    """bodies that construct CredentialsExt, studied with their helper functions inlined (s3sv/inline.py); a helper that only builds the
    value for a verifier is part of that verifier, not a verifier of its own"""
    direct = [b for b in db.grep("s3s::ops::signature::CredentialsExt") if b.crate == "s3s" and _constructs_cred(b)]
    return [Verifier(db, ib) for ib in inline.roots_with(db, direct, _constructs_cred)]


def first_writes_from(body, edges, rw=None):
    """return-writes first met on paths starting at the given edges"""
    rw = rw if rw is not None else flow.return_writes(body)
    by_block = {}
    for w in rw:
        by_block.setdefault(w["bi"], []).append(w)
    out = []
    seen = set()
    st = [flow.edge_target(body, e) for e in edges]
    while st:
        x = st.pop()
        if x in seen:
            continue
        seen.add(x)
        if x in by_block:
            out += by_block[x]
            continue
        for _, tb in body.succ_edges(x):
            if not body.blocks[tb]["cleanup"]:
                st.append(tb)
    return out


def is_err_write(w):
    return w["kind"] in ("Err", "residual")


# ------------------------------------------------------------------------------------------------
# V1 compare-before-accept
# ------------------------------------------------------------------------------------------------

def equality_helper_sound(db, name):
    """a workspace `fn(a, b) -> bool` used to compare signatures: true may be returned only if the two inputs have equal length
    (or it delegates to PartialEq).  Returns (ok, why)."""
    b = db.body(name)
    if b is None or b.argc < 2:
        return False, "no body"
    bodies = db.nested(b)
    for x in bodies:
        for bi, t in x.calls():
            d = callee_def(t)
            if d.endswith("cmp::PartialEq::eq") or d.endswith("cmp::PartialEq::ne") or d.endswith("ConstantTimeEq::ct_eq"):
                if x is b:
                    s0, s1 = flow.backward(b, t["args"][0]), flow.backward(b, t["args"][1])
                    p0 = {l for l, _ in s0.params}
                    p1 = {l for l, _ in s1.params}
                    if (1 in p0 and 2 in p1) or (2 in p0 and 1 in p1):
                        # whole-value equality unless both sides are only lengths
                        if not (any(callee_def(c).endswith("::len") for _, c, _ in s0.calls) and any(callee_def(c).endswith("::len") for _, c, _ in s1.calls)):
                            return True, "delegates to PartialEq"
    # length comparison dominating every possibly-true return
    len_eq_edges = set()
    for bi, si, st in b.stmts():
        rv = st["rv"]
        if rv["k"] == "bin" and rv["op"] in ("Eq", "Ne"):
            s0, s1 = flow.backward(b, rv["ops"][0]), flow.backward(b, rv["ops"][1])

            def is_len_of(sl, p):
                return p in {l for l, _ in sl.params} and (any(callee_def(c).endswith("::len") for _, c, _ in sl.calls) or
                                                           any(d2["kind"] == "assign" and d2["rv"]["k"] == "un" and d2["rv"].get("op") == "PtrMetadata"
                                                               for l in sl.locals for d2 in b.defs().get(l, [])))
            if (is_len_of(s0, 1) and is_len_of(s1, 2)) or (is_len_of(s0, 2) and is_len_of(s1, 1)):
                o = flow.outcomes_of_local(b, st["dst"]["l"])
                len_eq_edges |= o.get("true") if rv["op"] == "Eq" else o.get("false")
    for bi, t in b.calls():
        d = callee_def(t)
        if d.endswith("cmp::PartialEq::eq") or d.endswith("cmp::PartialEq::ne"):
            s0, s1 = flow.backward(b, t["args"][0]), flow.backward(b, t["args"][1])
            if any(callee_def(c).endswith("::len") for _, c, _ in s0.calls) and any(callee_def(c).endswith("::len") for _, c, _ in s1.calls):
                o = flow.outcomes_of_call(b, bi)
                len_eq_edges |= o.get("true") if d.endswith("::eq") else o.get("false")
    if not len_eq_edges:
        return False, "returns its verdict without comparing the lengths of its inputs: any prefix (even the empty string) compares equal"
    rw = flow.return_writes(b)
    maybe_true = [w for w in rw if not (w["kind"] == "use" and isinstance(w["rv"]["ops"][0], dict) and w["rv"]["ops"][0].get("c") == "int" and w["rv"]["ops"][0].get("v") == "0")]
    if flow.must_pass(b, [w["bi"] for w in maybe_true], len_eq_edges):
        return True, "length-checked"
    return False, "a possibly-true result is reachable without passing the equal-length outcome"


def rule_v1(chk, v):
    body = v.body
    key = v.name
    if not v.acc:
        raise AnchorMissing("verifier %s has no accepting block" % v.name)
    best = None
    problems = []
    for bi, t in body.calls():
        d = callee_def(t)
        helper = False
        if not (d.endswith("cmp::PartialEq::ne") or d.endswith("cmp::PartialEq::eq")):
            hb = v.db.body(d)
            if hb is None or hb.raw.get("ret") != "bool" or len(t["args"]) != 2 or not d.startswith("s3s::"):
                continue
            helper = True
        o = flow.outcomes_of_call(body, bi)
        is_ne = d.endswith("::ne") and not helper
        eq_edges = o.get("false") if is_ne else o.get("true")
        ne_edges = o.get("true") if is_ne else o.get("false")
        if not eq_edges:
            continue
        if not flow.must_pass(body, v.acc, eq_edges):
            continue
        # operands
        sls = [flow.backward(body, a) for a in t["args"][:2]]
        has_calc = [any(is_calc_sig(callee_def(ct)) for _, ct, _ in sl.calls) for sl in sls]
        if has_calc[0] == has_calc[1]:
            if has_calc[0]:
                problems.append("the comparison at %s has the computed signature on both sides" % body.loc(bi))
            continue
        ci = 0 if has_calc[0] else 1
        client = sls[1 - ci]
        # client side: must end in the signature field of a parsed structure
        ok_client = None
        for n, (k, f) in PARSED.items():
            for names in v.typed_places(client, n):
                if names[-1:] == (f,) or names[:1] == (f,):
                    ok_client = (n, f)
        if ok_client is None:
            problems.append("the comparison at %s does not involve the client-supplied signature field" % body.loc(bi))
            continue
        if helper:
            okh, why = equality_helper_sound(v.db, d)
            if not okh:
                problems.append("signature comparison helper %s %s" % (short(d), why))
                continue
        best = {"bi": bi, "eq": eq_edges, "ne": ne_edges, "computed": t["args"][ci], "client": t["args"][1 - ci], "client_src": ok_client,
                "calc_calls": [(b2, ct) for b2, ct, _ in sls[ci].calls if is_calc_sig(callee_def(ct))]}
        break
    if best is None:
        chk.fail("V1", key, body.loc(v.acc[0]),
                 "credentials are accepted on a path that does not pass the `computed signature == client signature` outcome%s" %
                 ("; " + "; ".join(problems) if problems else ""))
        return False
    v.cmp = best
    if best["calc_calls"]:
        v.calc = best["calc_calls"][0]
    chk.ok("V1", key, body.loc(best["bi"]), {"client_signature": "%s.%s" % best["client_src"], "accept_blocks": len(v.acc)})
    # the unequal outcome reaches only Err returns
    fw = first_writes_from(body, best["ne"])
    bad = [w for w in fw if not is_err_write(w)]
    chk.verdict(bool(fw) and not bad, "V1", key + ".mismatch-is-error", body.loc(best["bi"]),
                "a signature mismatch does not end in an error return (%s)" % [(w["kind"], body.loc(w["bi"])) for w in bad])
    chk.sample({"rule": "V1", "verifier": v.name, "comparison_at": body.loc(best["bi"]), "client_signature": "%s.%s" % best["client_src"],
                "accepting_blocks": v.acc, "equal_edges": sorted(map(str, best["eq"]))})
    return True


# ------------------------------------------------------------------------------------------------
# V2 key binding / attribution
# ------------------------------------------------------------------------------------------------

ACCESS_KEY_FIELDS = ("access_key_id", "access_key")


def access_key_roots(v, sl):
    """places in `sl` that denote the access key of a parsed credential: (type, names)"""
    out = set()
    for a, f in sl.fields:
        if (a in PARSED or a == "CredentialV4") and f in ACCESS_KEY_FIELDS:
            out.add((a, f))
    return out


def rule_v2(chk, v, roles):
    body = v.body
    key = v.name
    if v.calc is None:
        chk.fail("V2", key, body.loc(), "no calculate_signature call feeds the accepting comparison")
        return
    cbi, ct = v.calc
    d = callee_def(ct)
    # secret operand: v4 (string_to_sign, secret, date, region, service); v2 (secret, string_to_sign)
    sec_idx = 1 if d.startswith("s3s::sig_v4::") else 0
    sl = flow.backward(body, ct["args"][sec_idx])
    gsk = [(bi, t) for bi, t, _ in sl.calls if t["callee"].get("trait") == roles.S3Auth and short(callee_def(t)) == "get_secret_key"]
    others = [callee_def(t) for _, t, _ in sl.calls if not flow.is_transparent(t) and t["callee"].get("trait") != roles.S3Auth]
    if len(gsk) != 1:
        chk.fail("V2", key + ".secret", body.loc(cbi), "the signing secret does not come from exactly one S3Auth::get_secret_key call (%d)" % len(gsk))
        return
    gbi, gt = gsk[0]
    chk.verdict(bool(gt["callee"].get("virtual")), "V2", key + ".secret", body.loc(gbi), "get_secret_key is not a call on the configured provider", nontrivial=False)
    ksl = flow.backward(body, gt["args"][1])
    kroots = access_key_roots(v, ksl)
    chk.verdict(bool(kroots), "V2", key + ".lookup-key", body.loc(gbi),
                "the secret is looked up under something other than the access key of the presented credential")
    # attribution: the access_key returned == the key looked up; secret returned == secret used
    for abi, rv in v.acc_aggs:
        m = dict(zip(rv["fields"], rv["ops"]))
        asl = flow.backward(body, m["access_key"])
        aroots = access_key_roots(v, asl)
        chk.verdict(bool(aroots & kroots), "V2", key + ".identity", body.loc(abi),
                    "identity attributed to the request (%s) is not the access key the secret was looked up for (%s)" % (sorted(aroots), sorted(kroots)))
        ssl = flow.backward(body, m["secret_key"])
        chk.verdict(any(bi == gbi for bi, _, _ in ssl.calls), "V2", key + ".secret-attributed", body.loc(abi),
                    "secret_key of the result is not the provider's answer for that access key", nontrivial=False)
        # region / service
        if v.kind and v.kind.startswith("v4"):
            for f, src in (("region", "aws_region"), ("service", "aws_service")):
                fsl = flow.backward(body, m[f])
                ok = any(f2 == src and (a in PARSED or a == "CredentialV4") for a, f2 in fsl.fields)
                chk.verdict(ok, "V2", key + "." + f, body.loc(abi), "%s of the result does not come from the credential scope (%s)" % (f, src))
        else:
            rsl = flow.backward(body, m["region"])
            chk.verdict(not rsl.calls and not rsl.params or flow.is_none_literal(body, m["region"]), "V2", key + ".region", body.loc(abi), "SigV2 has no region", nontrivial=False)
            ssl2 = flow.backward(body, m["service"])
            lits = [c["v"] for c in ssl2.consts if c.get("c") == "str"]
            chk.verdict(lits == ["s3"], "V2", key + ".service", body.loc(abi), "SigV2 service must be the constant \"s3\" (found %s)" % lits, nontrivial=False)


# ------------------------------------------------------------------------------------------------
# V3 provider required
# ------------------------------------------------------------------------------------------------

def none_rejecting(db, fn_name):
    """does workspace fn `fn_name`(Option<X>) -> Result<X> return Err exactly on None?"""
    b = db.body(fn_name)
    if b is None:
        return False
    rw = flow.return_writes(b)
    # form (a): ok_or / ok_or_else of the parameter
    for w in rw:
        if w["kind"] == "call":
            d = callee_def(w["term"])
            if d in ("core::option::Option::<T>::ok_or_else", "core::option::Option::<T>::ok_or"):
                r = flow.resolve_place(b, w["term"]["args"][0])
                if r and r[0] == 1:
                    return len(rw) == 1
    # form (b): match on the parameter
    o = flow.outcomes_of_local(b, 1)
    none, some = o.get("None"), o.get("Some")
    if none and some:
        fn = first_writes_from(b, none, rw)
        fs = first_writes_from(b, some, rw)
        return bool(fn) and all(is_err_write(w) for w in fn) and bool(fs) and all(w["kind"] == "Ok" for w in fs)
    return False


def rule_v3(chk, v, roles):
    body = v.body
    key = v.name
    # the provider on which get_secret_key is invoked
    gsk = [(bi, t) for bi, t in body.calls() if t["callee"].get("trait") == roles.S3Auth and short(callee_def(t)) == "get_secret_key"]
    if not gsk:
        chk.fail("V3", key, body.loc(), "verifier never consults the authentication provider")
        return
    ok_all = True
    for gbi, gt in gsk:
        sl = flow.backward(body, gt["args"][0])
        guards = [(bi, t) for bi, t, _ in sl.calls if callee_def(t).startswith("s3s::") and "Option<&dyn s3s::auth::S3Auth>" in
                  " ".join(body.locals[flow.op_place(a)["l"]] for a in t["args"] if flow.op_place(a))]
        auth_field = "auth" in v.ctx_fields(sl)
        good = False
        for bi, t in guards:
            if none_rejecting(v.db, callee_def(t)):
                o = flow.outcomes_of_call(body, bi)
                cont = o.get("Continue") | o.get("Ok")
                if cont and flow.must_pass(body, v.acc, cont):
                    good = True
        # inline form: `let Some(auth) = self.auth else { return Err(..) }`
        chk.verdict(good and auth_field, "V3", key, body.loc(gbi),
                    "acceptance is not dominated by `provider present` (require_auth Continue edge), or the provider is not SignatureContext.auth")
        ok_all = ok_all and good


def presence_edges(db, b, what):
    """edges of body b on which a credential is known to be presented, whatever the form of the test:
      ("qs", lit)          query parameter `lit` exists: true edge of `qs.has(lit)` or of `opt.is_some_and(|qs| qs.has(lit))`
      ("auth-header",)     an Authorization header exists: Some edge of `hs.get_unique(AUTHORIZATION)` / true edge of `.is_some()` on it
      ("parse-ok", name)   `<name>::parse(..)` succeeded: Ok / Some(after .ok()) edge"""
    edges = set()
    for bi, t in b.calls():
        d = callee_def(t)
        sh = short(d)
        if what[0] == "qs":
            if d.endswith("OrderedQs::has") and paths.str_args(b, t) == [what[1]]:
                edges |= flow.outcomes_of_call(b, bi).get("true")
            elif sh in ("is_some_and", "is_ok_and") and d.startswith(("core::option::Option", "core::result::Result")):
                for a in t["args"][1:]:
                    for l, _ in (flow.resolve_chain(b, a) or []):
                        for df in b.defs().get(l, []):
                            if df["kind"] == "assign" and df["rv"]["k"] == "agg" and df["rv"].get("agg") == "closure":
                                cb = db.body(df["rv"].get("def", ""))
                                if cb is not None and any(callee_def(t2).endswith("OrderedQs::has") and paths.str_args(x, t2) == [what[1]]
                                                          for x in db.nested(cb) for _, t2 in x.calls()):
                                    edges |= flow.outcomes_of_call(b, bi).get("true")
        elif what[0] == "auth-header":
            if sh == "get_unique":
                c = [flow.const_of(b, a) for a in t["args"]]
                if any(x is not None and ((x.get("c") == "item" and x["def"].endswith("::AUTHORIZATION")) or (x.get("c") == "str" and x["v"].lower() == "authorization"))
                       for x in c):
                    o = flow.outcomes_of_call(b, bi)
                    edges |= o.get("Some")
                    for b2, t2 in b.calls():
                        if callee_def(t2) == "core::option::Option::<T>::is_some" and flow.op_place(t2["args"][0]) is not None and \
                                flow.op_place(t2["args"][0])["l"] in o.carriers:
                            edges |= flow.outcomes_of_call(b, b2).get("true")
        elif what[0] == "parse-ok":
            if sh == "parse" and ("::" + what[1] + "::") in d or d.endswith("::" + what[1] + "::parse"):
                o = flow.outcomes_of_call(b, bi)
                edges |= o.get("Ok") | o.get("Some")
    return edges


def _built_from_success_of(x, site, pred):
    """the block `site` is `<value>.map(Variant)` whose receiver is, through payload-preserving adaptors (`.ok()`, `.map_err(..)`), the result
    of a call satisfying pred: the variant is built only if that call succeeded"""
    t = x.blocks[site]["term"]
    if t["k"] != "call" or short(callee_def(t)) != "map" or not t["args"]:
        return False
    a = t["args"][0]
    for _ in range(8):
        p = flow.op_place(a)
        if p is None or p["proj"]:
            return False
        df = flow.single_def(x, p["l"])
        if df is None:
            return False
        if df["kind"] == "assign" and df["rv"]["k"] == "use":
            a = df["rv"]["ops"][0]
            continue
        if df["kind"] != "call":
            return False
        d = callee_def(df["term"])
        if pred(d):
            return True
        if d in flow.PAYLOAD_PRESERVING and df["term"]["args"]:
            a = df["term"]["args"][0]
            continue
        return False
    return False


def selected_by(x, bi, edges, success_of=None):
    """block bi runs only when one of `edges` (the outcomes of a presence / parse test) was taken: directly, or because bi sits in the arm
    of a stored decision (`match self.source()? { Kind::A => .. }`) every construction of which lies behind those edges (or, with
    success_of, is `.map(Variant)` applied to the successful result of that call)"""
    if edges and flow.must_pass(x, [bi], edges):
        return True
    if not edges and success_of is None:
        return False
    for f in guards.dominating_facts(x, bi):
        if f[0] != "enum" or f[3] is None or not guards._is_plain_enum(f[1]):
            continue
        wrap = guards._wrapper_depth(f[3][1])
        if wrap is None:
            continue
        sites = guards._enum_def_sites(x, f[3][0], set(f[2]), wrap, f[1])
        if sites and all((bool(edges) and flow.must_pass(x, [sb], edges)) or (success_of is not None and _built_from_success_of(x, sb, success_of)) for sb in sites):
            return True
    return False


def rule_v3_check(chk, db):
    """SignatureContext::check: a presented signature yields a verdict - Some(Err) never becomes Ok(None)"""
    cands = [b for b in db.grep("v2_check", "v4_check") if b.crate == "s3s" and
             any(short(callee_def(t)) in ("v2_check", "v4_check") for _, t in b.calls())]
    cands = [b for b in cands if len([1 for _, t in b.calls() if short(callee_def(t)) in ("v2_check", "v4_check")]) >= 2]
    if len(cands) != 1:
        raise AnchorMissing("expected one body dispatching to v2_check and v4_check, found %d" % len(cands))
    b = cands[0]
    rw = flow.return_writes(b)
    order = []
    for bi, t in b.calls():
        nm = short(callee_def(t))
        if nm not in ("v2_check", "v4_check"):
            continue
        order.append((bi, nm))
        o = flow.outcomes_of_call(b, bi)
        some = o.get("Some")
        if not some:
            chk.fail("V3", "check." + nm, b.loc(bi), "cannot find the Some outcome of %s" % nm)
            continue
        fw = first_writes_from(b, some, rw)
        bad = []
        for w in fw:
            if w["kind"] in ("residual", "Err"):
                continue        # the verdict's error is propagated (`?`, or `Err(err) => Err(err)`); any Err is a refusal, not a dropped verdict
            if w["kind"] == "Ok" and not flow.is_none_literal(b, w["rv"]["ops"][0]):
                sl = flow.backward(b, w["rv"]["ops"][0])
                if any(c_bi == bi for c_bi, _, _ in sl.calls):
                    continue
            if w["kind"] == "call" and short(callee_def(w["term"])) == "transpose" and callee_def(w["term"]).startswith("core::option::Option") and w["term"]["args"]:
                # Option<Result<T, E>> -> Result<Option<T>, E>: Some(Err(e)) becomes Err(e), the verdict is kept
                sl = flow.backward(b, w["term"]["args"][0], at=w["bi"])
                if any(c_bi == bi for c_bi, _, _ in sl.calls):
                    continue
            bad.append(w)
        chk.verdict(bool(fw) and not bad, "V3", "check." + nm, b.loc(bi),
                    "a verdict of %s can be dropped: Some(result) leads to %s" % (nm, [(w["kind"], b.loc(w["bi"])) for w in bad]))
    return b, order


# ------------------------------------------------------------------------------------------------
# V4 component coverage
# ------------------------------------------------------------------------------------------------

def arg_slice(v, t, i):
    return flow.backward(v.body, t["args"][i])


def builder_calls(v, sl, pred):
    return [(bi, t) for bi, t, _ in sl.calls if pred(callee_def(t))]


def param_reaches_return(db, fn_name, chk, rule, key_prefix, skip=()):
    """TAINT⁺: every parameter of builder `fn_name` influences its return value"""
    b = db.body(fn_name)
    if b is None:
        chk.anchor_missing(rule, "builder %s has no body" % fn_name)
        return
    for p in range(1, b.argc + 1):
        nm = b.local_name(p) or "_%d" % p
        if nm in skip:
            continue
        T, _ = flow.forward(b, [p])
        controls = any(bl["term"]["k"] == "switch" and flow.op_place(bl["term"]["discr"]) is not None and
                       flow.op_place(bl["term"]["discr"])["l"] in T for bl in b.blocks if not bl["cleanup"])
        chk.verdict(0 in T or (controls and b.locals[p].split("::")[-1] in ("Mode", "bool")), rule, "%s(%s)" % (key_prefix, nm), b.loc(),
                    "parameter `%s` of %s no longer influences the returned string: that request component is not signed" % (nm, short(fn_name)))


def date_source_ok(v, sl, kind):
    """the request date used for signing comes from where the spec says"""
    db = v.db
    body = v.body
    if kind == "v4-header":
        # a workspace callee (depth 1) that reads header const X_AMZ_DATE and calls AmzDate::parse
        for bi, t, _ in sl.calls:
            d = callee_def(t)
            cb = db.body(d)
            if cb is not None and d.startswith("s3s::ops::"):
                txt = cb.text
                if "X_AMZ_DATE" in txt and "AmzDate::parse" in txt:
                    return True
            if d.endswith("AmzDate::parse"):
                s2 = flow.backward(body, t["args"][0])
                if any(c.get("c") == "item" and c["def"].endswith("X_AMZ_DATE") for c in s2.consts):
                    return True
        # `hs.get_unique(X_AMZ_DATE).map(|v| AmzDate::parse(v) ..)`: the header constant flows into the value, the parser sits in a closure
        # handed to an adaptor on the way
        if any(c.get("c") == "item" and c["def"].endswith("X_AMZ_DATE") for c in sl.consts):
            for bi, t, _ in sl.calls:
                for a in t["args"]:
                    p = flow.op_place(a)
                    for l, _pr in (flow.resolve_chain(body, a) or []) if p is not None else []:
                        for df in body.defs().get(l, []):
                            if df["kind"] == "assign" and df["rv"]["k"] == "agg" and df["rv"].get("agg") == "closure":
                                cb = db.body(df["rv"].get("def"))
                                if cb is not None and any(callee_def(t2).endswith("AmzDate::parse") for x in db.nested(cb) for _, t2 in x.calls()):
                                    return True
        return False
    if kind == "v4-presigned":
        return any(names[-1:] == ("amz_date",) for names in v.typed_places(sl, "PresignedUrlV4"))
    if kind == "v4-post":
        return any(callee_def(t).endswith("AmzDate::parse") for _, t, _ in sl.calls) and \
            any(names[-1:] == ("x_amz_date",) for names in v.typed_places(sl, "PostSignatureInfo"))
    return True


def scope_ok(v, sl, field):
    return any(f == field and (a in PARSED or a == "CredentialV4") for a, f in sl.fields)


def rule_v4(chk, v, roles):
    body = v.body
    key = v.name
    if v.calc is None:
        return
    cbi, ct = v.calc
    d = callee_def(ct)
    if d.startswith("s3s::sig_v4::"):
        sts = arg_slice(v, ct, 0)
        # date / region / service of calculate_signature
        chk.verdict(date_source_ok(v, arg_slice(v, ct, 2), v.kind), "V4", key + ".calc.date", body.loc(cbi), "signing-key date does not come from the request's date (%s)" % v.kind)
        chk.verdict(scope_ok(v, arg_slice(v, ct, 3), "aws_region"), "V4", key + ".calc.region", body.loc(cbi), "signing-key region is not the credential scope's region")
        chk.verdict(scope_ok(v, arg_slice(v, ct, 4), "aws_service"), "V4", key + ".calc.service", body.loc(cbi), "signing-key service is not the credential scope's service")
        if v.kind == "v4-post":
            ok = any(names[-1:] == ("policy",) for names in v.typed_places(sts, "PostSignatureInfo")) and \
                not [1 for _, t, _ in sts.calls if not flow.is_transparent(t) and not callee_def(t).endswith("::extract") and "multipart" not in callee_def(t)
                     and not callee_def(t).endswith("ok_or_else") and "transform_multipart" not in callee_def(t)]
            chk.verdict(any(names[-1:] == ("policy",) for names in v.typed_places(sts, "PostSignatureInfo")), "V4", key + ".string-to-sign", body.loc(cbi),
                        "POST: the string to sign must be the form's policy field")
            return
        s2s = builder_calls(v, sts, lambda x: x == "s3s::sig_v4::methods::create_string_to_sign")
        if len(s2s) != 1:
            chk.fail("V4", key + ".string-to-sign", body.loc(cbi), "string_to_sign is not built by create_string_to_sign (%d calls in slice)" % len(s2s))
            return
        sbi, stt = s2s[0]
        chk.verdict(date_source_ok(v, arg_slice(v, stt, 1), v.kind), "V4", key + ".sts.date", body.loc(sbi), "string-to-sign date does not come from the request's date")
        chk.verdict(scope_ok(v, arg_slice(v, stt, 2), "aws_region"), "V4", key + ".sts.region", body.loc(sbi), "scope region in the string to sign is not the credential's")
        chk.verdict(scope_ok(v, arg_slice(v, stt, 3), "aws_service"), "V4", key + ".sts.service", body.loc(sbi), "scope service in the string to sign is not the credential's")
        crs = arg_slice(v, stt, 0)
        want_builder = "s3s::sig_v4::methods::create_canonical_request" if v.kind == "v4-header" else "s3s::sig_v4::methods::create_presigned_canonical_request"
        crcalls = builder_calls(v, crs, lambda x: x.startswith("s3s::sig_v4::methods::create_") and x.endswith("canonical_request"))
        if not crcalls:
            chk.fail("V4", key + ".canonical", body.loc(sbi), "the hashed canonical request is not built by a canonical-request builder")
            return
        for i, (rbi, rt) in enumerate(sorted(crcalls)):
            k2 = key + ".canonical#%d" % i
            chk.verdict(callee_def(rt) == want_builder, "V4", k2 + ".builder", body.loc(rbi), "%s uses %s" % (v.kind, short(callee_def(rt))), nontrivial=False)
            m = v.ctx_fields(arg_slice(v, rt, 0))
            chk.verdict("req_method" in m, "V4", k2 + ".method", body.loc(rbi), "canonical request method does not come from the request method (ctx fields %s)" % sorted(m))
            p = v.ctx_fields(arg_slice(v, rt, 1))
            chk.verdict("decoded_uri_path" in p, "V4", k2 + ".path", body.loc(rbi), "canonical URI does not come from the decoded request path (ctx fields %s)" % sorted(p))
            q = v.ctx_fields(arg_slice(v, rt, 2))
            chk.verdict("qs" in q, "V4", k2 + ".query", body.loc(rbi), "canonical query string does not come from the request's query (ctx fields %s)" % sorted(q))
            hsl = arg_slice(v, rt, 3)
            fm = [(bi, t) for bi, t, _ in hsl.calls if callee_def(t).endswith("OrderedHeaders::<'a>::find_multiple_with_on_missing") or
                  callee_def(t).endswith("::find_multiple_with_on_missing") or callee_def(t).endswith("::find_multiple")]
            okh = False
            if len(fm) == 1:
                recv = v.ctx_fields(arg_slice(v, fm[0][1], 0))
                names = arg_slice(v, fm[0][1], 1)
                parsed = "AuthorizationV4" if v.kind == "v4-header" else "PresignedUrlV4"
                okh = "hs" in recv and any(n[-1:] == ("signed_headers",) for n in v.typed_places(names, parsed))
            chk.verdict(okh, "V4", k2 + ".headers", body.loc(rbi),
                        "signed headers are not `request headers restricted to the SignedHeaders list of the presented authorization`")
    else:
        # V2: calculate_signature(secret, string_to_sign)
        sts = arg_slice(v, ct, 1)
        b2 = builder_calls(v, sts, lambda x: x == "s3s::sig_v2::methods::create_string_to_sign")
        if len(b2) != 1:
            chk.fail("V4", key + ".string-to-sign", body.loc(cbi), "V2 string_to_sign is not built by sig_v2::create_string_to_sign")
            return
        sbi, stt = b2[0]
        mode = None
        rv0 = flow.resolve_agg(body, stt["args"][0])
        if rv0 is not None:
            mode = rv0.get("variant")
        want_mode = "HeaderAuth" if v.kind == "v2-header" else "PresignedUrl"
        chk.verdict(mode == want_mode, "V4", key + ".mode", body.loc(sbi), "V2 string-to-sign mode is %s for a %s verifier" % (mode, v.kind))
        for idx, fld, what in ((1, "req_method", "method"), (2, "req_uri", "resource path"), (3, "qs", "sub-resources"), (4, "hs", "headers"), (5, "vh_bucket", "virtual-host bucket")):
            f = v.ctx_fields(arg_slice(v, stt, idx))
            chk.verdict(fld in f, "V4", key + "." + fld, body.loc(sbi), "V2 %s does not come from SignatureContext.%s (ctx fields %s)" % (what, fld, sorted(f)))
        # the V2 resource takes the raw (undecoded) path
        psl = arg_slice(v, stt, 2)
        chk.verdict(any(callee_def(t) == "http::uri::Uri::path" for _, t, _ in psl.calls) and "decoded_uri_path" not in v.ctx_fields(psl),
                    "V4", key + ".raw-path", body.loc(sbi), "V2 canonical resource must use the raw request path")


BUILDERS_V4 = ["s3s::sig_v4::methods::create_canonical_request", "s3s::sig_v4::methods::create_presigned_canonical_request",
               "s3s::sig_v4::methods::create_string_to_sign", "s3s::sig_v4::methods::calculate_signature"]
BUILDERS_CHUNK = ["s3s::sig_v4::methods::create_chunk_string_to_sign"]
BUILDERS_V2 = ["s3s::sig_v2::methods::create_string_to_sign", "s3s::sig_v2::methods::calculate_signature"]


def rule_v5_header_view(chk, db):
    """the sorted header view the verifiers sign from contains every header of the request: building it records each (name, value) pair or
    fails as a whole; no header is skipped (a skipped header would reach the operation without being covered by any signature)"""
    cands = [b for b in db.grep("from_headers") if b.crate == "s3s" and b.kind in ("Fn", "AssocFn") and short(b.name) == "from_headers" and "OrderedHeaders" in b.name]
    if len(cands) != 1:
        raise AnchorMissing("OrderedHeaders::from_headers: %d candidates" % len(cands))
    b = inline.inlined(db, cands[0])
    pushes = {bi for bi, t in b.calls() if short(callee_def(t)) in ("push", "extend", "insert", "push_back", "extend_from_slice") and
              (callee_def(t).startswith("alloc::vec") or callee_def(t).startswith("alloc::collections") or "Extend" in callee_def(t))}
    nexts = []
    for nb, t in b.calls():
        if callee_def(t).endswith("iterator::Iterator::next") and t["args"]:
            sl = flow.backward(b, t["args"][0], at=nb)
            if any(l == 1 for l, _ in sl.params) or 1 in sl.locals:
                nexts.append(nb)
    adaptors = [bi for bi, t in b.calls() if short(callee_def(t)) in ("collect", "try_collect", "extend") and any(
        1 in flow.backward(b, a, at=bi).locals for a in t["args"])]
    if not nexts and adaptors:
        # an iterator chain: it must not filter
        filt = [bi for bi, t in b.calls() if short(callee_def(t)) in ("filter", "filter_map", "flat_map", "skip", "skip_while", "take", "take_while", "flatten", "step_by")]
        chk.verdict(not filt, "V5", "header-view-total", b.loc(filt[0]) if filt else b.loc(adaptors[0]),
                    "the header view is collected through a filtering adaptor: some request headers are not covered by the signature")
        return
    if not nexts or not pushes:
        raise AnchorMissing("OrderedHeaders::from_headers: no loop over the header map that records pairs")
    oks = [w["bi"] for w in flow.return_writes(b) if w["kind"] == "Ok"]
    for nb in nexts:
        some = flow.outcomes_of_call(b, nb).get("Some")
        r = flow.reach_from_edges(b, some, stop_blocks=frozenset(pushes)) if some else set()
        skipped = (nb in r) or any(o in r for o in oks)
        chk.verdict(bool(some) and not skipped, "V5", "header-view-total", b.loc(nb),
                    "building the header view can move on to the next header (or finish) without recording the current one: such a header is invisible to "
                    "every signature check but still reaches the operation")


SORTS = ("sort", "sort_by", "sort_by_key", "sort_by_cached_key", "sort_unstable", "sort_unstable_by", "sort_unstable_by_key")


def rule_v6_header_order(chk, db):
    """the header view is ordered by name only, and stably: the values of a repeated header stay in arrival order (the order in which both
    signature versions list them).  A sort that also compares values, or an unstable one, reorders them."""
    cands = [b for b in db.grep("from_headers") if b.crate == "s3s" and b.kind in ("Fn", "AssocFn") and short(b.name) == "from_headers" and "OrderedHeaders" in b.name]
    if len(cands) != 1:
        raise AnchorMissing("OrderedHeaders::from_headers: %d candidates" % len(cands))
    sites = []
    seen = set()
    work = [(cands[0], 0)]
    while work:
        b, d = work.pop()
        if b.name in seen:
            continue
        seen.add(b.name)
        for x in db.nested(b):
            for bi, t in x.calls():
                cd = callee_def(t)
                if short(cd) in SORTS and ("slice" in cd or "vec" in cd.lower() or "smallvec" in cd):
                    sites.append((x, bi, t))
                hb = db.bodies.get(t["callee"].get("resolved") or "") or db.bodies.get(cd)
                if hb is not None and hb.crate == "s3s" and d < 2:
                    work.append((hb, d + 1))
    chk.floor("V6", len(sites), 1, "sort calls building the header view")
    for x, bi, t in sites:
        nm = short(callee_def(t))
        why = None
        if nm.startswith("sort_unstable"):
            why = "%s is not stable: equal names may change places" % nm
        elif nm == "sort":
            why = "`sort()` compares the whole (name, value) pair: the values of a repeated header are reordered by value"
        else:
            # the comparator / key closure looks at the name only
            cl = None
            for a in t["args"][1:]:
                pl = flow.op_place(a)
                df = flow.single_def(x, pl["l"]) if pl is not None else None
                if df is not None and df["kind"] == "assign" and df["rv"]["k"] == "agg" and df["rv"].get("agg") == "closure":
                    cl = db.body(df["rv"].get("def", ""))
            if cl is None:
                why = "the comparator of %s is not a closure of this function (cannot see what it compares)" % nm
            else:
                idx = set()
                for y in db.nested(cl):
                    for _, _, st in y.stmts():
                        for o in st["rv"]["ops"]:
                            pl = flow.op_place(o)
                            if pl is not None and pl["l"] >= 2 and pl["l"] <= y.argc:
                                idx |= {e["f"] for e in pl["proj"] if isinstance(e, dict) and "f" in e}
                    for _, t2 in y.calls():
                        for o in t2["args"]:
                            pl = flow.op_place(o)
                            if pl is not None and pl["l"] >= 2 and pl["l"] <= y.argc:
                                idx |= {e["f"] for e in pl["proj"] if isinstance(e, dict) and "f" in e}
                if idx - {0}:
                    why = "the comparator of %s also looks at field(s) %s of the (name, value) pair" % (nm, sorted(idx - {0}))
        chk.verdict(why is None, "V6", "header-view-order:%s" % nm, x.loc(bi), "the header view is not ordered by name only and stably: %s" % why)


def rule_v7_own_header_first(chk, db):
    """the selection of the signed headers takes a header's value from the request's own header lines; the caller-supplied fallback (`:authority`
    for `host` on HTTP/2) is consulted only for a name the view has no line for.  If the fallback came first, a `Host` line that the router
    obeys would not be the `host` the signature covers."""
    from .. import writes
    hs = [b for n, b in db.bodies.items() if b.crate == "s3s" and b.kind == "AssocFn" and "ordered_headers::OrderedHeaders" in n and "::tests::" not in n and
          any("Fn(" in b.locals[l] and "Option<" in b.locals[l] for l in range(1, b.argc + 1))]
    chk.floor("V7", len(hs), 1, "header selections with a caller-supplied fallback")
    for b in hs:
        fb = [l for l in range(1, b.argc + 1) if "Fn(" in b.locals[l] and "Option<" in b.locals[l]]
        calls = []
        lookups = set()
        for bi, t in b.calls():
            d = callee_def(t)
            if "ops::function::Fn" in d and short(d) in ("call", "call_mut", "call_once") and t["args"]:
                r = flow.resolve_place(b, t["args"][0])
                if r is not None and r[0] in fb:
                    calls.append(bi)
            elif "ordered_headers::OrderedHeaders" in d and short(d) in ("get_all_pairs", "get_all", "get_unique", "get", "contains") or short(d) in ("binary_search_by_key", "binary_search_by", "partition_point"):
                lookups.add(bi)
        if not calls:
            chk.fail("V7", "own-header-first@%s" % short(b.name), b.loc(), "the fallback parameter of %s is never consulted here (handed on?): cannot decide" % short(b.name))
            continue
        loops = writes.innermost_loops(b)
        for cbi in calls:
            heads = loops.get(cbi, ())
            head = heads[0] if heads else 0        # outermost loop (one iteration per signed name), else the entry
            r = flow.reach(b, [head], removed=frozenset(flow.back_edges(b)), stop_blocks=frozenset(lookups))
            first = cbi in r and cbi not in lookups
            # consulted only under a condition established after the lookup (not unconditionally for every name)
            cond = False
            for lb in lookups:
                rr = flow.reach(b, [lb], removed=frozenset(flow.back_edges(b)), stop_blocks=frozenset([cbi]))
                if cbi in rr:
                    for x in rr:
                        if x != cbi and b.blocks[x]["term"]["k"] == "switch" and cbi in flow.reach(b, [x], removed=frozenset(flow.back_edges(b))):
                            outs = [tb for _, tb in b.succ_edges(x)]
                            if any(cbi not in flow.reach(b, [o], removed=frozenset(flow.back_edges(b))) for o in outs):
                                cond = True
            chk.verdict(not first and cond, "V7", "own-header-first@%s#%d" % (short(b.name), calls.index(cbi)), b.loc(cbi),
                        "the fallback of %s is consulted %s: a header line of the request (e.g. `Host`, which routing obeys) can be replaced in the signed "
                        "headers by the fallback value (`:authority`)" % (short(b.name), "before the request's own header lines are looked up" if first else
                                                                          "for every name, not only where the view has no line"))


def run_common(chk, db, kinds, builders):
    """V1-V4 for the verifiers of the given kinds + TAINT⁺ inside the builders"""
    roles = Roles(db)
    chk.rule("V1", "compare-before-accept: every CredentialsExt construction is edge-dominated by the equal outcome of `computed signature vs client signature`; mismatch reaches only Err")
    chk.rule("V2", "key binding: secret from S3Auth::get_secret_key(access key of the presented credential); identity/region/service attributed from the same credential")
    chk.rule("V3", "provider required: acceptance dominated by the provider-present outcome; SignatureContext::check never drops a verdict")
    chk.rule("V4", "component coverage: every builder argument derives from the request component the spec assigns; every builder parameter reaches the result")
    vs = find_verifiers(db)
    mine = [v for v in vs if v.kind in kinds]
    unknown = [v for v in vs if v.kind is None]
    for v in unknown:
        chk.fail("V1", "unclassified:" + v.name, v.body.loc(), "a function constructs CredentialsExt but handles none of the five known authorization structures (kinds %s)" % sorted(v.kinds))
    chk.floor("V1", len(mine), len(kinds), "verifier bodies of kinds %s" % sorted(kinds))
    chk.stats["verifiers"] = [v.name for v in mine]
    for v in mine:
        if chk.guard("V1", lambda c, vv=v: rule_v1(c, vv)):
            chk.guard("V2", lambda c, vv=v: rule_v2(c, vv, roles))
            chk.guard("V4", lambda c, vv=v: rule_v4(c, vv, roles))
        chk.guard("V3", lambda c, vv=v: rule_v3(c, vv, roles))
    chk.guard("V3", rule_v3_check, db)
    chk.rule("V5", "header view total: OrderedHeaders::from_headers records every header of the request or fails as a whole")
    chk.guard("V5", rule_v5_header_view, db)
    chk.rule("V6", "header view order: sorted by name only, stably (values of a repeated header stay in arrival order)")
    chk.guard("V6", rule_v6_header_order, db)
    if kinds & {"v4-header", "v4-presigned"}:
        chk.rule("V7", "signed headers come from the request's own header lines; the fallback (`:authority`) only for a name without a line")
        chk.guard("V7", rule_v7_own_header_first, db)
    for fn in builders:
        skip = ()
        chk.guard("V4", lambda c, f=fn: param_reaches_return(db, f, c, "V4", "builder:" + short(f) + ("@v2" if "sig_v2" in f else "")))
    return mine
