"""C03 - what the backend returns is what a standard client decodes (DESIGN.md section 3, C03)."""
import glob
import os
import re

from .. import common, flow, paths, inline
from ..facts import callee_def, callee_resolved, short
from ..model import field_key, load_model, OUTPUT_SHAPE_ALIAS
from ..report import AnchorMissing
from ..roles import Roles
from .c01 import operation_impls

SER = "s3s::http::ser::"
OUT_NS = "s3s::dto::generated::"
_STATUS = None


def status_table():
    global _STATUS
    if _STATUS is None:
        from .. import extract
        lock = open(os.path.join(extract.REPO, "Cargo.lock")).read()
        vers = re.findall(r'name = "http"\nversion = "([^"]+)"', lock)
        home = os.environ.get("CARGO_HOME", os.path.expanduser("~/.cargo"))
        out = {}
        for v in vers:
            for p in glob.glob(os.path.join(home, "registry", "src", "*", "http-%s" % v, "src", "status.rs")):
                for m in re.finditer(r'\((\d{3}),\s*(\w+),\s*"', open(p).read()):
                    out.setdefault(m.group(2), int(m.group(1)))
        if not out:
            raise AnchorMissing("cannot read the http crate's status table")
        _STATUS = out
    return _STATUS


def status_of_const(c):
    if c is None or c.get("c") != "item":
        return None
    return status_table().get(short(c["def"]))


def param_field(body, op, param=1):
    """field name when `op` is (a move/copy/ref of) `_param.<field>` (through single-def chains and Some.0 downcasts)"""
    r = flow.resolve_place(body, op)
    if r is None:
        return None
    l, pr = r
    if l != param:
        return None
    names = flow.proj_names(pr)
    return names[0] if names else ""


def bypass_guards(body, w, okrets):
    """switch blocks that can route around block w to a success return"""
    R = flow.reach(body, [0], stop_blocks=frozenset([w]))
    if not any(o in R for o in okrets if o != w):
        return []
    out = []
    for s in R:
        if s == w:
            continue
        t = body.blocks[s]["term"]
        if t["k"] != "switch":
            continue
        tg = [tb for _, tb in body.succ_edges(s)]
        reach_w = [tb for tb in tg if w in flow.reach(body, [tb])]
        avoid_w = [tb for tb in tg if any(o in flow.reach(body, [tb], stop_blocks=frozenset([w])) for o in okrets)]
        if reach_w and avoid_w and set(reach_w) != set(tg):
            out.append(s)
    return out


def guard_fields(body, s):
    t = body.blocks[s]["term"]
    sl = flow.backward(body, t["discr"])
    fs = set()
    for l, pr in sl.params:
        n = flow.proj_names(pr)
        fs.add((l, n[0] if n else ""))
    return fs, sl


def _status_selected_by_content_range(body, op):
    """the operand holds 206 exactly on the paths where `content_range` is present and 200 on the others"""
    from .. import guards
    p = flow.op_place(op)
    if p is None or p["proj"]:
        return False
    l = p["l"]
    for _ in range(4):
        ds = [d for d in body.defs().get(l, []) if d["kind"] != "mutarg"]
        if len(ds) == 1 and ds[0]["kind"] == "assign" and ds[0]["rv"]["k"] == "use" and flow.op_place(ds[0]["rv"]["ops"][0]) is not None and \
                not flow.op_place(ds[0]["rv"]["ops"][0])["proj"]:
            l = flow.op_place(ds[0]["rv"]["ops"][0])["l"]
            continue
        break
    codes = {}
    for d in [d for d in body.defs().get(l, []) if d["kind"] != "mutarg"]:
        if d["kind"] != "assign" or d["rv"]["k"] != "use":
            return False
        c = status_of_const(flow.const_of(body, d["rv"]["ops"][0]))
        if c is None:
            return False
        present = None
        for f in guards.dominating_facts(body, d["bi"]):
            subj_is_cr = False
            if f[0] == "call" and f[1] in ("core::option::Option::<T>::is_some", "core::option::Option::<T>::is_none"):
                ct = body.blocks[f[3]]["term"]
                sl = flow.backward(body, ct["args"][0], at=f[3])
                subj_is_cr = any(flow.proj_names(pr)[:1] == ["content_range"] for _, pr in sl.params)
                if subj_is_cr:
                    present = f[2] if f[1].endswith("is_some") else (not f[2])
            elif f[0] == "enum" and f[3] is not None and f[1].startswith("core::option::Option<") and f[3][0] == 1 and flow.proj_names(f[3][1])[:1] == ["content_range"]:
                if f[2] == frozenset(["Some"]):
                    present = True
                elif f[2] == frozenset(["None"]):
                    present = False
        if present is None:
            return False
        codes.setdefault(c, set()).add(present)
    return codes == {206: {True}, 200: {False}}


def rule_r1(chk, db, model):
    ops = model.operations()
    n_ops = 0
    n_members = 0
    for op in ops:
        body = db.body("s3s::ops::generated::%s::serialize_http" % op.name)
        if body is None:
            chk.fail("R1", op.name, "", "no serialize_http for %s" % op.name)
            continue
        n_ops += 1
        rw = flow.return_writes(body)
        okrets = [w["bi"] for w in rw if w["kind"] == "Ok"]
        # ---- status ---------------------------------------------------------------------------
        status_sites = []
        for bi, t in body.calls():
            d = callee_def(t)
            if d == "s3s::http::response::Response::with_status":
                status_sites.append((bi, status_of_const(flow.const_of(body, t["args"][0])), None))
            elif d == "core::default::Default::default" and "Response" in body.locals[t["dst"]["l"]]:
                status_sites.append((bi, 200, None))
        cond_status = []
        for bi, si, st in body.stmts():
            names = flow.proj_names(flow.norm_proj(st["dst"]["proj"]))
            if names == ["status"] and "Response" in body.locals[st["dst"]["l"]]:
                c = flow.const_of(body, st["rv"]["ops"][0]) if st["rv"]["k"] == "use" else None
                cond_status.append((bi, status_of_const(c)))
        key = op.name + ".<status>"
        if len(status_sites) != 1:
            chk.fail("R1", key, body.loc(), "cannot identify the initial status (%d candidate sites)" % len(status_sites))
        else:
            init = status_sites[0][1]
            if op.name == "GetObject":
                # deviation: 206 iff content_range is set (issue 118)
                ok = init == 200 and len(cond_status) == 1 and cond_status[0][1] == 206
                if not ok and init is None and not cond_status:
                    # `let status = if x.content_range.is_some() { PARTIAL_CONTENT } else { OK }; Response::with_status(status)`
                    ok = _status_selected_by_content_range(body, body.blocks[status_sites[0][0]]["term"]["args"][0])
                    if ok:
                        chk.ok("R1", key, body.loc(status_sites[0][0]), {"status": "200 / 206 selected by content_range"})
                        continue_status = True
                    else:
                        continue_status = False
                    if continue_status:
                        init = 200
                        cond_status = [(-1, 206)]
                        ok = None
                if ok is None:
                    pass
                elif ok:
                    gs = bypass_guards(body, cond_status[0][0], okrets)
                    fs = set()
                    for s in gs:
                        f, _ = guard_fields(body, s)
                        fs |= f
                    ok = fs == {(1, "content_range")}
                    # and it must be the `Some` side: the guard is is_some()==true
                if ok is not None:
                    chk.verdict(ok, "R1", key, body.loc(status_sites[0][0]),
                                "GetObject status must be 200, and 206 exactly when content_range is set (found init=%s overrides=%s)" % (init, cond_status))
            else:
                ok = init == op.code and not cond_status
                chk.verdict(ok, "R1", key, body.loc(status_sites[0][0]),
                            "success status is %s%s, the model prescribes %s" % (init, " with overrides %s" % cond_status if cond_status else "", op.code))
        # ---- members --------------------------------------------------------------------------
        members = op.output_members()
        by_field = {}
        for m in members:
            by_field[field_key(m.name)] = m
        writers = {}   # member name -> list of (bi, kind, detail)
        body_writer = []
        for bi, t in body.calls():
            d = callee_def(t)
            if not d.startswith(SER) and d != "core::convert::From::from":
                continue
            fn = short(d)
            if fn in ("add_opt_header", "add_opt_header_timestamp"):
                hv, c = common.header_const_of_arg(db, body, t["args"][1])
                f = param_field(body, t["args"][2])
                fmt = common.enum_const_variant(body, t["args"][3]) if fn.endswith("timestamp") else None
                writers.setdefault(f, []).append((bi, fn, hv, fmt, t))
            elif fn == "add_opt_metadata":
                f = param_field(body, t["args"][1])
                writers.setdefault(f, []).append((bi, fn, None, None, t))
            elif fn in ("set_xml_body", "set_xml_body_no_decl", "set_stream_body", "set_event_stream_body"):
                f = param_field(body, t["args"][1])
                body_writer.append((bi, fn, f, t))
            elif d == "core::convert::From::from" and "Body" in body.locals[t["dst"]["l"]]:
                f = param_field(body, t["args"][0])
                body_writer.append((bi, "Body::from", f, t))
        seen_fields = set()
        for m in members:
            n_members += 1
            key = "%s.%s" % (op.name, m.name)
            fk = None
            for f in list(writers) + [bw[2] for bw in body_writer]:
                if f is not None and field_key(f) == field_key(m.name):
                    fk = f
            loc = m.location
            if loc == "httpHeader":
                ws = writers.get(fk, []) if fk is not None else []
                want = m.t("httpHeader").lower()
                if len(ws) != 1:
                    chk.fail("R1", key, body.loc(), "header-bound output member %s (%s) has %d writers" % (m.name, want, len(ws)))
                    continue
                bi, fn, hv, fmt, t = ws[0]
                seen_fields.add(fk)
                if m.target_type == "timestamp":
                    wantf = common.TS_FORMAT.get(m.timestamp_format or "http-date")
                    ok = fn == "add_opt_header_timestamp" and hv == want and fmt == wantf
                    what = "timestamp header member written by %s under %r fmt %s; model: %r fmt %s" % (fn, hv, fmt, want, wantf)
                else:
                    ok = fn == "add_opt_header" and hv == want
                    what = "header member written by %s under %r; model: %r" % (fn, hv, want)
                if ok:
                    gs = bypass_guards(body, bi, okrets)
                    if gs:
                        ok = False
                        what = "header writer for %s can be bypassed on a success path (guard at %s)" % (m.name, body.loc(gs[0]))
                chk.verdict(ok, "R1", key, body.loc(bi), what)
                if ok and len(chk.samples) < 3:
                    chk.sample({"rule": "C03.R1", "key": key, "model": {"httpHeader": want, "type": m.target_type},
                                "code": {"callee": callee_def(t), "header": hv, "field": fk, "at": body.loc(bi)}})
            elif loc == "httpPrefixHeaders":
                ws = writers.get(fk, []) if fk is not None else []
                ok = len(ws) == 1 and ws[0][1] == "add_opt_metadata"
                if ok:
                    seen_fields.add(fk)
                    ok = not bypass_guards(body, ws[0][0], okrets)
                chk.verdict(ok, "R1", key, body.loc(ws[0][0]) if ws else body.loc(), "prefix-headers member must be written by add_opt_metadata (found %s)" % [w[1] for w in ws])
            elif loc == "httpPayload":
                bw = [b for b in body_writer if b[2] is not None and field_key(b[2]) == field_key(m.name)]
                k = m.target_type
                streaming = "smithy.api#streaming" in (m.target_shape or {}).get("traits", {})
                want_fn = {"structure": ("set_xml_body",), "blob": ("set_stream_body",), "string": ("Body::from",),
                           "union": ("set_event_stream_body",) if streaming else ("set_xml_body",)}.get(k, ())
                ok = len(bw) == 1 and bw[0][1] in want_fn
                what = "payload member %s (%s) written by %s, expected %s" % (m.name, k, [b[1] for b in bw], want_fn)
                if ok:
                    # may be guarded only by the presence of the member itself
                    for s in bypass_guards(body, bw[0][0], okrets):
                        fs, _ = guard_fields(body, s)
                        if not fs <= {(1, bw[0][2])}:
                            ok = False
                            what = "payload writer guarded by something other than the member's presence at %s" % body.loc(s)
                chk.verdict(ok, "R1", key, body.loc(bw[0][0]) if bw else body.loc(), what)
            elif loc == "body":
                # XML-bound member of the output structure itself: the whole output is the document
                bw = [b for b in body_writer if b[2] == ""]
                want_fn = ("set_xml_body_no_decl",) if op.name == "CompleteMultipartUpload" else ("set_xml_body",)
                ok = len(bw) == 1 and bw[0][1] in want_fn and not bypass_guards(body, bw[0][0], okrets)
                chk.verdict(ok, "R1", key, body.loc(bw[0][0]) if bw else body.loc(),
                            "XML-bound output member %s needs the whole output written with %s (found %s)" % (m.name, want_fn, [b[1] for b in bw]), nontrivial=False)
            else:
                chk.fail("R1", key, body.loc(), "output member with unexpected location %s" % loc)
        # writers without a member
        for f, ws in writers.items():
            if f is None or field_key(f) not in by_field:
                chk.fail("R1", "%s.+%s" % (op.name, f), body.loc(ws[0][0]), "header writer for field %r which is not a model output member" % f)
            elif by_field[field_key(f)].location not in ("httpHeader", "httpPrefixHeaders"):
                chk.fail("R1", "%s.+%s" % (op.name, f), body.loc(ws[0][0]), "field %r is written as a header but the model binds it to %s" % (f, by_field[field_key(f)].location))
        for bi, fn, f, t in body_writer:
            if f == "":
                if not any(m.location == "body" for m in members):
                    chk.fail("R1", "%s.+<body>" % op.name, body.loc(bi), "whole output written as XML but the model has no body-bound member")
            elif f is None or field_key(f) not in by_field or by_field[field_key(f)].location != "httpPayload":
                chk.fail("R1", "%s.+<payload:%s>" % (op.name, f), body.loc(bi), "body written from %r which is not the model's payload member" % f)
    chk.floor("R1", n_ops, 96, "serialize_http bodies compared with the model")
    chk.floor("R1.members", n_members, 300, "output members compared")
    chk.stats["programs"] = n_ops
    chk.stats["output_members_compared"] = n_members


def s3resp_local_fields(body, op, want_field):
    """does operand derive from field `want_field` of a local of type S3Response<..>?"""
    for l, pr in flow.resolve_chain(body, op) or []:
        if body.locals[l].startswith("s3s::protocol::S3Response<") and flow.proj_names(fields_first(pr))[:1] == [want_field]:
            return True
        # the response still wrapped (`Ok(S3Response { headers, .. })` matched out of the call's result)
        if any(e[0] == "f" and len(e) > 3 and e[2] == want_field and e[3] == "s3s::protocol::S3Response" for e in pr):
            return True
    return False


def fields_first(pr):
    return pr


def resp_field(body, op):
    """field name when op is (a ref to) `<local of type Response>.<field>`"""
    for l, pr in flow.resolve_chain(body, op) or []:
        if body.locals[l] in ("s3s::http::response::Response", "&mut s3s::http::response::Response"):
            n = flow.proj_names(pr)
            return n[0] if n else ""
    return None


def rule_r2_r3(chk, db, impls):
    n = 0
    for ty, fns in sorted(impls.items()):
        name = short(ty)
        call = fns.get("call")
        if call is None:
            continue
        bodies = db.nested(call)
        # the body that calls serialize_http
        user = [b for b in bodies if any(callee_def(t).endswith("::serialize_http") for _, t in b.calls())]
        if len(user) != 1:
            chk.fail("R2", name, call.loc(), "cannot find the body serialising the backend's output (%d candidates)" % len(user))
            continue
        b = user[0]
        n += 1
        hdr = ext = False
        lossy_note = []
        hdr_loc = b.loc()
        for bi, t in b.calls():
            d = callee_def(t)
            if d.endswith("HeaderMap::<T>::append") and resp_field(b, t["args"][0]) == "headers" and s3resp_local_fields(b, t["args"][-1], "headers"):
                hdr = True
                hdr_loc = b.loc(bi)
            if d == "core::iter::traits::collect::Extend::extend" or d.endswith("::Extensions::extend") or d.endswith("HeaderMap::<T>::extend"):
                rf = resp_field(b, t["args"][0])
                if rf == "headers" and s3resp_local_fields(b, t["args"][1], "headers"):
                    hdr = True
                    hdr_loc = b.loc(bi)
                if rf == "extensions" and s3resp_local_fields(b, t["args"][1], "extensions"):
                    ext = True
            elif d.startswith("s3s::ops::") and len(t["args"]) == 2 and s3resp_local_fields(b, t["args"][1], "headers"):
                # helper (GetObject: merge_custom_headers): its second parameter must be extended into (*_1).headers
                hb = db.body(d)
                if hb is not None:
                    for bi2, t2 in hb.calls():
                        d2 = callee_def(t2)
                        if d2 == "core::iter::traits::collect::Extend::extend" or d2.endswith("HeaderMap::<T>::extend"):
                            recv = flow.resolve_place(hb, t2["args"][0])
                            src = flow.resolve_place(hb, t2["args"][1])
                            if recv and src and recv[0] == 1 and flow.proj_names(recv[1])[:1] == ["headers"] and src[0] == 2 and resp_field(b, t["args"][0]) == "":
                                hdr = True
                                hdr_loc = b.loc(bi)
                        if d2.endswith("HeaderMap::<T>::append"):
                            recv = flow.resolve_place(hb, t2["args"][0])
                            s3 = flow.backward(hb, t2["args"][-1], at=bi2)
                            if recv and recv[0] == 1 and flow.proj_names(recv[1])[:1] == ["headers"] and any(l == 2 for l, _ in s3.params):
                                hdr = True
                                hdr_loc = b.loc(bi)
                        if d2.endswith("HeaderMap::<T>::insert"):
                            s3 = flow.backward(hb, t2["args"][-1], at=bi2)
                            if any(l == 2 for l, _ in s3.params):
                                lossy_note.append("%s copies the backend's headers with HeaderMap::insert (multi-valued headers collapse) at %s" % (short(d), hb.loc(bi2)))
        if not hdr:
            # `serialize_http(output).map(|mut resp| { resp.headers.extend(headers); resp })`: the merge sits in a closure that captured the
            # backend's headers
            for c in db.nested(b, include_self=False):
                for bi2, t2 in c.calls():
                    d2 = callee_def(t2)
                    if not (d2 == "core::iter::traits::collect::Extend::extend" or d2.endswith("HeaderMap::<T>::extend")) or len(t2["args"]) < 2:
                        continue
                    if resp_field(c, t2["args"][0]) != "headers":
                        continue
                    for l, pr in flow.resolve_chain(c, t2["args"][1]) or []:
                        fs = [e for e in pr if e[0] == "f"]
                        if l != 1 or not fs:
                            continue
                        pb = db.bodies.get(c.parent) or b
                        for _, _, st in pb.stmts():
                            rv = st["rv"]
                            if rv["k"] == "agg" and rv.get("agg") == "closure" and rv.get("def") == c.name and fs[0][1] < len(rv["ops"]):
                                if s3resp_local_fields(pb, rv["ops"][fs[0][1]], "headers"):
                                    hdr = True
                                    hdr_loc = c.loc(bi2)
        chk.verdict(hdr and not lossy_note, "R2", name + ".headers", hdr_loc,
                    ("%s::call never merges the backend's S3Response.headers into the response" % name) if not lossy_note else "; ".join(lossy_note))
        if name == "CompleteMultipartUpload":
            if not ext:
                chk.advisory("CompleteMultipartUpload: S3Response.extensions of the deferred result are dropped (the response head is already sent)")
        else:
            chk.verdict(ext, "R2", name + ".extensions", b.loc(), "%s::call never merges the backend's S3Response.extensions into the response" % name, nontrivial=False)
        # R3 status override
        if name == "CompleteMultipartUpload":
            chk.advisory("CompleteMultipartUpload: status override cannot apply (200 + keep-alive body is sent before the backend finishes)")
            continue
        st_ok = False
        for bi, si, st in b.stmts():
            names = flow.proj_names(flow.norm_proj(st["dst"]["proj"]))
            if names == ["status"] and "Response" in b.locals[st["dst"]["l"]]:
                sl = flow.backward(b, st["rv"]["ops"][0])
                for l in sl.locals:
                    if b.locals[l].startswith("s3s::protocol::S3Response<"):
                        st_ok = True
                # the value is typically (s3_resp.status as Some).0
                r = flow.resolve_place(b, st["rv"]["ops"][0])
                if r and b.locals[r[0]].startswith("s3s::protocol::S3Response<") and flow.proj_names(r[1])[:1] == ["status"]:
                    st_ok = True
        chk.verdict(st_ok, "R3", name, b.loc(), "S3Response.status (documented: 'overrides the status code implied by the output') is never read in %s::call" % name)
    chk.floor("R2", n, 96, "Operation::call bodies")


def rule_r3_custom_route(chk, db):
    """the custom-route arm of ops::call copies status/headers/body/extensions of the route's S3Response"""
    roles = Roles(db)
    cs = db.calls_matching(lambda t: t["callee"].get("trait") == roles.S3Route and short(callee_def(t)) == "call", "S3Route")
    cs = [(b, bi, t) for b, bi, t in cs if b.crate == "s3s"]
    if not cs:
        raise AnchorMissing("no S3Route::call site")
    root = db.root_of(cs[0][0])
    found = False
    for b in db.nested(root):
        for bi, si, st in b.stmts():
            rv = st["rv"]
            if rv["k"] == "agg" and rv.get("adt") == "s3s::http::response::Response":
                found = True
                m = dict(zip(rv["fields"], rv["ops"]))
                for f, src in (("status", "status"), ("headers", "headers"), ("body", "output"), ("extensions", "extensions")):
                    sl = flow.backward(b, m[f])
                    ok = False
                    r = flow.resolve_place(b, m[f])
                    for l in sl.locals:
                        if b.locals[l].startswith("s3s::protocol::S3Response<"):
                            ok = True
                    chk.verdict(ok, "R3", "custom-route." + f, b.loc(bi), "custom-route response field %s does not come from the route's S3Response" % f, nontrivial=False)
    if not found:
        chk.fail("R3", "custom-route", root.loc(), "custom-route arm does not build the response from the route's S3Response")


_DECL_CACHE = {}


def _literal_defs(body, local, depth=0):
    """[(bi, variant)] of the enum literals a local is assigned (through whole-value copies), or None if it is defined any other way"""
    out = []
    ds = [d for d in body.defs().get(local, []) if d["kind"] != "mutarg"]
    if not ds or depth > 6:
        return None
    for d in ds:
        if d["kind"] != "assign" or d.get("proj"):
            return None
        rv = d["rv"]
        if rv["k"] == "agg" and rv.get("agg") == "adt" and rv.get("variant") and not rv["ops"]:
            out.append((d["bi"], rv["variant"]))
        elif rv["k"] == "use" and flow.op_place(rv["ops"][0]) is not None and not flow.op_place(rv["ops"][0])["proj"]:
            sub = _literal_defs(body, flow.op_place(rv["ops"][0])["l"], depth + 1)
            if sub is None:
                return None
            out += sub
        else:
            return None
    return out


def _reachable_under(se, param, val):
    """blocks of `se` that can run when parameter `param` has the constant `val` (("int", "0"/"1") or ("variant", name)): switches on the
    parameter are decided, and so are switches on a local that stores a decision (`let decl = if no_decl { Omit } else { Emit }` ..
    `match decl`): only the variants assigned in blocks that can run remain possible.  Iterated to a fixed point."""
    dead = set()
    for _ in range(12):
        live = flow.reach(se, [0], removed=frozenset(dead))
        new = set(dead)
        for sb in live:
            st = se.blocks[sb]["term"]
            if st["k"] != "switch":
                continue
            src = paths.switch_source(se, st)
            edges = se.succ_edges(sb)
            if src is not None and src[0] == "discr":
                r = flow.resolve_place(se, src[1]["ops"][0])
                vals = paths.discr_values(st, src[1])
                possible = None
                if r is not None and r[0] == param and not r[1] and val[0] == "variant":
                    possible = {val[1]}
                else:
                    p0 = flow.op_place(src[1]["ops"][0])
                    lits = _literal_defs(se, p0["l"]) if p0 is not None and not [e for e in p0["proj"] if e != "*"] else None
                    if lits:
                        possible = {v for bi, v in lits if bi in live}
                if possible is not None:
                    for lab, tb in edges:
                        v = vals.get(lab)
                        if v is None:
                            continue
                        names = set(v[6:].split("|")) if v.startswith("OTHER:") else {v}
                        if not (names & possible):
                            new.add((sb, lab))
            elif val[0] == "int":
                r = flow.resolve_place(se, st["discr"])
                if r is not None and r[0] == param and not r[1]:
                    listed = [lab for lab, _ in edges if lab != "otherwise"]
                    for lab, tb in edges:
                        take = (lab == val[1]) or (lab == "otherwise" and val[1] not in listed)
                        if not take:
                            new.add((sb, lab))
        if new == dead:
            break
        dead = new
    return flow.reach(se, [0], removed=frozenset(dead))


def _error_decl_mode(db, b, t):
    """'decl' / 'no_decl' / None: which body setter serialize_error reaches for the constant selector this call passes"""
    se = db.body("s3s::ops::serialize_error")
    if se is None or len(t["args"]) < 2:
        return None
    # value of the selector at the call: a bool literal or a unit enum variant
    c = flow.const_of(b, t["args"][1])
    val = None
    if c is not None and c.get("c") == "int":
        val = ("int", str(c.get("v")))
    else:
        p = flow.op_place(t["args"][1])
        df = flow.single_def(b, p["l"]) if p is not None and not p["proj"] else None
        for _ in range(4):
            if df is not None and df["kind"] == "assign" and df["rv"]["k"] == "use" and flow.op_place(df["rv"]["ops"][0]) is not None:
                q = flow.op_place(df["rv"]["ops"][0])
                df = flow.single_def(b, q["l"]) if not q["proj"] else None
            else:
                break
        if df is not None and df["kind"] == "assign" and df["rv"]["k"] == "agg" and df["rv"].get("agg") == "adt":
            val = ("variant", df["rv"].get("variant"))
    if val is None:
        return None
    key = (db.dir, val)
    if key in _DECL_CACHE:
        return _DECL_CACHE[key]
    # serialize_error with the XML body setters of http::ser inlined: what matters is whether `Serializer::decl()` runs on the path the
    # selector value takes, whichever function the choice is written in
    def pol(db_, caller, term, callee):
        if callee is not None and callee.name.startswith(SER + "set_xml_body") and callee.kind in ("Fn", "AssocFn") and len(callee.blocks) <= inline.MAX_BLOCKS:
            return True
        return inline.default_policy(db_, caller, term, callee)
    pol.__name__ = "c03_error_decl"
    se = inline.inlined(db, se, pol)
    decls = {bi for bi, ct in se.calls() if short(callee_def(ct)) == "decl" and "xml::ser::Serializer" in callee_def(ct)}
    sers = {bi for bi, ct in se.calls() if short(callee_def(ct)) in ("serialize", "serialize_content") and "xml::ser" in callee_def(ct)}
    # the serializer calls may sit in a closure built on the arm (`serialize_xml_to_vec(cap, |ser| ser.decl().and_then(..))`)
    for bi, si, st in se.stmts():
        rv = st["rv"]
        if rv["k"] == "agg" and rv.get("agg") == "closure":
            cb = db.body(rv.get("def", ""))
            for x in (db.nested(cb) if cb is not None else []):
                for _, ct in x.calls():
                    if short(callee_def(ct)) == "decl" and "xml::ser::Serializer" in callee_def(ct):
                        decls.add(bi)
                    if short(callee_def(ct)) in ("serialize", "serialize_content") and "xml::ser" in callee_def(ct):
                        sers.add(bi)
    live = _reachable_under(se, 2, val)
    out = None
    if decls & live:
        out = "decl"
    elif sers & live:
        out = "no_decl"
    _DECL_CACHE[key] = out
    return out


def rule_r4(chk, db, model, impls):
    """keep-alive tables for CompleteMultipartUpload"""
    fns = impls.get("s3s::ops::generated::CompleteMultipartUpload")
    if not fns:
        raise AnchorMissing("CompleteMultipartUpload impl not found")
    call = fns["call"]
    bodies = db.nested(call)
    op = [o for o in model.operations() if o.name == "CompleteMultipartUpload"][0]
    want = sorted(m.t("httpHeader").lower() for m in op.output_members() if m.location == "httpHeader")
    # trailer list: HeaderName::as_str calls whose receiver is a header const, in the body that calls add_opt_header(_, "trailer", _)
    found = False
    for b in bodies:
        for bi, t in b.calls():
            if callee_def(t) == SER + "add_opt_header" and paths.str_args(b, t)[:1] == ["trailer"]:
                found = True
                sl = flow.backward(b, t["args"][2])
                names = []
                for c in sl.consts:
                    hv = common.header_value(db, c)
                    if hv and c.get("c") == "item":
                        names.append(hv)
                chk.verdict(sorted(set(names)) == want, "R4", "trailer-list", b.loc(bi),
                            "declared trailers %s != header-bound output members %s" % (sorted(set(names)), want))
                joins = [c["v"] for c in sl.consts if c.get("c") == "str"]
                chk.verdict("," in joins, "R4", "trailer-join", b.loc(bi), "trailer names are not joined with ','", nontrivial=False)
    if not found:
        chk.fail("R4", "trailer-list", call.loc(), "no `trailer` header declared for the keep-alive response")
    # the error renderer writes the document without an XML declaration exactly when it is called from the deferred future (whatever
    # the type of the selecting parameter: the call's constant argument is evaluated against the renderer's own branch)
    n_true = 0
    for b, bi, t in db.callers_of("s3s::ops::serialize_error"):
        v = _error_decl_mode(db, b, t)
        in_keepalive = b in bodies and b.kind == "Closure" and any(callee_def(t2).endswith("::serialize_http") for _, t2 in b.calls())
        if in_keepalive:
            n_true += 1
            chk.verdict(v == "no_decl", "R4", "late-error-no-decl", b.loc(bi), "the late error of the keep-alive response must be rendered without a second XML declaration "
                        "(the renderer is asked for: %s)" % v)
        else:
            chk.verdict(v == "decl", "R4", "error-decl@%s" % db.root_of(b).name.replace("s3s::ops::", ""), b.loc(bi),
                        "an ordinary error response must start with the XML declaration (the renderer is asked for: %s)" % v, nontrivial=False)
    chk.floor("R4.late", n_true, 1, "late-error rendering sites in the keep-alive future")
    # set_keep_alive_xml_body: initial buffer derives only from Serializer::decl
    kb = db.body(SER + "set_keep_alive_xml_body")
    if kb is None:
        raise AnchorMissing("set_keep_alive_xml_body not found")
    # (with the setter's helpers inlined, and looking into the closures it hands to them)
    kbi = inline.inlined(db, kb)
    fam = [kbi] + [x for x in db.nested(kb, include_self=False)]
    for hn in getattr(kbi, "inlined_from", []):
        hb = db.body(hn)
        if hb is not None:
            fam += db.nested(hb, include_self=False)
    ser_calls = [callee_def(t) for x in fam for _, t in x.calls() if callee_def(t).startswith("s3s::xml::ser::Serializer")]
    chk.verdict(sorted(set(ser_calls)) == ["s3s::xml::ser::Serializer::<W>::decl", "s3s::xml::ser::Serializer::<W>::new"], "R4", "initial-body",
                kb.loc(), "the keep-alive initial body must be exactly the XML declaration; serializer calls: %s" % sorted(set(ser_calls)))


RESPONSE_OVERRIDES = {  # oracle D.4: GetObject request parameter -> response header
    "response_content_type": "content-type", "response_content_language": "content-language", "response_expires": "expires",
    "response_cache_control": "cache-control", "response_content_disposition": "content-disposition",
    "response_content_encoding": "content-encoding",
}


def rule_r5(chk, db):
    b = db.body("s3s::ops::get_object::extract_overridden_response_headers")
    if b is None:
        raise AnchorMissing("extract_overridden_response_headers not found")
    got = {}
    for bi, t in b.calls():
        d = callee_def(t)
        if d.startswith("s3s::ops::get_object::add"):
            hv, c = common.header_const_of_arg(db, b, t["args"][1])
            sl = flow.backward(b, t["args"][2])
            fields = set()
            for l, pr in sl.params:
                n = flow.proj_names(pr)
                if n[:1] == ["input"] and len(n) > 1:
                    fields.add(n[1])
            for f in fields:
                got[f] = hv
    for f, h in sorted(RESPONSE_OVERRIDES.items()):
        chk.verdict(got.get(f) == h, "R5", f, b.loc(), "GetObject %s must override response header %r, code maps it to %r" % (f, h, got.get(f)))
    for f in sorted(set(got) - set(RESPONSE_OVERRIDES)):
        chk.fail("R5", "+" + f, b.loc(), "unexpected response override from input field %s" % f)
    # and the overrides are applied in GetObject::call
    cs = db.callers_of(b.name)
    chk.verdict(len(cs) == 1, "R5", "applied", cs[0][0].loc(cs[0][1]) if cs else b.loc(), "overridden headers are computed %d times" % len(cs), nontrivial=False)


def rule_r6(chk, db):
    """keep-alive body: the structural skeleton of its state machine"""
    from .. import guards
    bodies = [b for b in db.grep("KeepAliveBody") if b.crate == "s3s" and b.impl_trait == "http_body::Body" and "KeepAliveBody" in b.impl_self]
    pf = [b for b in bodies if short(b.name) == "poll_frame"]
    es = [b for b in bodies if short(b.name) == "is_end_stream"]
    if len(pf) != 1:
        raise AnchorMissing("KeepAliveBody::poll_frame not found")
    pf = pf[0]
    # (a) is_end_stream reads only the state of the machine: one field, and it answers true exactly in the end state(s) of that field
    #     (`self.done`, or `matches!(self.phase, Phase::Done)`)
    S, V = "done", {"1"}
    if es:
        e = es[0]
        fields = set()
        calls = []
        for w in flow.return_writes(e):
            op = w["rv"]["ops"][0] if "rv" in w and w["rv"]["ops"] else None
            if op is not None:
                sl = flow.backward(e, op, at=w["bi"])
                fields |= {f for a, f in sl.fields if a == "KeepAliveBody"}
                calls += [callee_def(t) for _, t, _ in sl.calls]
            if "term" in w:
                calls.append(callee_def(w["term"]))
        other_reads = {f for bi, si, st in e.stmts() for o in st["rv"]["ops"] if flow.op_place(o) for a, f in flow.proj_fields(flow.norm_proj(flow.op_place(o)["proj"])) if a == "KeepAliveBody"}
        read = fields | other_reads
        state_ok = len(read) == 1 and not [c for c in calls if not flow.is_transparent({"callee": {"def": c}})]
        if state_ok:
            S = list(read)[0]
            # end states: the variants under which `true` is returned (a bool field answers with itself)
            ends = set()
            direct = False
            for bi, si, st in e.stmts():
                if st["dst"]["l"] == 0 and not st["dst"]["proj"]:
                    c = flow.const_of(e, st["rv"]["ops"][0]) if st["rv"]["k"] == "use" else None
                    if c is not None and c.get("ty") == "bool":
                        if c.get("v") != "0":
                            got = [x[2] for x in guards.dominating_facts(e, bi) if x[0] == "enum" and x[3] is not None and S in flow.proj_names(x[3][1])]
                            if not got:
                                state_ok = False
                            for g_ in got:
                                ends |= set(g_)
                    else:
                        direct = True
            if direct and not ends:
                V = {"1"}
            elif ends and not direct:
                V = ends
            else:
                state_ok = False
        chk.verdict(state_ok, "R6", "is_end_stream", e.loc(),
                    "KeepAliveBody::is_end_stream depends on %s %s: it must report the end only through the state that poll_frame enters with its last frame "
                    "(hyper stops polling once it is true, so trailers would be lost)" % (sorted(read), [short(c) for c in calls][:3]))
    else:
        chk.ok("R6", "is_end_stream.default", pf.loc(), nontrivial=False)

    def _enters_end(st):
        nm = flow.proj_names(flow.norm_proj(st["dst"]["proj"]))
        if nm[-1:] != [S]:
            return False
        rv = st["rv"]
        if rv["k"] == "use" and isinstance(rv["ops"][0], dict) and rv["ops"][0].get("c") == "int":
            return rv["ops"][0].get("v") in V
        if rv["k"] == "agg" and rv.get("variant") in V:
            return True
        rva = flow.resolve_agg(pf, rv["ops"][0]) if rv["k"] == "use" and rv.get("ops") else None
        return rva is not None and rva.get("variant") in V
    # (b) the end state is entered only together with the last frame (trailers / error)
    sets = []
    for bi, si, st in pf.stmts():
        if _enters_end(st):
            sets.append(bi)
    chk.floor("R6.done", len(sets), 2, "entries into the end state in poll_frame")
    trailer_calls = [bi for bi, t in pf.calls() if short(callee_def(t)) == "trailers" and "Frame" in callee_def(t)]
    chk.verdict(len(trailer_calls) == 1, "R6", "trailers-frame", pf.loc(trailer_calls[0]) if trailer_calls else pf.loc(), "poll_frame builds %d trailers frames (expected one)" % len(trailer_calls))
    for tb in trailer_calls:
        t = pf.blocks[tb]["term"]
        sl = flow.backward(pf, t["args"][0], at=tb)
        chk.verdict(("Response", "headers") in sl.fields, "R6", "trailers-are-response-headers", pf.loc(tb), "the trailers frame does not carry the completed response's headers")
    def _already_ended(blk):
        """the block runs only when the machine was found in the end state (it puts that state back after a `mem::replace`)"""
        for s2 in pf.live_blocks():
            t2 = pf.blocks[s2]["term"]
            if t2["k"] != "switch":
                continue
            sl2 = flow.backward(pf, t2["discr"], at=s2)
            if not (("KeepAliveBody", S) in sl2.fields or any(n[-1:] == (S,) for _, n in sl2.places)):
                continue
            src2 = paths.switch_source(pf, t2)
            if src2 is not None and src2[0] == "discr":
                vals2 = paths.discr_values(t2, src2[1])
                tr = [(s2, lab) for lab, tb in pf.succ_edges(s2) if vals2.get(lab) in V]
            else:
                tr = [(s2, lab) for lab, tb in pf.succ_edges(s2) if lab != "0"] if V == {"1"} else []
            if tr and flow.must_pass(pf, [blk], tr):
                return True
        return False
    for i, sb in enumerate(sets):
        if _already_ended(sb):
            chk.ok("R6", "done-with-last-frame#%d" % i, pf.loc(sb), {"restores": "the end state it was found in"}, nontrivial=False)
            continue
        # the next frame produced after entering the end state is the trailers frame or an Err frame; no data frame and no further polling
        r = flow.reach(pf, [sb])
        later_calls = [short(callee_def(pf.blocks[b2]["term"])) for b2 in r if pf.blocks[b2]["term"]["k"] == "call"]
        ok = ("trailers" in later_calls or any(st["rv"]["k"] == "agg" and st["rv"].get("variant") == "Err" for b2 in r for st in pf.blocks[b2]["stmts"])) and \
            "poll" not in later_calls and "poll_frame" not in later_calls and "poll_tick" not in later_calls and "data" not in later_calls
        chk.verdict(ok, "R6", "done-with-last-frame#%d" % i, pf.loc(sb), "the end state is entered at a point after which poll_frame still produces data or polls (calls after it: %s)" % sorted(set(later_calls))[:6])
    # (c) Ready(None) only in the end state
    for bi, si, st in pf.stmts():
        rv = st["rv"]
        if rv["k"] == "agg" and rv.get("adt") == "core::task::poll::Poll" and rv.get("variant") == "Ready" and rv["ops"] and flow.is_none_literal(pf, rv["ops"][0]):
            dom = False
            for s2 in pf.live_blocks():
                t2 = pf.blocks[s2]["term"]
                if t2["k"] == "switch":
                    sl = flow.backward(pf, t2["discr"], at=s2)
                    if ("KeepAliveBody", S) in sl.fields or any(n[-1:] == (S,) for _, n in sl.places):
                        src2 = paths.switch_source(pf, t2)
                        if src2 is not None and src2[0] == "discr":
                            vals2 = paths.discr_values(t2, src2[1])
                            tr = [(s2, lab) for lab, tb in pf.succ_edges(s2) if vals2.get(lab) in V]
                        else:
                            tr = [(s2, lab) for lab, tb in pf.succ_edges(s2) if lab != "0"] if V == {"1"} else []
                        if tr and flow.must_pass(pf, [bi], tr):
                            dom = True
            chk.verdict(dom, "R6", "end-only-when-done", pf.loc(bi), "poll_frame returns Ready(None) on a path where the end state has not been entered")
    # (d) filler is a single space, only while the source is pending
    fill = []
    for bi, t in pf.calls():
        if short(callee_def(t)) == "from_static" and "Bytes" in callee_def(t):
            c = flow.const_of(pf, t["args"][0])
            fill.append((bi, c.get("v") if c else None))
    chk.verdict([v for _, v in fill] == [" "], "R6", "filler-is-whitespace", pf.loc(fill[0][0]) if fill else pf.loc(), "keep-alive filler bytes are %r (the XML prolog allows only whitespace)" % [v for _, v in fill])
    for bi, v in fill:
        f = guards.dominating_facts(pf, bi)
        pend = [x for x in f if x[0] == "enum" and x[1].startswith("core::task::poll::Poll<core::result::Result<s3s::http::response::Response") and x[2] == frozenset(["Pending"])]
        chk.verdict(bool(pend), "R6", "filler-only-while-pending", pf.loc(bi), "a filler byte can be emitted when the backend future is not pending", nontrivial=False)


def rule_r7(chk, db):
    """byte-length claims of streamed bodies never come from an item-count hint"""
    n = 0
    for b in db.grep("remaining_length"):
        if b.crate != "s3s" or short(b.name) != "remaining_length" or not b.impl_trait.endswith("ByteStream"):
            continue
        n += 1
        bad = []
        for x in db.nested(b):
            for bi, t in x.calls():
                d = callee_def(t)
                if d.endswith("stream::Stream::size_hint") or d.endswith("iterator::Iterator::size_hint") or d.endswith("StreamExt::size_hint"):
                    bad.append((x, bi, d))
        chk.verdict(not bad, "R7", b.impl_self.replace("s3s::", "")[:70], bad[0][0].loc(bad[0][1]) if bad else b.loc(),
                    "ByteStream::remaining_length (bytes) of %s is computed from Stream::size_hint (number of items): the advertised body length is wrong" % b.impl_self)
    chk.floor("R7", n, 4, "ByteStream::remaining_length impls")


def run(chk, db, tier):
    model = load_model()
    impls = operation_impls(db)
    chk.rule("R1", "output binding table: status per model; every header-bound member written once under its wire name/format; payload/body members via the right body setter; no writer without a member; writers not bypassable on success paths")
    chk.rule("R2", "every Operation::call merges the backend's S3Response.headers (and extensions) into the response after serialisation")
    chk.rule("R3", "the backend's S3Response.status override reaches the response")
    chk.rule("R4", "keep-alive tables: declared trailers == header-bound members; late error rendered with no_decl; initial body == XML declaration")
    chk.rule("R5", "GetObject response-* request parameters map to the six documented response headers")
    chk.guard("R1", rule_r1, db, model)
    chk.guard("R2", rule_r2_r3, db, impls)
    chk.guard("R3", rule_r3_custom_route, db)
    chk.guard("R4", rule_r4, db, model, impls)
    chk.guard("R5", rule_r5, db)
    chk.rule("R6", "keep-alive body skeleton: is_end_stream == done; done set only with the last frame (trailers = completed response's headers, or the error); Ready(None) only when done; filler is one space, only while pending")
    chk.rule("R7", "ByteStream::remaining_length (bytes) never derives from an item-count size_hint")
    chk.guard("R6", rule_r6, db)
    chk.guard("R7", rule_r7, db)


META = {
    "level": "translation_validation",
    "explanation": "Every output member of every operation is matched against the response writer that emits it (header name constant, "
                   "timestamp format, body setter), the success status against the model's http code, and each Operation::call body is "
                   "checked to merge the backend's headers/extensions and to honour its status override; the keep-alive response's trailer "
                   "list, late-error rendering and initial body are checked as tables. Decides the encoding structure, not the XML document "
                   "itself (C13) nor the keep-alive body under all completion timings.",
    "not_decided": ["keep-alive body under all completion timings (schedule quantifier over KeepAliveBody::poll_frame)",
                    "decoding by an independent client (aws-sdk-s3)", "the XML document (C13)"],
    "assumptions": ["rustc nightly MIR construction", "data/s3.json is the binding oracle (deviations: PutBucketPolicy 204, GetObject 206 iff content_range)",
                    "http crate's header and status tables (read from the pinned registry source)"],
}
