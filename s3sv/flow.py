"""CFG and dataflow primitives over Body facts (see DESIGN.md 2.2)."""
import collections

from .facts import callee_def, callee_resolved

# ------------------------------------------------------------------------------------------------
# reachability on the edge-split normal-path CFG
# ------------------------------------------------------------------------------------------------


def reach(body, starts, removed=frozenset(), stop_blocks=frozenset()):
    """blocks reachable from `starts` (block indices) without crossing an edge in `removed`
    (edges are (bi, label); label None matches the single plain out-edge) and without leaving a block in
    stop_blocks (the stop block itself is reachable, its successors are not)."""
    seen = set()
    st = []
    for s in starts:
        if s not in seen:
            seen.add(s)
            st.append(s)
    while st:
        x = st.pop()
        if x in stop_blocks:
            continue
        for lab, tb in body.succ_edges(x):
            if (x, lab) in removed:
                continue
            if body.blocks[tb]["cleanup"]:
                continue
            if tb not in seen:
                seen.add(tb)
                st.append(tb)
    return seen


def reach_from_edges(body, edges, removed=frozenset(), stop_blocks=frozenset()):
    starts = [edge_target(body, e) for e in edges]
    return reach(body, starts, removed, stop_blocks)


def edge_target(body, edge):
    bi, lab = edge
    for l, tb in body.succ_edges(bi):
        if l == lab:
            return tb
    raise KeyError(edge)


def must_pass(body, targets, edges, start=0, start_edges=None):
    """True iff every normal path from `start` (or from the given start edges) to any block in `targets`
    crosses one of `edges`.  (Delete the edges; the targets must become unreachable.)"""
    edges = frozenset(edges)
    if start_edges is not None:
        r = reach_from_edges(body, [e for e in start_edges if e not in edges], edges)
    else:
        r = reach(body, [start], edges)
    return not any(t in r for t in targets)


def return_blocks(body):
    return [bi for bi in body.live_blocks() if body.blocks[bi]["term"]["k"] == "return"]


def back_edges(body):
    """set of (bi,label) edges that close a cycle in a DFS from entry"""
    color = {}
    out = set()
    stack = [(0, iter(body.succ_edges(0)))]
    color[0] = 1
    while stack:
        x, it = stack[-1]
        adv = False
        for lab, tb in it:
            if body.blocks[tb]["cleanup"]:
                continue
            c = color.get(tb, 0)
            if c == 0:
                color[tb] = 1
                stack.append((tb, iter(body.succ_edges(tb))))
                adv = True
                break
            elif c == 1:
                out.add((x, lab))
        if not adv:
            color[x] = 2
            stack.pop()
    return out


def dominators(body):
    """block -> set of dominating blocks (simple iterative; bodies are small)"""
    live = [b for b in body.live_blocks()]
    r = reach(body, [0])
    live = [b for b in live if b in r]
    preds = body.preds()
    dom = {b: set(live) for b in live}
    dom[0] = {0}
    changed = True
    order = live
    while changed:
        changed = False
        for b in order:
            if b == 0:
                continue
            ps = [p for p, _ in preds.get(b, []) if p in dom]
            if not ps:
                continue
            new = set.intersection(*[dom[p] for p in ps]) | {b}
            if new != dom[b]:
                dom[b] = new
                changed = True
    return dom


# ------------------------------------------------------------------------------------------------
# projections
# ------------------------------------------------------------------------------------------------

def norm_proj(proj):
    out = []
    for e in proj:
        if e == "*":
            continue
        if isinstance(e, dict):
            if "f" in e:
                out.append(("f", e["f"], e.get("n", ""), e.get("a", "")))
            elif "dc" in e:
                out.append(("dc", e["n"]))
            elif "idx" in e:
                out.append(("idx",))
            elif "cidx" in e:
                out.append(("cidx", e["cidx"]))
            else:
                out.append(("x",))
        else:
            out.append(("x",))
    return tuple(out)


def fields_only(p):
    return tuple(e for e in p if e[0] != "dc")


def proj_names(p):
    return [e[2] for e in p if e[0] == "f"]


def proj_fields(p):
    """[(owning ADT short name, field name)] of the field projections"""
    return [(e[3].rsplit("::", 1)[-1] if len(e) > 3 else "", e[2]) for e in p if e[0] == "f"]


# ------------------------------------------------------------------------------------------------
# call classification
# ------------------------------------------------------------------------------------------------

# callees through which a *value's outcome* is followed (forward) and which SLICE⁻ looks through.
TRANSPARENT_SUFFIX = (
    "::ops::try_trait::Try::branch",
    "::ops::try_trait::FromResidual::from_residual",
    "::future::into_future::IntoFuture::into_future",
    "::future::future::Future::poll",
    "::pin::Pin::<Ptr>::new_unchecked",
    "::pin::Pin::<Ptr>::new",
    "::future::get_context",
    "::convert::Into::into",
    "::convert::From::from",
    "::clone::Clone::clone",
    "::borrow::ToOwned::to_owned",
    "::ops::deref::Deref::deref",
    "::ops::deref::DerefMut::deref_mut",
    "::convert::AsRef::as_ref",
    "::convert::AsMut::as_mut",
    "::borrow::Borrow::borrow",
)
TRANSPARENT_METHODS = (
    "core::result::Result::<T, E>::map_err",
    "core::result::Result::<T, E>::ok",
    "core::result::Result::<T, E>::as_ref",
    "core::result::Result::<T, E>::as_mut",
    "core::option::Option::<T>::ok_or",
    "core::option::Option::<T>::ok_or_else",
    "core::option::Option::<T>::as_ref",
    "core::option::Option::<T>::as_mut",
    "core::option::Option::<T>::as_deref",
    "core::option::Option::<T>::as_deref_mut",
    "core::option::Option::<T>::take",
    "core::option::Option::<T>::cloned",
    "core::option::Option::<&T>::cloned",
    "core::option::Option::<&T>::copied",
    "core::option::Option::<T>::copied",
    "core::result::Result::<T, E>::inspect_err",
    "core::option::Option::<core::result::Result<T, E>>::transpose",
    "core::result::Result::<core::option::Option<T>, E>::transpose",
    "alloc::string::String::as_str",
    "alloc::boxed::Box::<T>::new",
    "alloc::boxed::Box::<T>::pin",
)


# adapters whose Ok/Some payload is the Ok/Some payload of their first argument
PAYLOAD_PRESERVING = (
    "core::result::Result::<T, E>::map_err", "core::result::Result::<T, E>::ok", "core::option::Option::<T>::ok_or", "core::option::Option::<T>::ok_or_else",
    "core::result::Result::<T, E>::inspect_err", "core::option::Option::<&T>::cloned", "core::option::Option::<&T>::copied", "core::option::Option::<T>::cloned",
    "core::option::Option::<T>::copied", "core::option::Option::<T>::take", "core::option::Option::<T>::as_ref", "core::option::Option::<T>::as_mut",
    "core::result::Result::<T, E>::as_ref", "core::result::Result::<T, E>::as_mut",
)


# container operations: the element projection of the use is carried through to the element that was put in
CONTAINER_SHORT = ("push", "push_back", "push_front", "into_iter", "iter", "iter_mut", "next", "pop", "pop_front", "pop_back", "collect", "extend",
                   "drain", "cloned", "copied", "rev", "by_ref", "peekable", "flatten")
CONTAINER_PREFIX = ("alloc::vec::", "alloc::collections::", "core::iter::", "core::slice::", "smallvec::", "core::option::Option::<T>::take")


def is_container_op(t):
    d = callee_def(t)
    return d.rsplit("::", 1)[-1] in CONTAINER_SHORT and d.startswith(CONTAINER_PREFIX)


def _strip_elem(rest):
    """drop a leading `(as Some).0` element-extraction pair"""
    r = list(rest)
    if len(r) >= 2 and r[0][0] == "dc" and r[0][1] == "Some" and r[1][0] == "f" and r[1][1] == 0:
        return r[2:]
    return r


def is_transparent(t):
    d = callee_def(t)
    if not d:
        return False
    if d in TRANSPARENT_METHODS:
        return True
    for s in TRANSPARENT_SUFFIX:
        if d.endswith(s):
            return True
    return False


def first_arg_only(t):
    """transparent callees whose outcome depends on their first argument only"""
    return True


# ------------------------------------------------------------------------------------------------
# forward: outcome edges of a value
# ------------------------------------------------------------------------------------------------

class Outcomes:
    """switch edges that test (a transparent image of) a value; by variant name / boolean.
    edges[name] = set of (bi,label). For booleans names are 'true'/'false'."""

    def __init__(self):
        self.edges = collections.defaultdict(set)
        self.switches = []
        self.carriers = {}

    def get(self, *names):
        out = set()
        for n in names:
            out |= self.edges.get(n, set())
        return out


def _transparent_field(p):
    """projection that keeps 'the same value' for outcome purposes: derefs, downcasts, field 0 of a downcast
    (Continue.0 / Ready.0 / Some.0 / Ok.0)"""
    np = norm_proj(p)
    i = 0
    while i < len(np):
        if np[i][0] == "dc":
            if i + 1 < len(np) and np[i + 1][0] == "f" and np[i + 1][1] == 0:
                i += 2
                continue
            i += 1
            continue
        return False
    return True


def outcomes_of_local(body, local, extra_transparent=None, max_iter=50):
    """Forward, flow-insensitive: follow `local` through moves/refs/transparent calls/`Not` to every switch
    that tests it.  Returns Outcomes."""
    car = {local: True}  # local -> polarity (False = negated)
    tup_car = {}         # (tuple local, field index) -> polarity
    discr_of = {}  # discriminant-holding local -> (variants list, polarity ignored)
    changed = True
    it = 0
    while changed and it < max_iter:
        changed = False
        it += 1
        for bi, si, st in body.stmts():
            dst = st["dst"]
            if dst["proj"]:
                continue
            rv = st["rv"]
            k = rv["k"]
            dl = dst["l"]
            if k in ("use", "ref", "cast", "rawptr"):
                o = rv["ops"][0]
                if "p" in o and o["p"]["l"] in car and _transparent_field(o["p"]["proj"]):
                    if dl not in car:
                        car[dl] = car[o["p"]["l"]]
                        changed = True
                elif "p" in o:
                    # the value read back out of a field of an intermediate struct / tuple (`Outcome { credentials, .. }` destructured), or
                    # the whole intermediate value moved on
                    pr = [e for e in o["p"]["proj"] if e != "*"]
                    if pr and isinstance(pr[0], dict) and "f" in pr[0] and (o["p"]["l"], pr[0]["f"]) in tup_car and _transparent_field(pr[1:]):
                        if dl not in car:
                            car[dl] = tup_car[(o["p"]["l"], pr[0]["f"])]
                            changed = True
                    elif not pr:
                        for (tl, ti), pol_ in list(tup_car.items()):
                            if tl == o["p"]["l"] and (dl, ti) not in tup_car:
                                tup_car[(dl, ti)] = pol_
                                changed = True
            elif k == "un" and rv.get("op") == "Not":
                o = rv["ops"][0]
                if "p" in o and o["p"]["l"] in car and not o["p"]["proj"]:
                    if dl not in car:
                        car[dl] = not car[o["p"]["l"]]
                        changed = True
            elif k == "agg" and rv.get("adt") == "core::task::poll::Poll" and rv.get("variant") == "Ready" and rv["ops"]:
                # `Poll::Ready(value)`: the wrapper an inlined `async fn` hands its result back in
                o = rv["ops"][0]
                if "p" in o and o["p"]["l"] in car and not o["p"]["proj"]:
                    if dl not in car:
                        car[dl] = car[o["p"]["l"]]
                        changed = True
            elif k == "agg" and rv.get("agg") in ("tuple", "adt") and not rv.get("variant", "") in ("Some", "Ok", "Err", "None", "Ready", "Continue", "Break"):
                # `match (a, b) { .. }`: the tuple's fields carry their operands
                for i, o in enumerate(rv["ops"]):
                    if isinstance(o, dict) and "p" in o and o["p"]["l"] in car and not o["p"]["proj"] and (dl, i) not in tup_car:
                        tup_car[(dl, i)] = car[o["p"]["l"]]
                        changed = True
            elif k == "discr":
                o = rv["ops"][0]
                if o["p"]["l"] in car and _transparent_field(o["p"]["proj"]):
                    if dl not in discr_of:
                        discr_of[dl] = rv["variants"]
                        changed = True
                else:
                    # discriminant of a tuple field that carries the value
                    pr = [e for e in o["p"]["proj"] if e != "*"]
                    if pr and isinstance(pr[0], dict) and "f" in pr[0] and (o["p"]["l"], pr[0]["f"]) in tup_car and _transparent_field(pr[1:]):
                        if dl not in discr_of:
                            discr_of[dl] = rv["variants"]
                            changed = True
        for bi, t in body.calls():
            if t["dst"]["proj"]:
                continue
            dl = t["dst"]["l"]
            if dl in car:
                continue
            if is_transparent(t) or (extra_transparent and extra_transparent(t)):
                a = t["args"][0] if t["args"] else None
                if a and "p" in a and a["p"]["l"] in car and _transparent_field(a["p"]["proj"]):
                    car[dl] = car[a["p"]["l"]]
                    changed = True
            elif callee_def(t) == "core::ops::bit::Not::not":
                a = t["args"][0]
                if "p" in a and a["p"]["l"] in car and not fields_only(norm_proj(a["p"]["proj"])):
                    car[dl] = not car[a["p"]["l"]]
                    changed = True
    out = Outcomes()
    out.carriers = car
    for bi in body.live_blocks():
        t = body.blocks[bi]["term"]
        if t["k"] != "switch":
            continue
        d = t["discr"]
        if "p" not in d:
            continue
        if d["p"]["proj"]:
            pr = [e for e in d["p"]["proj"] if e != "*"]
            if len(pr) == 1 and isinstance(pr[0], dict) and "f" in pr[0] and (d["p"]["l"], pr[0]["f"]) in tup_car:
                pol = tup_car[(d["p"]["l"], pr[0]["f"])]
                for v, tb in t["targets"]:
                    name = "false" if (v == "0") == pol else "true"
                    out.edges[name].add((bi, v))
                if all(v == "0" for v, _ in t["targets"]):
                    out.edges["true" if pol else "false"].add((bi, "otherwise"))
                elif all(v == "1" for v, _ in t["targets"]):
                    out.edges["false" if pol else "true"].add((bi, "otherwise"))
                out.switches.append(bi)
            continue
        l = d["p"]["l"]
        if l in discr_of:
            variants = discr_of[l]
            names = {v: n for v, n in variants}
            used = set()
            for v, tb in t["targets"]:
                n = names.get(v, v)
                used.add(v)
                out.edges[n].add((bi, v))
            ob = body.blocks[t["otherwise"]]
            if ob["term"]["k"] != "unreachable" or ob["stmts"]:
                for v, n in variants:
                    if v not in used:
                        out.edges[n].add((bi, "otherwise"))
            out.switches.append(bi)
        elif l in car and body.locals[l] == "bool":
            pol = car[l]
            for v, tb in t["targets"]:
                # value 0 == false
                name = "false" if (v == "0") == pol else "true"
                out.edges[name].add((bi, v))
            name = "true" if pol else "false"
            # otherwise = non-zero = true (when targets list only 0)
            if all(v == "0" for v, _ in t["targets"]):
                out.edges[name].add((bi, "otherwise"))
            out.switches.append(bi)
    return out


def outcomes_of_call(body, bi, extra_transparent=None):
    t = body.blocks[bi]["term"]
    assert t["k"] == "call"
    if t["dst"]["proj"]:
        return Outcomes()
    return outcomes_of_local(body, t["dst"]["l"], extra_transparent)


# ------------------------------------------------------------------------------------------------
# backward slice
# ------------------------------------------------------------------------------------------------

class Slice:
    def __init__(self):
        self.calls = []      # (bi, term, rest_proj)
        self.consts = []     # const operand dicts
        self.params = []     # (local, proj)
        self.locals = set()  # every local visited
        self.aggs = []       # (bi, rv) aggregates met
        self.places = set()  # (local, tuple of field names) for every place visited
        self.fields = set()  # (owning ADT short name, field name) of every field projection visited
        self.fields_full = set()  # (owning ADT full path, field name)

    def call_defs(self):
        return [callee_def(t) for _, t, _ in self.calls]

    def has_call(self, pred):
        return any(pred(callee_def(t), t) for _, t, _ in self.calls)

    def find_calls(self, pred):
        return [(bi, t, r) for bi, t, r in self.calls if pred(callee_def(t), t)]


def op_place(o):
    return o.get("p") if isinstance(o, dict) else None


def _reach_cache(body):
    c = getattr(body, "_reach", None)
    if c is None:
        c = {}
        body._reach = c
    return c


def can_reach(body, d, u):
    """can control flow from block d to block u (d == u counts)?"""
    if d == u:
        return True
    c = _reach_cache(body)
    r = c.get(d)
    if r is None:
        r = reach(body, [d])
        c[d] = r
    return u in r


def backward(body, op, proj=(), stop=None, through_calls=True, max_nodes=20000, at=None):
    """SLICE⁻ of operand `op` (a MIR operand dict, or {'p': place}).  `stop(term)` -> True makes a call a leaf
    (it is recorded, its arguments are not followed).  through_calls=False makes every non-transparent call a leaf.
    A definition is followed only if its block can reach the block of the use (`at` = block of the initial use, optional)."""
    defs = body.defs()
    res = Slice()
    seen = set()
    work = []

    def push_op(o, rest, ub):
        if not isinstance(o, dict):
            return
        if "c" in o:
            res.consts.append(o)
            return
        p = o.get("p")
        if p is None:
            return
        work.append((p["l"], norm_proj(p["proj"]) + tuple(rest), ub))
        for e in p["proj"]:
            if isinstance(e, dict) and "idx" in e:
                work.append((e["idx"], (), ub))

    push_op(op, proj, at)
    n = 0
    while work:
        l, pr, ub = work.pop()
        key = (l, fields_only(pr)[:2])
        if key in seen:
            continue
        seen.add(key)
        n += 1
        if n > max_nodes:
            break
        res.locals.add(l)
        res.places.add((l, tuple(proj_names(pr))))
        res.fields.update(proj_fields(pr))
        res.fields_full.update((e[3] if len(e) > 3 else "", e[2]) for e in pr if e[0] == "f")
        ds = defs.get(l, [])
        if 1 <= l <= body.argc:
            res.params.append((l, pr))
        for df in ds:
            if ub is not None and not can_reach(body, df["bi"], ub):
                continue
            dbi = df["bi"]
            dproj = fields_only(norm_proj(df.get("proj", [])))
            fp = fields_only(pr)
            rest = pr
            if dproj:
                m = min(len(dproj), len(fp))
                if tuple(e[:2] for e in dproj[:m]) != tuple(e[:2] for e in fp[:m]):
                    continue
                # drop the matched prefix (and any downcasts before it) from pr
                k = 0
                cnt = 0
                while k < len(pr) and cnt < m:
                    if pr[k][0] != "dc":
                        cnt += 1
                    k += 1
                rest = pr[k:] if len(fp) >= len(dproj) else ()
            if df["kind"] == "assign":
                rv = df["rv"]
                k = rv["k"]
                if k in ("use", "ref", "cast", "rawptr"):
                    push_op(rv["ops"][0], rest, dbi)
                elif k == "agg":
                    res.aggs.append((df["bi"], rv))
                    r = list(rest)
                    agg = rv.get("agg")
                    if agg in ("adt", "tuple", "closure", "coroutine"):
                        if r and r[0][0] == "dc":
                            want_v = r[0][1]
                            if agg == "adt" and (rv.get("variant") not in want_v if isinstance(want_v, tuple) else rv.get("variant") != want_v):
                                continue
                            r = r[1:]
                        if r and r[0][0] == "f" and r[0][1] < len(rv["ops"]):
                            push_op(rv["ops"][r[0][1]], r[1:], dbi)
                        else:
                            for o in rv["ops"]:
                                push_op(o, (), dbi)
                    else:
                        for o in rv["ops"]:
                            push_op(o, (), dbi)
                else:
                    for o in rv["ops"]:
                        push_op(o, (), dbi)
            elif df["kind"] == "call":
                t = df["term"]
                if is_transparent(t):
                    r = list(rest)
                    d = callee_def(t)
                    lead = r[0][1] if len(r) >= 2 and r[0][0] == "dc" and r[1][0] == "f" and r[1][1] == 0 else None
                    if d.endswith("FromResidual::from_residual") and (isinstance(lead, tuple) or lead in ("Ok", "Some")):
                        continue        # a residual carries the failure: it contributes nothing to the success payload
                    if d.endswith("Try::branch") and lead == "Continue":
                        # `x?`: the Continue payload is the Ok / Some payload of x - keep asking for that payload (field-sensitive through `?`)
                        r = [("dc", ("Ok", "Some")), r[1]] + r[2:]
                    elif lead in ("Continue", "Ready", "Break"):
                        # strip a leading (dc X).0 pair: Ready.0 / Break.0 of the adapter's result
                        r = r[2:]
                    if d.endswith("Future::poll") or d.endswith("Try::branch") or d.endswith("into_future") or d.endswith("new_unchecked"):
                        if t["args"]:
                            push_op(t["args"][0], r, dbi)
                    elif d in PAYLOAD_PRESERVING and t["args"]:
                        # Option/Result adapters that hand the success payload on unchanged: the projection stays on the first argument
                        push_op(t["args"][0], r if lead is None or isinstance(lead, tuple) or lead in ("Ok", "Some") else (), dbi)
                        for a in t["args"][1:]:
                            push_op(a, (), dbi)
                    else:
                        for a in t["args"]:
                            push_op(a, (), dbi)
                else:
                    res.calls.append((df["bi"], t, rest))
                    if stop and stop(t):
                        continue
                    if not through_calls:
                        continue
                    carry = tuple(_strip_elem(rest)) if is_container_op(t) else ()
                    for a in t["args"]:
                        push_op(a, carry, dbi)
            elif df["kind"] == "mutarg":
                t = df["term"]
                if is_transparent(t):
                    continue
                res.calls.append((df["bi"], t, ("mut",)))
                if stop and stop(t):
                    continue
                if not through_calls:
                    continue
                carry = tuple(rest) if is_container_op(t) else ()
                for a in t["args"]:
                    p = op_place(a)
                    if p is not None and p["l"] == l:
                        continue
                    if carry and l in body._mut_targets(a, 0):
                        continue
                    push_op(a, carry, dbi)
    return res


def const_of(body, op, depth=0):
    """constant operand reached through single-def use/ref/cast chains, else None"""
    if not isinstance(op, dict):
        return None
    if "c" in op:
        return op
    if depth > 8:
        return None
    p = op.get("p")
    if p is None:
        return None
    ds = [d for d in body.defs().get(p["l"], []) if d["kind"] != "mutarg"]
    if len(ds) != 1 or ds[0]["kind"] != "assign":
        return None
    rv = ds[0]["rv"]
    if rv["k"] in ("use", "ref", "cast") and not fields_only(norm_proj(p["proj"])):
        return const_of(body, rv["ops"][0], depth + 1)
    if rv["k"] == "agg" and rv.get("agg") == "array":
        return {"c": "array", "items": [const_of(body, o, depth + 1) for o in rv["ops"]]}
    return None


def single_def(body, local):
    ds = [d for d in body.defs().get(local, []) if d["kind"] != "mutarg"]
    return ds[0] if len(ds) == 1 else None


def resolve_agg(body, op, depth=0):
    """the enum / struct literal an operand holds, looking through copies, references and the fields of closure / coroutine environments and
    tuples built in the same body (an inlined `async fn` receives its arguments in such an environment); None if it is not a literal"""
    p = op_place(op)
    if p is None or depth > 14:
        return None
    pr = [e for e in p["proj"] if e != "*"]
    df = single_def(body, p["l"])
    if df is None or df["kind"] != "assign" or df.get("proj"):
        return None
    rv = df["rv"]
    if not pr:
        if rv["k"] == "agg" and rv.get("agg") == "adt":
            return rv
        if rv["k"] in ("use", "ref", "cast") and rv.get("ops"):
            return resolve_agg(body, rv["ops"][0], depth + 1)
        return None
    if isinstance(pr[0], dict) and "f" in pr[0] and rv["k"] == "agg" and rv.get("agg") in ("closure", "coroutine", "tuple") and pr[0]["f"] < len(rv["ops"]):
        o = rv["ops"][pr[0]["f"]]
        q = op_place(o)
        if q is None:
            return None
        return resolve_agg(body, {"p": {"l": q["l"], "proj": list(q["proj"]) + pr[1:]}}, depth + 1)
    if rv["k"] in ("use", "ref") and rv.get("ops") and op_place(rv["ops"][0]) is not None:
        q = op_place(rv["ops"][0])
        return resolve_agg(body, {"p": {"l": q["l"], "proj": list(q["proj"]) + pr}}, depth + 1)
    return None


def resolve_place(body, op, depth=0):
    """follow single-def use/ref/cast/transparent-call chains back to the originating place operand.
    returns (local, normproj) of the root place."""
    ch = resolve_chain(body, op, depth)
    return ch[-1] if ch else None


def resolve_chain(body, op, depth=0):
    """like resolve_place but returns every (local, normproj) met on the way (first = the operand itself)"""
    p = op_place(op)
    if p is None:
        return None
    l, pr = p["l"], norm_proj(p["proj"])
    chain = [(l, pr)]
    while depth < 30:
        depth += 1
        df = single_def(body, l)
        if df is None or df.get("proj"):
            break
        if df["kind"] == "assign" and df["rv"]["k"] in ("use", "ref", "cast"):
            o = df["rv"]["ops"][0]
            q = op_place(o)
            if q is None:
                break
            l, pr = q["l"], norm_proj(q["proj"]) + pr
            chain.append((l, pr))
            continue
        if df["kind"] == "call" and is_transparent(df["term"]) and df["term"]["args"]:
            q = op_place(df["term"]["args"][0])
            if q is None:
                break
            r = list(pr)
            if len(r) >= 2 and r[0][0] == "dc" and r[1][0] == "f" and r[1][1] == 0:
                r = r[2:]
            l, pr = q["l"], norm_proj(q["proj"]) + tuple(r)
            chain.append((l, pr))
            continue
        break
    return chain


# ------------------------------------------------------------------------------------------------
# forward taint
# ------------------------------------------------------------------------------------------------

def forward(body, start_locals, declassify=None, max_iter=100, start_upvars=()):
    """TAINT⁺: locals reachable by data flow from start_locals.  declassify(term) -> True stops propagation
    through that call (its result / &mut args are not tainted by it).  Returns (tainted set, list of (bi, term,
    [tainted arg indices]))."""
    body.defs()
    T = set(start_locals)
    # captured upvars: operands reading `_1.<idx>` (closure / coroutine environment) start the taint
    if start_upvars:
        for bi, si, st in body.stmts():
            for o in st["rv"]["ops"]:
                p = op_place(o)
                if p is not None and p["l"] == 1:
                    f = [e for e in p["proj"] if isinstance(e, dict) and "f" in e]
                    if f and f[0]["f"] in start_upvars:
                        T.add(st["dst"]["l"])
        for bi, t in body.calls():
            for a in t["args"]:
                p = op_place(a)
                if p is not None and p["l"] == 1:
                    f = [e for e in p["proj"] if isinstance(e, dict) and "f" in e]
                    if f and f[0]["f"] in start_upvars:
                        T.add(("upvar-arg", bi))
    changed = True
    it = 0
    calls = {}
    while changed and it < max_iter:
        it += 1
        changed = False
        for bi, si, st in body.stmts():
            dl = st["dst"]["l"]
            if dl in T:
                continue
            for o in st["rv"]["ops"]:
                p = op_place(o)
                if p is not None and (p["l"] in T or any(isinstance(e, dict) and e.get("idx") in T for e in p["proj"])):
                    T.add(dl)
                    changed = True
                    break
        for bi, t in body.calls():
            idx = [i for i, a in enumerate(t["args"]) if op_place(a) is not None and op_place(a)["l"] in T]
            if ("upvar-arg", bi) in T and not idx:
                idx = [i for i, a in enumerate(t["args"]) if op_place(a) is not None and op_place(a)["l"] == 1]
            if not idx:
                continue
            calls[bi] = (bi, t, idx)
            if declassify and declassify(t):
                continue
            dl = t["dst"]["l"]
            if dl not in T:
                T.add(dl)
                changed = True
            for a in t["args"]:
                for tgt in body._mut_targets(a, 0):
                    if tgt not in T:
                        T.add(tgt)
                        changed = True
    return T, list(calls.values())


# ------------------------------------------------------------------------------------------------
# return-value writes
# ------------------------------------------------------------------------------------------------

def _value_sources(body, op, via, depth, seen):
    """leaf definitions of the value read by `op`: Result/Option aggregates and call results; None when something else defines it"""
    p = op_place(op)
    if p is None or depth > 8:
        return None
    proj = [e for e in p["proj"] if e != "*"]
    ready = False
    if proj:
        if len(proj) == 2 and isinstance(proj[0], dict) and proj[0].get("n") == "Ready" and isinstance(proj[1], dict) and proj[1].get("f") == 0:
            ready = True
        else:
            return None
    key = (p["l"], ready)
    if key in seen:
        return []
    seen.add(key)
    ds = [d for d in body.defs().get(p["l"], []) if d["kind"] != "mutarg"]
    if not ds or any(d.get("proj") for d in ds):
        return None
    out = []
    for d in ds:
        if d["kind"] == "assign":
            rv = d["rv"]
            if ready:
                if rv["k"] == "agg" and rv.get("adt") == "core::task::poll::Poll" and rv.get("variant") == "Ready" and rv["ops"]:
                    r = _value_sources(body, rv["ops"][0], via, depth + 1, seen)
                elif rv["k"] == "use":
                    q = op_place(rv["ops"][0])
                    r = _value_sources(body, {"p": {"l": q["l"], "proj": list(q["proj"]) + list(p["proj"])}}, via, depth + 1, seen) if q is not None else None
                else:
                    # the poll of a future that was not inlined
                    return None
                if r is None:
                    return None
                out += r
            elif rv["k"] == "agg" and rv.get("adt") in ("core::result::Result", "core::option::Option"):
                out.append({"bi": d["bi"], "kind": rv["variant"], "rv": rv, "via": via})
            elif rv["k"] == "use":
                r = _value_sources(body, rv["ops"][0], via, depth + 1, seen)
                if r is None:
                    return None
                out += r
            else:
                return None
        elif d["kind"] == "call":
            if ready:
                return None
            dd = callee_def(d["term"])
            out.append({"bi": d["bi"], "kind": "residual" if dd.endswith("FromResidual::from_residual") else "call", "term": d["term"], "via": via})
        else:
            return None
    return out


def return_writes(body, _depth=0):
    """every write to the return place on the normal path: list of dicts
    {'bi','kind': 'Ok'|'Err'|'Some'|'None'|'call'|'use'|'other', 'rv'|'term', 'via_residual': bool}"""
    out = []
    for bi in body.live_blocks():
        b = body.blocks[bi]
        for st in b["stmts"]:
            if st["dst"]["l"] == 0 and not st["dst"]["proj"]:
                rv = st["rv"]
                if rv["k"] == "agg" and rv.get("agg") == "adt" and rv.get("adt") in ("core::result::Result", "core::option::Option"):
                    out.append({"bi": bi, "kind": rv["variant"], "rv": rv})
                elif rv["k"] == "use":
                    # `_0 = move _x` where _x is only ever assigned Ok/Err/Some/None literals or call results (possibly through further copies
                    # and through the `Poll::Ready(..)` wrapper of an inlined `async fn`): those assignments are the writes
                    expanded = _value_sources(body, rv["ops"][0], bi, 0, set()) if _depth < 3 else None
                    if expanded and any("rv" in e for e in expanded):
                        out += expanded
                    else:
                        out.append({"bi": bi, "kind": "use", "rv": rv})
                else:
                    out.append({"bi": bi, "kind": "other", "rv": rv})
        t = b["term"]
        if t["k"] == "call" and t["dst"]["l"] == 0 and not t["dst"]["proj"]:
            d = callee_def(t)
            out.append({"bi": bi, "kind": "residual" if d.endswith("FromResidual::from_residual") else "call", "term": t})
    return out


def is_none_literal(body, op):
    """operand is (a move of) the literal Option::None"""
    c = op
    for _ in range(6):
        p = op_place(c)
        if p is None:
            return False
        df = single_def(body, p["l"])
        if df is None or df["kind"] != "assign":
            return False
        rv = df["rv"]
        if rv["k"] == "agg" and rv.get("adt") == "core::option::Option":
            return rv["variant"] == "None"
        if rv["k"] == "use":
            c = rv["ops"][0]
            continue
        return False
    return False


WELL_KNOWN_INT_CONSTS = {}
for _ty, _bits, _signed in (("i8", 8, True), ("i16", 16, True), ("i32", 32, True), ("i64", 64, True), ("isize", 64, True), ("i128", 128, True),
                            ("u8", 8, False), ("u16", 16, False), ("u32", 32, False), ("u64", 64, False), ("usize", 64, False), ("u128", 128, False)):
    WELL_KNOWN_INT_CONSTS["core::num::<impl %s>::MAX" % _ty] = (1 << (_bits - 1)) - 1 if _signed else (1 << _bits) - 1
    WELL_KNOWN_INT_CONSTS["core::num::<impl %s>::MIN" % _ty] = -(1 << (_bits - 1)) if _signed else 0


CONST_BODIES = [None]      # set by facts.load_db: name -> Body of a `const` item


def const_int_eval(body, op, depth=0):
    """evaluate a compile-time integer expression (literals combined with + - * through checked-arithmetic temporaries)"""
    if not isinstance(op, dict) or depth > 12:
        return None
    if op.get("c") == "int":
        return int(op["v"])
    if op.get("c") == "item":
        v = WELL_KNOWN_INT_CONSTS.get(op["def"])
        if v is None and CONST_BODIES[0] is not None:
            # a named constant of the workspace (`const MAX_POSITION: u64 = i64::MAX as u64;`): evaluate its initialiser
            cb = CONST_BODIES[0](op["def"])
            if cb is not None and cb is not body and depth < 8:
                v = const_int_eval(cb, {"p": {"l": 0, "proj": []}}, depth + 1)
        return v
    p = op_place(op)
    if p is None:
        return None
    df = single_def(body, p["l"])
    if df is None or df["kind"] != "assign":
        return None
    rv = df["rv"]
    np = fields_only(norm_proj(p["proj"]))
    if rv["k"] in ("use", "cast") and not np:
        return const_int_eval(body, rv["ops"][0], depth + 1)
    if rv["k"] == "bin":
        a = const_int_eval(body, rv["ops"][0], depth + 1)
        b = const_int_eval(body, rv["ops"][1], depth + 1)
        if a is None or b is None:
            return None
        op_ = rv["op"].replace("WithOverflow", "").replace("Unchecked", "")
        if op_ == "Mul":
            return a * b
        if op_ == "Add":
            return a + b
        if op_ == "Sub":
            return a - b
    return None


def slice_literals(db, body, sl):
    """string literals in a slice, including those inside the bodies of closures the slice passes through (depth 1)"""
    lits = {c["v"] for c in sl.consts if c.get("c") in ("str", "bstr")}
    for bi, rv in sl.aggs:
        if rv.get("agg") == "closure":
            cb = db.body(rv.get("def", ""))
            if cb is not None:
                for bl in cb.blocks:
                    if bl["cleanup"]:
                        continue
                    for st in bl["stmts"]:
                        for o in st["rv"]["ops"]:
                            if isinstance(o, dict) and o.get("c") in ("str", "bstr"):
                                lits.add(o["v"])
                    t = bl["term"]
                    if t["k"] == "call":
                        for a in t["args"]:
                            c = const_of(cb, a)
                            if c is not None and c.get("c") in ("str", "bstr"):
                                lits.add(c["v"])
    return lits
