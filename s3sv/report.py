"""Instance bookkeeping, known findings, VIOLATION lines, evidence files."""
import json
import os
import sys
import time

VERIF = os.path.dirname(os.path.dirname(os.path.abspath(__file__)))
KNOWN = os.path.join(VERIF, "known_findings.json")


class AnchorMissing(Exception):
    pass


class Check:
    def __init__(self, pid, tier, level, explanation, not_decided=(), assumptions=()):
        self.pid = pid
        self.tier = tier
        self.level = level
        self.explanation = explanation
        self.not_decided = list(not_decided)
        self.assumptions = list(assumptions)
        self.t0 = time.time()
        self.inst = []          # dicts: rule,key,ok,loc,detail,nontrivial
        self.rules = {}         # rule -> description
        self.floors = {}        # rule -> (seen, floor)
        self.samples = []
        self.advisories = []
        self.extra = {}
        self.stats = {}

    # ---- recording -----------------------------------------------------------------------------
    def rule(self, rid, text):
        self.rules[rid] = text

    def ok(self, rule, key, loc="", detail=None, nontrivial=True):
        self.inst.append({"rule": rule, "key": "%s.%s:%s" % (self.pid, rule, key), "ok": True, "loc": loc,
                          "detail": detail, "nontrivial": nontrivial})

    def fail(self, rule, key, loc, what, witness=None):
        self.inst.append({"rule": rule, "key": "%s.%s:%s" % (self.pid, rule, key), "ok": False, "loc": loc,
                          "detail": what, "witness": witness, "nontrivial": True})

    def verdict(self, cond, rule, key, loc, what_if_fail, detail=None, witness=None, nontrivial=True):
        if cond:
            self.ok(rule, key, loc, detail, nontrivial)
        else:
            self.fail(rule, key, loc, what_if_fail, witness)
        return cond

    def anchor_missing(self, rule, what, loc=""):
        self.inst.append({"rule": rule, "key": "%s.%s:ANCHOR-MISSING:%s" % (self.pid, rule, what[:80]), "ok": False,
                          "loc": loc, "detail": "ANCHOR-MISSING: " + what, "nontrivial": True})

    def floor(self, rule, seen, floor, what):
        self.floors[rule] = {"seen": seen, "floor": floor, "what": what}
        if seen < floor:
            self.anchor_missing(rule, "%s: saw %d instances, floor %d" % (what, seen, floor))

    def sample(self, obj):
        if len(self.samples) < 12:
            self.samples.append(obj)

    def advisory(self, text):
        self.advisories.append(text)

    def guard(self, rule, fn, *a, **kw):
        """run a rule; an unexpected engine failure is an ANCHOR-MISSING (fail closed), never a silent pass"""
        try:
            return fn(self, *a, **kw)
        except AnchorMissing as e:
            self.anchor_missing(rule, str(e))
        except Exception as e:  # engine could not understand the construct
            import traceback
            tb = traceback.format_exc().strip().splitlines()
            self.anchor_missing(rule, "engine error %s: %s @ %s" % (type(e).__name__, e, tb[-3].strip() if len(tb) >= 3 else ""))

    # ---- finishing -----------------------------------------------------------------------------
    def finish(self, db=None):
        known = load_known()
        open_keys = {k["key"]: k for k in known if k.get("property") == self.pid and k.get("status") == "open"}
        failing = [i for i in self.inst if not i["ok"]]
        viol = []
        kf = []
        seen_keys = set()
        for i in failing:
            if i["key"] in seen_keys:
                continue
            seen_keys.add(i["key"])
            if i["key"] in open_keys:
                kf.append(i)
            else:
                viol.append(i)
        for i in kf:
            print("KNOWN-FINDING: property=%s %s -- %s [%s]" % (self.pid, i["key"], open_keys[i["key"]].get("what", i["detail"]), i["loc"]))
        stale = [k for k in open_keys if k not in seen_keys]
        for k in stale:
            print("note: known finding %s no longer fires on this tree" % k)
        rdir = os.path.join(VERIF, "replays")
        os.makedirs(rdir, exist_ok=True)
        for n, i in enumerate(viol):
            path = os.path.join(rdir, "%s-%d.json" % (self.pid, n))
            with open(path, "w") as fh:
                json.dump({"property": self.pid, "rule": i["rule"], "key": i["key"], "loc": i["loc"], "what": i["detail"],
                           "witness": i.get("witness")}, fh, indent=1, default=str)
            print("  %s at %s: %s" % (i["key"], i["loc"], i["detail"]))
            print("VIOLATION property=%s replay=%s" % (self.pid, path))
        wall = time.time() - self.t0
        per_rule = {}
        for i in self.inst:
            r = per_rule.setdefault(i["rule"], {"instances": 0, "failing": 0})
            r["instances"] += 1
            if not i["ok"]:
                r["failing"] += 1
        for r, d in per_rule.items():
            d["text"] = self.rules.get(r, "")
        evaluations = len(self.inst)
        distinct = len({i["key"] for i in self.inst if i.get("nontrivial")})
        cov = {
            "explanation": self.explanation,
            "evaluations": max(evaluations, 1),
            "distinct_nontrivial": distinct,
            "rule": "instances are enumerated from the compiled program (MIR facts of /repo's working tree) by role; "
                    "one instance = one (rule, keyed construct); non-trivial = the verdict needed a path, slice or table query",
            "samples": self.samples or [i for i in self.inst[:5]],
            "exhaustive": True,
            "rules": per_rule,
            "floors": self.floors,
            "not_decided": self.not_decided,
            "known_findings_firing": [i["key"] for i in kf],
            "advisories": self.advisories,
            "violating_instances": [i["key"] for i in viol],
        }
        if db is not None:
            cov["bodies_loaded"] = len(db.bodies)
            cov["crates"] = list(db.crates)
            cov["facts_dir"] = os.path.basename(db.dir or "")
        cov.update(self.stats)
        if self.level == "translation_validation":
            cov.setdefault("programs", max(1, self.stats.get("programs", 0)))
            cov.setdefault("disagreements_checked", evaluations)
        if self.level == "proof":
            cov["obligations"] = max(1, evaluations)
            cov["discharged"] = len([i for i in self.inst if i["ok"]]) + len(kf)
            cov["checker_cmd"] = "./check %s --tier %s" % (self.pid, self.tier)
            cov["trusted_base"] = list(self.assumptions)
        cov.update(self.extra)
        ev = {
            "property_id": self.pid,
            "tier": self.tier,
            "seed": int(os.environ.get("VERIF_SEED", "0") or 0),
            "level": self.level,
            "coverage": cov,
            "assumptions": self.assumptions,
            "wall_s": round(wall, 2),
            "violations": len(viol),
        }
        os.makedirs(os.path.join(VERIF, "evidence"), exist_ok=True)
        p = os.path.join(VERIF, "evidence", "%s.json" % self.pid)
        if os.environ.get("S3SV_NO_EVIDENCE"):
            p = os.path.join(VERIF, ".cache", "scratch-evidence-%s.json" % self.pid)
        tmp = p + ".tmp%d" % os.getpid()
        with open(tmp, "w") as fh:
            json.dump(ev, fh, indent=1, default=str)
        os.replace(tmp, p)
        print("%s %s: %d instances over %d rules, %d violations, %d known findings, %.1fs" % (
            self.pid, self.tier, evaluations, len(per_rule), len(viol), len(kf), wall))
        return 1 if viol else 0


class Sub:
    """view of a Check under which another property's rule runs as a prerequisite: rule ids are prefixed (`C14.R4`), instances can be
    filtered by key, floors and advisories of the borrowed rule are kept under the prefixed id"""

    def __init__(self, chk, prefix, only=None, rules=None):
        self._chk = chk
        self._prefix = prefix
        self._only = only
        self._rules = set(rules) if rules else None      # borrow only these rule ids of a function that decides several
        self.pid = chk.pid
        self.tier = chk.tier
        self.stats = {}
        self.extra = {}
        self.samples = []
        self.advisories = []
        self.inst = chk.inst

    def _r(self, rule):
        return "%s.%s" % (self._prefix, rule)

    def rule(self, rid, text):
        self._chk.rule(self._r(rid), "[prerequisite shared with %s] %s" % (self._prefix, text))

    def _wanted(self, rule):
        return self._rules is None or rule.split(".")[0] in self._rules

    def ok(self, rule, key, loc="", detail=None, nontrivial=True):
        if self._wanted(rule) and (self._only is None or self._only(key)):
            self._chk.ok(self._r(rule), key, loc, detail, nontrivial)

    def fail(self, rule, key, loc, what, witness=None):
        if self._wanted(rule) and (self._only is None or self._only(key)):
            self._chk.fail(self._r(rule), key, loc, what, witness)

    def verdict(self, cond, rule, key, loc, what_if_fail, detail=None, witness=None, nontrivial=True):
        if cond:
            self.ok(rule, key, loc, detail, nontrivial)
        else:
            self.fail(rule, key, loc, what_if_fail, witness)
        return cond

    def anchor_missing(self, rule, what, loc=""):
        if self._wanted(rule):
            self._chk.anchor_missing(self._r(rule), what, loc)

    def floor(self, rule, seen, floor, what):
        if self._only is None and self._wanted(rule):
            self._chk.floor(self._r(rule), seen, floor, what)

    def sample(self, obj):
        pass

    def advisory(self, text):
        pass

    def guard(self, rule, fn, *a, **kw):
        try:
            return fn(self, *a, **kw)
        except AnchorMissing as e:
            self.anchor_missing(rule, str(e))
        except Exception as e:
            import traceback
            tb = traceback.format_exc().strip().splitlines()
            self.anchor_missing(rule, "engine error %s: %s @ %s" % (type(e).__name__, e, tb[-3].strip() if len(tb) >= 3 else ""))


def load_known():
    if not os.path.exists(KNOWN):
        return []
    with open(KNOWN) as fh:
        return json.load(fh).get("findings", [])
