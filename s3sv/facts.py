"""Program database: loads the JSONL fact files emitted by drv/ and indexes them."""
import collections
import json
import os
import re
import time

from . import extract


_HDR = re.compile(r'^\{"fn":("(?:[^"\\\\]|\\\\.)*"),"kind":("(?:[^"\\\\]|\\\\.)*"),"coroutine":(true|false),"parent":("(?:[^"\\\\]|\\\\.)*")')


MOVE_ONLY = ("core::future::into_future::IntoFuture::into_future", "core::pin::Pin::<Ptr>::new_unchecked", "core::pin::Pin::<Ptr>::new",
             "core::future::get_context", "alloc::boxed::Box::<T>::pin", "alloc::boxed::Box::<T>::new")


class Body:
    """one MIR body; the JSON line is parsed lazily (most rules touch a handful of the ~7000 bodies)"""

    def __init__(self, text, crate):
        self.text = text
        m = _HDR.match(text)
        self.name = json.loads(m.group(1))
        self.kind = json.loads(m.group(2)).split(" ")[0]
        self.parent = json.loads(m.group(4))
        self.crate = crate
        self._raw = None
        self._defs = None
        self._dbg = None
        self._names = None
        self._preds = None
        self._mutref = None
        self._reach = None
        self.children = []

    @classmethod
    def from_raw(cls, raw, crate):
        """a Body built from an already parsed (e.g. inlined) fact record"""
        b = cls.__new__(cls)
        b.text = json.dumps(raw)
        b.name = raw["fn"]
        b.kind = raw["kind"].split(" ")[0]
        b.parent = raw["parent"]
        b.crate = crate
        b._raw = raw
        b._defs = None
        b._dbg = None
        b._names = None
        b._preds = None
        b._mutref = None
        b._reach = None
        b.children = []
        return b

    @property
    def raw(self):
        if self._raw is None:
            self._raw = json.loads(self.text)
        return self._raw

    @property
    def blocks(self):
        return self.raw["blocks"]

    @property
    def argc(self):
        return self.raw["argc"]

    @property
    def span(self):
        return self.raw["span"]

    @property
    def locals(self):
        return self.raw["locals"]

    # ---- misc accessors -------------------------------------------------------------------
    @property
    def file(self):
        return self.span["file"]

    @property
    def line(self):
        return self.span["line"]

    @property
    def impl_self(self):
        return self.raw.get("impl_self", "")

    @property
    def impl_trait(self):
        return self.raw.get("impl_trait", "")

    @property
    def derived(self):
        return self.raw.get("derived", False)

    def loc(self, bi=None):
        if bi is None:
            return "%s:%d" % (self.file, self.line)
        t = self.blocks[bi]["term"]
        sp = t.get("span")
        if sp:
            return "%s:%d" % (sp["file"], sp["line"])
        st = self.blocks[bi]["stmts"]
        if st:
            return "%s:%d" % (st[-1].get("file", self.file), st[-1]["line"])
        return "%s:%d" % (self.file, self.line)

    def local_name(self, l):
        if self._names is None:
            self._names = {}
            for n, p in self.raw["debug"]:
                if not p["proj"]:
                    self._names.setdefault(p["l"], n)
        return self._names.get(l)

    def debug_places(self):
        """list of (name, place) from var_debug_info (captured upvars appear as projections of _1)."""
        return self.raw["debug"]

    # ---- CFG ------------------------------------------------------------------------------
    def succ_edges(self, bi):
        """normal-path out-edges of block bi: list of (label, target). label None for plain edges,
        a string (switch value or 'otherwise') for switch edges."""
        t = self.blocks[bi]["term"]
        k = t["k"]
        if k in ("goto", "drop", "assert"):
            return [(None, t["t"])]
        if k == "yield":
            return [(None, t["t"])]
        if k == "call":
            return [(None, t["t"])] if t["t"] >= 0 else []
        if k == "switch":
            return [(v, tb) for v, tb in t["targets"]] + [("otherwise", t["otherwise"])]
        return []

    def live_blocks(self):
        return [i for i, b in enumerate(self.blocks) if not b["cleanup"]]

    def calls(self):
        """yield (bi, term) for every call terminator on the normal path"""
        for bi, b in enumerate(self.blocks):
            if b["cleanup"]:
                continue
            t = b["term"]
            if t["k"] == "call":
                yield bi, t

    def stmts(self):
        for bi, b in enumerate(self.blocks):
            if b["cleanup"]:
                continue
            for si, st in enumerate(b["stmts"]):
                yield bi, si, st

    # ---- def index ------------------------------------------------------------------------
    def defs(self):
        """local -> list of defs. A def is a dict:
        {'kind':'assign','rv':rv,'proj':dstproj,'bi':bi,'si':si} or {'kind':'call','term':t,'proj':dstproj,'bi':bi}
        or {'kind':'mutarg','term':t,'bi':bi} (local passed by &mut, or captured by &mut in a closure passed, to the call)."""
        if self._defs is not None:
            return self._defs
        d = collections.defaultdict(list)
        for bi, b in enumerate(self.blocks):
            if b["cleanup"]:
                continue
            for si, st in enumerate(b["stmts"]):
                d[st["dst"]["l"]].append({"kind": "assign", "rv": st["rv"], "proj": st["dst"]["proj"], "bi": bi, "si": si})
            t = b["term"]
            if t["k"] == "call":
                d[t["dst"]["l"]].append({"kind": "call", "term": t, "proj": t["dst"]["proj"], "bi": bi})
        self._defs = d
        # second pass: &mut arguments
        for bi, b in enumerate(self.blocks):
            if b["cleanup"]:
                continue
            t = b["term"]
            if t["k"] != "call":
                continue
            if t["callee"].get("def", "") in MOVE_ONLY:
                continue        # hands a future / closure on without running it: what it captured by &mut is not touched here
            for a in t["args"]:
                seen_t = set()
                for tgt, pj in self._mut_places(a, 0):
                    k = (tgt, json.dumps(pj))
                    if k in seen_t:
                        continue
                    seen_t.add(k)
                    d[tgt].append({"kind": "mutarg", "term": t, "bi": bi, "proj": pj})
        return d

    def _mut_places(self, op, depth):
        """places (local, proj list) that `op` (an argument) may mutably alias: &mut X.f, a copy of such a ref, a view obtained through
        deref_mut()/as_mut(), or a closure capturing &mut X"""
        if "p" not in op or depth > 12:
            return []
        l = op["p"]["l"]
        out = []
        ty = self.locals[l] if l < len(self.locals) else ""
        if ty.startswith("&mut ") and (op["p"]["proj"] == [] or op["p"]["proj"] == ["*"]):
            out.append((l, []))
        for df in self._defs.get(l, []):
            if df["kind"] == "call":
                d = df["term"]["callee"].get("def", "")
                if df["term"]["args"] and (d.endswith("::deref_mut") or d.endswith("::as_mut") or d.endswith("::as_mut_slice") or
                                           d.endswith("::borrow_mut") or d.endswith("::as_mut_str") or d.endswith("::as_mut_vec")):
                    out += self._mut_places(df["term"]["args"][0], depth + 1)
                continue
            if df["kind"] != "assign":
                continue
            rv = df["rv"]
            if rv["k"] == "ref" and rv.get("mut"):
                pl = rv["ops"][0]["p"]
                out.append((pl["l"], pl["proj"]))
                if "*" in pl["proj"]:
                    # reborrow `&mut *r` / `&mut (*r).f`: also whatever r itself refers to
                    for (l2, p2) in self._mut_places({"p": {"l": pl["l"], "proj": []}}, depth + 1):
                        if l2 != pl["l"]:
                            out.append((l2, p2 + [e for e in pl["proj"] if e != "*"]))
            elif rv["k"] in ("use", "cast"):
                out += self._mut_places(rv["ops"][0], depth + 1)
            elif rv["k"] == "agg" and rv.get("agg") in ("closure", "coroutine"):
                for o in rv["ops"]:
                    out += self._mut_places(o, depth + 1)
        return out

    def _mut_targets(self, op, depth):
        return [l for l, _ in self._mut_places(op, depth)]

    def preds(self):
        if self._preds is None:
            p = collections.defaultdict(list)
            for bi in self.live_blocks():
                for lab, tb in self.succ_edges(bi):
                    p[tb].append((bi, lab))
            self._preds = p
        return self._preds


class DB:
    def __init__(self):
        self.bodies = {}
        self.adts = {}
        self.impls = []
        self.traits = {}
        self.reachable_fns = set()     # functions callable from outside their crate (effective visibility)
        self.headers = {}
        self.by_parent = collections.defaultdict(list)
        self._callers = None
        self.dir = None
        self.crates = []

    def load(self, factdir, crates):
        self.dir = factdir
        for c in crates:
            if c in self.crates:
                continue
            path = os.path.join(factdir, "facts.%s.jsonl" % c)
            with open(path) as fh:
                for line in fh:
                    if line.startswith('{"fn":'):
                        b = Body(line, c)
                        self.bodies[b.name] = b
                        continue
                    o = json.loads(line)
                    if "adt" in o:
                        self.adts[o["adt"]] = o
                    elif "impl" in o:
                        o["crate"] = c
                        self.impls.append(o)
                    elif "trait_decl" in o:
                        self.traits[o["trait_decl"]] = o
                    elif "reachable_fns" in o:
                        self.reachable_fns.update(o["reachable_fns"])
                    elif "header" in o:
                        self.headers[c] = o
            self.crates.append(c)
        self.by_parent.clear()
        for b in self.bodies.values():
            b.children = []
        for b in self.bodies.values():
            if b.kind == "Closure" and b.parent in self.bodies:
                self.bodies[b.parent].children.append(b)
        self._callers = None
        # crate-private functions the rules know by name are recognised after a rename / move (s3sv/renames.py)
        from . import renames
        self.renamed = dict(getattr(self, "renamed", {}) or {})
        self.renamed.update(renames.normalise(self))
        return self

    # ---- lookups ---------------------------------------------------------------------------
    def body(self, name):
        return self.bodies.get(name)

    def find(self, pred, text=None):
        """bodies satisfying pred; `text` (str or tuple of str) is a cheap substring prefilter on the raw fact line"""
        if isinstance(text, str):
            text = (text,)
        out = []
        for b in self.bodies.values():
            if text and not any(t in b.text for t in text):
                continue
            if pred(b):
                out.append(b)
        return out

    def grep(self, *subs):
        """bodies whose raw fact line contains every substring"""
        return [b for b in self.bodies.values() if all(x in b.text for x in subs)]

    def nested(self, body, include_self=True):
        """body and all closures/coroutines nested in it (transitively)"""
        out = [body] if include_self else []
        st = list(body.children)
        while st:
            x = st.pop()
            out.append(x)
            st.extend(x.children)
        return out

    def innermost_user_body(self, body):
        """async fn + #[async_trait] + #[instrument] nest the user code in closures: return the nested body
        with the most blocks (the one holding the user code)."""
        return max(self.nested(body), key=lambda b: len(b.blocks))

    def root_of(self, body):
        while body.kind == "Closure" and body.parent in self.bodies:
            body = self.bodies[body.parent]
        return body

    def callers_of(self, name, resolved=True):
        """list of (Body, bi, term) whose callee def (or resolved instance) is `name`"""
        key = json.dumps(name)[1:-1]
        out = []
        for b in self.bodies.values():
            if key not in b.text:
                continue
            for bi, t in b.calls():
                cal = t["callee"]
                if cal.get("def") == name or (resolved and cal.get("resolved") == name):
                    out.append((b, bi, t))
        return out

    def calls_matching(self, pred, text):
        """(Body, bi, term) for every call whose term satisfies pred; `text` prefilter required"""
        out = []
        for b in self.grep(*([text] if isinstance(text, str) else text)):
            for bi, t in b.calls():
                if pred(t):
                    out.append((b, bi, t))
        return out

    def const_str(self, name, _depth=0):
        """string literal(s) appearing in the initialiser of const/static `name` (in order)"""
        b = self.bodies.get(name)
        if b is None or _depth > 3:
            return None
        out = []

        def op(o):
            if o.get("c") in ("str", "bstr"):
                out.append(o["v"])
            elif o.get("c") == "item":
                r = self.const_str(o["def"], _depth + 1)
                if r:
                    out.extend(r)
        for bl in b.blocks:
            if bl["cleanup"]:
                continue
            for st in bl["stmts"]:
                for o in st["rv"]["ops"]:
                    if isinstance(o, dict):
                        op(o)
            t = bl["term"]
            if t["k"] == "call":
                for a in t["args"]:
                    op(a)
        return out

    def const_int(self, name):
        b = self.bodies.get(name)
        if b is None:
            return None
        vals = []
        for bl in b.blocks:
            if bl["cleanup"]:
                continue
            for st in bl["stmts"]:
                for o in st["rv"]["ops"]:
                    if isinstance(o, dict) and o.get("c") == "int":
                        vals.append(int(o["v"]))
        return vals


def callee_def(t):
    return t["callee"].get("def", "")


def callee_resolved(t):
    c = t["callee"]
    return c.get("resolved") or c.get("def", "")


def short(path):
    """last path segment without generics"""
    return path.rsplit("::", 1)[-1]


_DB = None


def load_db(crates=None, repo=None):
    global _DB
    crates = crates or extract.QUICK_CRATES
    t0 = time.time()
    d = extract.ensure_facts(crates, repo or extract.REPO)
    if _DB is None or _DB.dir != d:
        _DB = DB()
    _DB.load(d, crates)
    _DB.load_s = time.time() - t0
    from . import flow as _flow
    _flow.CONST_BODIES[0] = lambda name, _db=_DB: (_db.bodies.get(name) if _db.bodies.get(name) is not None and _db.bodies.get(name).kind in ("Const", "AssocConst") else None)
    return _DB
