"""PATHS: loop-free path enumeration with uninterpreted atoms (DESIGN.md 2.2)."""
from .flow import const_of, single_def, norm_proj, resolve_place, proj_names
from .facts import callee_def
from .report import AnchorMissing


class Path:
    __slots__ = ("conds", "leaf", "blocks")

    def __init__(self, conds, leaf, blocks):
        self.conds = conds
        self.leaf = leaf
        self.blocks = blocks


def enumerate_paths(body, atom_fn, leaf_fn, start=0, max_paths=200000, stop_blocks=None, allow_loops=False):
    """Every entry->return path of the normal-path CFG as (conds, leaf).
    atom_fn(body, bi, term) -> (atom, {label: value}) for a switch terminator (value = what the atom evaluates to on
    that edge); raise AnchorMissing when the switch is not understood.
    leaf_fn(body, bi) -> leaf object or None, called for every block on the path; the last non-None wins.
    A back edge raises AnchorMissing unless allow_loops (then the path is cut at the back edge)."""
    out = []
    stack = [(start, (), None, ())]
    while stack:
        bi, conds, leaf, seen = stack.pop()
        if bi in seen:
            if allow_loops:
                continue
            raise AnchorMissing("loop in %s at bb%d: PATHS needs a DAG" % (body.name, bi))
        b = body.blocks[bi]
        if b["cleanup"]:
            continue
        l = leaf_fn(body, bi)
        if l is not None:
            leaf = l
        seen2 = seen + (bi,)
        t = b["term"]
        k = t["k"]
        if stop_blocks and bi in stop_blocks:
            out.append(Path(conds, leaf, seen2))
            continue
        if k == "return":
            out.append(Path(conds, leaf, seen2))
            if len(out) > max_paths:
                raise AnchorMissing("too many paths in %s" % body.name)
            continue
        if k == "unreachable" or k == "other":
            continue
        if k == "switch":
            atom, values = atom_fn(body, bi, t)
            for lab, tb in body.succ_edges(bi):
                ob = body.blocks[tb]
                if ob["term"]["k"] == "unreachable" and not ob["stmts"]:
                    continue
                v = values.get(lab)
                if atom is None:
                    stack.append((tb, conds, leaf, seen2))
                else:
                    stack.append((tb, conds + ((atom, v),), leaf, seen2))
            continue
        for lab, tb in body.succ_edges(bi):
            stack.append((tb, conds, leaf, seen2))
    return out


def _tuple_field_operand(body, p):
    """operand a tuple field was built from, when place p is `tuple.i` of a tuple aggregate with a single definition in this body"""
    pr = [e for e in p["proj"] if e != "*"]
    if len(pr) != 1 or not isinstance(pr[0], dict) or "f" not in pr[0]:
        return None
    df = single_def(body, p["l"])
    if df is None or df["kind"] != "assign" or df["rv"]["k"] != "agg" or df["rv"].get("agg") != "tuple":
        return None
    i = pr[0]["f"]
    return df["rv"]["ops"][i] if i < len(df["rv"]["ops"]) else None


def switch_source(body, t):
    """classify the discriminant of a switch: ('discr', place_root(local, projnames), variants) |
    ('call', call_term, polarity) | ('int', place) | None"""
    d = t["discr"]
    if "p" not in d:
        return None
    l = d["p"]["l"]
    pol = True
    if d["p"]["proj"]:
        # `match (a, b, c)`: a switch on field i of a tuple built here tests the operand the tuple was built from
        q = _tuple_field_operand(body, d["p"])
        if q is None or "p" not in q or q["p"]["proj"]:
            return ("local", l, pol) if not d["p"]["proj"] else None
        l = q["p"]["l"]
    for _ in range(6):
        df = single_def(body, l)
        if df is None:
            return ("local", l, pol)
        if df["kind"] == "call":
            if callee_def(df["term"]) == "core::ops::bit::Not::not" and df["term"]["args"] and "p" in df["term"]["args"][0] and \
                    not df["term"]["args"][0]["p"]["proj"]:
                pol = not pol
                l = df["term"]["args"][0]["p"]["l"]
                continue
            return ("call", df["term"], pol, df["bi"])
        rv = df["rv"]
        if rv["k"] == "discr":
            return ("discr", rv, pol)
        if rv["k"] == "un" and rv.get("op") == "Not":
            pol = not pol
            l = rv["ops"][0]["p"]["l"]
            continue
        if rv["k"] in ("use", "cast") and "p" in rv["ops"][0] and not rv["ops"][0]["p"]["proj"]:
            l = rv["ops"][0]["p"]["l"]
            continue
        if rv["k"] in ("use", "cast") and "p" in rv["ops"][0] and rv["ops"][0]["p"]["proj"]:
            q = _tuple_field_operand(body, rv["ops"][0]["p"])
            if q is not None and "p" in q and not q["p"]["proj"]:
                l = q["p"]["l"]
                continue
        if rv["k"] == "bin":
            return ("bin", rv, pol, df["bi"])
        return ("rv", rv, pol)
    return None


def const_dead_edges(body):
    """edges of switches over the discriminant of a local whose only definition is an enum literal (`let x = None; if let Some(..) = x`,
    as emitted by async_trait): the arms of the other variants can never be taken"""
    dead = set()
    for bi in body.live_blocks():
        t = body.blocks[bi]["term"]
        if t["k"] != "switch":
            continue
        src = switch_source(body, t)
        if not src or src[0] != "discr":
            continue
        p = src[1]["ops"][0].get("p")
        if p is not None and p["proj"]:
            # `match (a, b)`: field i of a tuple built here
            pr = [e for e in p["proj"] if e != "*"]
            q = _tuple_field_operand(body, {"l": p["l"], "proj": [pr[0]]}) if len(pr) == 1 and isinstance(pr[0], dict) and "f" in pr[0] else None
            p = q.get("p") if isinstance(q, dict) else None
        if p is None or p["proj"]:
            continue
        df = single_def(body, p["l"])
        if df is not None and df["kind"] == "assign" and df["rv"]["k"] == "use":
            # a copy of a literal (the parameter of an inlined helper that was handed `Mode::X`)
            from . import flow as _flow
            rva = _flow.resolve_agg(body, {"p": {"l": p["l"], "proj": []}})
            if rva is not None and rva.get("variant"):
                df = {"kind": "assign", "rv": rva}
        if df is None or df["kind"] != "assign" or df["rv"]["k"] != "agg" or df["rv"].get("agg") != "adt" or not df["rv"].get("variant"):
            continue
        if any(d["kind"] == "mutarg" for d in body.defs().get(p["l"], [])):
            continue
        if any(st["rv"]["k"] == "ref" and st["rv"].get("mut") and st["rv"]["ops"][0].get("p", {}).get("l") == p["l"] for _, _, st in body.stmts()):
            continue
        vals = discr_values(t, src[1])
        for lab, v in vals.items():
            if v != df["rv"]["variant"]:
                dead.add((bi, lab))
    return dead


def bool_values(t, pol=True):
    """label -> bool for a switch on a boolean"""
    vals = {}
    for v, tb in t["targets"]:
        vals[v] = (v != "0") if pol else (v == "0")
    # otherwise: the complement of the listed values
    listed = [v for v, _ in t["targets"]]
    if listed == ["0"]:
        vals["otherwise"] = True if pol else False
    elif listed == ["1"]:
        vals["otherwise"] = False if pol else True
    else:
        vals["otherwise"] = None
    return vals


def discr_values(t, rv):
    """label -> variant name (or 'OTHER:<a|b>' for the otherwise edge)"""
    names = {v: n for v, n in rv["variants"]}
    vals = {}
    used = set()
    for v, tb in t["targets"]:
        vals[v] = names.get(v, v)
        used.add(v)
    rest = [n for v, n in rv["variants"] if v not in used]
    vals["otherwise"] = rest[0] if len(rest) == 1 else "OTHER:" + "|".join(rest)
    return vals


def str_args(body, t):
    """string literal arguments of a call (resolved through single-def chains), in order"""
    out = []
    for a in t["args"]:
        c = const_of(body, a)
        if c is not None and c.get("c") in ("str", "bstr"):
            out.append(c["v"])
    return out


# ------------------------------------------------------------------------------------------------
# byte-string match tries  (`match bytes { b"Name" => .., _ => .. }` lowers to a length test + per-byte switches)
# ------------------------------------------------------------------------------------------------

def _len_eq_const(body, t):
    """if switch `t` tests `Eq(PtrMetadata(x) | len, const N)` return (N, subject_local) else None"""
    d = t["discr"]
    if "p" not in d or d["p"]["proj"]:
        return None
    df = single_def(body, d["p"]["l"])
    if df is None or df["kind"] != "assign":
        return None
    rv = df["rv"]
    if rv["k"] != "bin" or rv["op"] != "Eq":
        return None
    n = None
    subj = None
    for o in rv["ops"]:
        c = const_of(body, o)
        if c is not None and c.get("c") == "int":
            n = int(c["v"])
        else:
            # operand chain to PtrMetadata
            cur = o
            for _ in range(4):
                if "p" not in cur:
                    break
                d2 = single_def(body, cur["p"]["l"])
                if d2 is None or d2["kind"] != "assign":
                    break
                r2 = d2["rv"]
                if r2["k"] == "other" and "PtrMetadata" in r2.get("dbg", ""):
                    subj = r2["dbg"]
                    break
                if r2["k"] == "un" and r2.get("op") == "PtrMetadata":
                    subj = r2["ops"][0]["p"]["l"]
                    break
                if r2["k"] == "use":
                    cur = r2["ops"][0]
                    continue
                break
    if n is None or subj is None:
        return None
    return n, subj


def byte_match_arms(body, start):
    """walk a byte-string match starting at block `start`.
    returns (arms, defaults): arms = list of (literal bytes, leaf block); defaults = set of leaf blocks reached when
    no literal matches.  Returns None if `start` does not begin such a match."""
    arms = []
    defaults = set()
    seen_any = [False]

    def walk(bi, length, chars, depth):
        if depth > 400:
            return
        b = body.blocks[bi]
        t = b["term"]
        if t["k"] == "goto" and not b["stmts"]:
            return walk(t["t"], length, chars, depth + 1)
        if t["k"] == "switch":
            d = t["discr"]
            if "p" in d:
                ci = [e for e in d["p"]["proj"] if isinstance(e, dict) and "cidx" in e]
                if ci and length is not None:
                    seen_any[0] = True
                    idx = ci[0]["cidx"]
                    for v, tb in t["targets"]:
                        c2 = dict(chars)
                        c2[idx] = int(v)
                        walk(tb, length, c2, depth + 1)
                    walk(t["otherwise"], None, {}, depth + 1)
                    return
                le = _len_eq_const(body, t)
                if le is not None:
                    seen_any[0] = True
                    n, _ = le
                    for v, tb in t["targets"]:
                        if v == "0":
                            walk(tb, None, {}, depth + 1)
                    if n == 0:
                        arms.append((b"", t["otherwise"]))
                    else:
                        walk(t["otherwise"], n, {}, depth + 1)
                    return
        if length is not None and len(chars) == length and length > 0:
            arms.append((bytes(chars[i] for i in range(length)), bi))
        else:
            defaults.add(bi)
    walk(start, None, {}, 0)
    if not seen_any[0]:
        return None
    return arms, defaults
