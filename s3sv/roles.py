"""Roles: identities of the public traits/types the rules are anchored on (resolved from the fact base)."""
from .report import AnchorMissing


def trait_path(db, last, crate="s3s"):
    c = [k for k in db.traits if k.rsplit("::", 1)[-1] == last and k.startswith(crate + "::")]
    if len(c) != 1:
        raise AnchorMissing("trait %s::..::%s: %d candidates" % (crate, last, len(c)))
    return c[0]


def adt_path(db, last, crate="s3s"):
    c = [k for k in db.adts if k.rsplit("::", 1)[-1] == last and k.startswith(crate + "::")]
    if len(c) != 1:
        raise AnchorMissing("type %s::..::%s: %d candidates %s" % (crate, last, len(c), c[:4]))
    return c[0]


class Roles:
    def __init__(self, db):
        self.S3 = trait_path(db, "S3")
        self.S3Access = trait_path(db, "S3Access")
        self.S3Auth = trait_path(db, "S3Auth")
        self.S3Route = trait_path(db, "S3Route")
        self.S3Host = trait_path(db, "S3Host")
        self.Operation = trait_path(db, "Operation")
