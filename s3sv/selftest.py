"""Checker self-test: one-hunk variants of /repo (selftest/mutants.json) applied to a scratch copy under /tmp; the rule named in
`expect` must fire there.  Also benign-edit controls (expect = []) that must leave the check silent."""
import importlib
import json
import os
import shutil
import subprocess
import sys
import tempfile

from . import extract, facts, report

VERIF = extract.VERIF


def load_mutants(pid=None):
    with open(os.path.join(VERIF, "selftest", "mutants.json")) as fh:
        ms = json.load(fh)["mutants"]
    return [m for m in ms if pid is None or pid in m["properties"]]


def make_scratch():
    d = tempfile.mkdtemp(prefix="s3sv-mut-", dir="/tmp")
    for name in ("crates", "codegen", "data"):
        shutil.copytree(os.path.join(extract.REPO, name), os.path.join(d, name), ignore=shutil.ignore_patterns("target", ".git"))
    for f in ("Cargo.toml", "Cargo.lock", "rustfmt.toml"):
        shutil.copy(os.path.join(extract.REPO, f), d)
    return d


def apply_mutant(scratch, m):
    p = os.path.join(scratch, m["file"])
    s = open(p).read()
    if s.count(m["old"]) < 1:
        return False
    s = s.replace(m["old"], m["new"], 1)
    open(p, "w").write(s)
    return True


def run_mutant(m, pids):
    """returns {pid: (fired_keys, exit)} for the mutant on a scratch copy"""
    scratch = make_scratch()
    try:
        if not apply_mutant(scratch, m):
            return None
        old_repo = extract.REPO
        extract.REPO = scratch
        facts._DB = None
        from . import model
        model._MODEL = None
        out = {}
        try:
            db = facts.load_db(list(extract.QUICK_CRATES), repo=scratch)
            for pid in pids:
                mod = importlib.import_module("s3sv.rules." + pid.lower())
                chk = report.Check(pid, "quick", mod.META["level"], "", (), ())
                try:
                    mod.run(chk, db, "quick")
                except report.AnchorMissing as e:
                    chk.anchor_missing("R0", str(e))
                known = {k["key"] for k in report.load_known() if k.get("status") == "open"}
                fired = sorted({i["key"] for i in chk.inst if not i["ok"] and i["key"] not in known})
                out[pid] = fired
        except SystemExit as e:
            out = {pid: ["BUILD-FAILED: %s" % e] for pid in pids}
        finally:
            extract.REPO = old_repo
            facts._DB = None
            model._MODEL = None
        return out
    finally:
        shutil.rmtree(scratch, ignore_errors=True)
        # facts of scratch trees are not worth keeping
        

def run_selftest(pid, verbose=True):
    res = {"mutants_applied": 0, "mutants_detected": 0, "deaf": [], "stale": [], "controls_silent": 0, "controls_noisy": [], "details": []}
    for m in load_mutants(pid):
        r = run_mutant(m, [pid])
        if r is None:
            res["stale"].append(m["id"])
            continue
        fired = r[pid]
        exp = m.get("expect", {}).get(pid)
        if m.get("benign"):
            if fired:
                res["controls_noisy"].append({"id": m["id"], "fired": fired[:4]})
            else:
                res["controls_silent"] += 1
            if verbose:
                print("selftest %s benign control %s: %s" % (pid, m["id"], "silent" if not fired else "NOISY %s" % fired[:3]))
            continue
        res["mutants_applied"] += 1
        hit = [k for k in fired if (exp is None or any(e in k for e in exp))]
        if hit:
            res["mutants_detected"] += 1
        else:
            res["deaf"].append(m["id"])
        res["details"].append({"id": m["id"], "fired": fired[:4]})
        if verbose:
            print("selftest %s mutant %s: %s %s" % (pid, m["id"], "DETECTED" if hit else "DEAF", (hit or fired)[:2]))
    return res


if __name__ == "__main__":
    pid = sys.argv[1].upper() if len(sys.argv) > 1 else None
    only = sys.argv[2] if len(sys.argv) > 2 else None
    ms = load_mutants(pid)
    for m in ms:
        if only and only not in m["id"]:
            continue
        pids = [pid] if pid else m["properties"]
        r = run_mutant(m, pids)
        print(m["id"], "STALE" if r is None else json.dumps({k: v[:3] for k, v in r.items()}))
