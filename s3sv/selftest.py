"""Checker self-test (thorough tier): variants of /repo's current tree are analysed on scratch copies under /tmp.

  * mutants   - selftest/mutants.json (one-hunk edits) and selftest/seeds.json (the patches under seeded/<id>/, produced by independent
                sub-agents from the property text alone): the property's check must fire on the variant (with a key containing one of `expect`)
  * controls  - selftest/benign.json: behaviour-preserving refactors (hand hunks or patches under selftest/benign/): the check must stay silent

Nothing is executed: every variant is only compiled to MIR facts and run through the same rules.  A variant whose hunk / patch no longer
applies to the current tree is reported as stale, not as a failure.  Scratch copies and their fact files are removed as soon as a variant
has been analysed.
"""
import concurrent.futures
import importlib
import json
import os
import shutil
import subprocess
import sys
import tempfile

from . import extract

VERIF = extract.VERIF
WORKERS = int(os.environ.get("S3SV_SELFTEST_WORKERS", "4"))


def _load(name, key):
    p = os.path.join(VERIF, "selftest", name)
    if not os.path.exists(p):
        return []
    with open(p) as fh:
        return json.load(fh)[key]


def specs_for(pid=None):
    out = []
    for m in _load("mutants.json", "mutants"):
        if pid is None or pid in m["properties"]:
            out.append(dict(m, kind="hunk"))
    for s in _load("seeds.json", "seeds"):
        if pid is None or pid in s["caught_by"]:
            out.append({"id": "seed:" + s["seed"], "kind": "patch", "patch": os.path.join("seeded", s["seed"], "patch.diff"),
                        "properties": sorted(s["caught_by"]), "expect": s["caught_by"], "benign": False})
    for c in _load("benign.json", "controls"):
        if pid is None or pid in c["properties"]:
            out.append(dict(c, kind="patch" if c.get("patch") else "hunk", benign=True))
    return out


def make_scratch():
    d = tempfile.mkdtemp(prefix="s3sv-mut-", dir="/tmp")
    for name in ("crates", "codegen", "data"):
        shutil.copytree(os.path.join(extract.REPO, name), os.path.join(d, name), ignore=shutil.ignore_patterns("target", ".git"), symlinks=True)
    for f in ("Cargo.toml", "Cargo.lock", "rustfmt.toml"):
        shutil.copy(os.path.join(extract.REPO, f), d)
    return d


def apply_variant(scratch, m):
    if m["kind"] == "patch":
        r = subprocess.run(["git", "apply", "--whitespace=nowarn", os.path.join(VERIF, m["patch"])], cwd=scratch, stdout=subprocess.PIPE, stderr=subprocess.STDOUT)
        return r.returncode == 0
    hunks = m.get("hunks") or [m]
    for h in hunks:
        p = os.path.join(scratch, h["file"])
        s = open(p).read()
        if s.count(h["old"]) < 1:
            return False
        s = s.replace(h["old"], h["new"]) if h.get("all") else s.replace(h["old"], h["new"], 1)
        open(p, "w").write(s)
    return True


def worker_main(spec_json, slot):
    """runs inside a subprocess: S3SV_REPO / S3SV_TARGET already point at the scratch tree / this worker's cargo target dir"""
    from . import facts, report
    m = json.loads(spec_json)
    out = {}
    factdir = None
    try:
        tier = m.get("tier", "quick")
        crates = list(extract.QUICK_CRATES)
        if tier == "thorough":
            for pid in m["pids"]:
                crates += [c for c in importlib.import_module("s3sv.rules." + pid.lower()).META.get("thorough_crates", []) if c not in crates]
        db = facts.load_db(crates)
        factdir = db.dir
        known = {k["key"] for k in report.load_known() if k.get("status") == "open"}
        for pid in m["pids"]:
            mod = importlib.import_module("s3sv.rules." + pid.lower())
            chk = report.Check(pid, tier, mod.META["level"], "", (), ())
            try:
                mod.run(chk, db, tier)
            except report.AnchorMissing as e:
                chk.anchor_missing("R0", str(e))
            out[pid] = sorted({i["key"] for i in chk.inst if not i["ok"] and i["key"] not in known})
    except SystemExit as e:
        out = {pid: ["BUILD-FAILED: %s" % e] for pid in m["pids"]}
    finally:
        if factdir and os.path.isdir(factdir) and os.path.basename(factdir) != extract.tree_hash("/repo"):
            shutil.rmtree(factdir, ignore_errors=True)
    print("S3SV-SELFTEST-RESULT " + json.dumps(out))


def run_variant(m, pids, slot=0):
    """{pid: [keys that fired]} for the variant, or None if it does not apply to the current tree"""
    scratch = make_scratch()
    try:
        if not apply_variant(scratch, m):
            return None
        env = dict(os.environ, S3SV_REPO=scratch, S3SV_TARGET=os.path.join(extract.CACHE, "target-w%d" % slot), S3SV_NO_EVIDENCE="1", S3SV_FACTS_SALT="w%d-%d" % (slot, os.getpid()))
        r = subprocess.run([sys.executable, "-m", "s3sv.selftest", "--worker", json.dumps({"pids": pids, "tier": m.get("tier", "quick")}), str(slot)], cwd=VERIF, env=env,
                           stdout=subprocess.PIPE, stderr=subprocess.PIPE, text=True)
        for line in r.stdout.splitlines():
            if line.startswith("S3SV-SELFTEST-RESULT "):
                return json.loads(line[len("S3SV-SELFTEST-RESULT "):])
        return {pid: ["WORKER-FAILED: " + (r.stderr or r.stdout)[-300:]] for pid in pids}
    finally:
        shutil.rmtree(scratch, ignore_errors=True)


def run_selftest(pid, verbose=True, only=None):
    res = {"mutants_applied": 0, "mutants_detected": 0, "deaf": [], "stale": [], "controls_applied": 0, "controls_silent": 0, "controls_noisy": [], "details": []}
    specs = [m for m in specs_for(pid) if not only or only in m["id"]]
    slots = list(range(WORKERS))

    def job(m):
        slot = slots.pop()
        try:
            return m, run_variant(m, [pid], slot)
        finally:
            slots.append(slot)

    with concurrent.futures.ThreadPoolExecutor(max_workers=WORKERS) as ex:
        results = list(ex.map(job, specs))
    for m, r in results:
        if r is None:
            res["stale"].append(m["id"])
            if verbose:
                print("selftest %s %s: STALE (does not apply to the current tree)" % (pid, m["id"]))
            continue
        fired = r[pid]
        if any(k.startswith("BUILD-FAILED") for k in fired):
            # the variant applies textually but no longer compiles on this tree: it says nothing about the checker
            res["stale"].append(m["id"])
            if verbose:
                print("selftest %s %s: STALE (variant does not build on the current tree: %s)" % (pid, m["id"], fired[0][:160]))
            continue
        if m.get("benign"):
            res["controls_applied"] += 1
            if fired:
                res["controls_noisy"].append({"id": m["id"], "fired": fired[:4]})
            else:
                res["controls_silent"] += 1
            if verbose:
                print("selftest %s control %s: %s" % (pid, m["id"], "silent" if not fired else "NOISY %s" % fired[:3]))
            continue
        exp = (m.get("expect") or {}).get(pid)
        res["mutants_applied"] += 1
        hit = [k for k in fired if (not exp or any(e in k for e in exp))]
        if hit:
            res["mutants_detected"] += 1
        else:
            res["deaf"].append({"id": m["id"], "fired_other": fired[:3]})
        res["details"].append({"id": m["id"], "fired": (hit or fired)[:3]})
        if verbose:
            print("selftest %s mutant %s: %s %s" % (pid, m["id"], "DETECTED" if hit else "DEAF", (hit or fired)[:2]))
    return res


if __name__ == "__main__":
    if len(sys.argv) > 1 and sys.argv[1] == "--worker":
        worker_main(sys.argv[2], int(sys.argv[3]))
        sys.exit(0)
    pid = sys.argv[1].upper() if len(sys.argv) > 1 else None
    only = sys.argv[2] if len(sys.argv) > 2 else None
    pids = [pid] if pid else sorted({p for m in specs_for(None) for p in m["properties"]})
    bad = 0
    for p in pids:
        r = run_selftest(p, only=only)
        print("selftest %s: %d/%d mutants detected, %d/%d controls silent, %d stale" % (p, r["mutants_detected"], r["mutants_applied"], r["controls_silent"],
                                                                                    r["controls_applied"], len(r["stale"])))
        bad += len(r["deaf"]) + len(r["controls_noisy"])
    sys.exit(1 if bad else 0)
