"""Dominating guard facts: which tested conditions hold on every path reaching a block."""
from . import flow, paths
from .facts import callee_def


def _dominates(body, s, x):
    return x not in flow.reach(body, [0], stop_blocks=frozenset([s])) or s == x


def _const_bool_assigns(body, local, lenient=False):
    """blocks assigning a constant bool to `local`: [(bi, value)] or None if it has other defs (lenient: other defs are skipped)"""
    out = []
    for df in body.defs().get(local, []):
        if df["kind"] != "assign" or df.get("proj"):
            if lenient:
                continue
            return None
        rv = df["rv"]
        if rv["k"] == "use" and isinstance(rv["ops"][0], dict) and rv["ops"][0].get("c") == "int" and rv["ops"][0].get("ty") == "bool":
            out.append((df["bi"], rv["ops"][0]["v"] == "1"))
        elif not lenient:
            return None
    return out


def _switch_facts(body, s, reaching, depth, _cache):
    """facts established by leaving switch block s through one of the edges `reaching`"""
    facts = set()
    t = body.blocks[s]["term"]
    src = paths.switch_source(body, t)
    if src is None:
        return facts
    if src[0] == "discr":
        vals = paths.discr_values(t, src[1])
        names = set()
        for lab in reaching:
            v = vals.get(lab)
            if v is None:
                continue
            if v.startswith("OTHER:"):
                names |= set(v[6:].split("|"))
            else:
                names.add(v)
        op0 = src[1]["ops"][0]
        # `match (a, b)`: the discriminant of `tuple.i` is the discriminant of the operand the tuple was built from
        p0 = op0.get("p") if isinstance(op0, dict) else None
        if p0 is not None:
            pr = [e for e in p0["proj"] if e != "*"]
            if pr and isinstance(pr[0], dict) and "f" in pr[0]:
                q = paths._tuple_field_operand(body, {"l": p0["l"], "proj": [pr[0]]})
                if q is not None and "p" in q:
                    op0 = {"p": {"l": q["p"]["l"], "proj": list(q["p"]["proj"]) + pr[1:]}}
        subj = flow.resolve_place(body, op0)
        facts.add(("enum", src[1]["enum"], frozenset(names), subj))
        # a stored decision (`let kind = classify(..); match kind { .. }` with a private enum): the value is one of `names`, so it was
        # built at one of the constructions of those variants - what holds at all of them holds here
        # `cond.then_some(v)` / `cond.then(|| v)` is Some exactly when cond holds
        if names == {"Some"} and subj is not None:
            l0 = subj[0]
            for _ in range(6):
                df0 = flow.single_def(body, l0)
                if df0 is None:
                    break
                if df0["kind"] == "assign" and df0["rv"]["k"] == "use" and flow.op_place(df0["rv"]["ops"][0]) is not None and not flow.op_place(df0["rv"]["ops"][0])["proj"]:
                    l0 = flow.op_place(df0["rv"]["ops"][0])["l"]
                    continue
                if df0["kind"] == "call" and callee_def(df0["term"]) in ("core::bool::<impl bool>::then_some", "core::bool::<impl bool>::then") and df0["term"]["args"]:
                    cp = flow.op_place(df0["term"]["args"][0])
                    cd = flow.single_def(body, cp["l"]) if cp is not None and not cp["proj"] else None
                    pol = True
                    for _ in range(4):
                        if cd is not None and cd["kind"] == "call" and callee_def(cd["term"]) == "core::ops::bit::Not::not" and cd["term"]["args"]:
                            q = flow.op_place(cd["term"]["args"][0])
                            cd = flow.single_def(body, q["l"]) if q is not None and not q["proj"] else None
                            pol = not pol
                            continue
                        break
                    if cd is not None and cd["kind"] == "call":
                        facts.add(("call", callee_def(cd["term"]), pol, cd["bi"]))
                break
        wrap = _wrapper_depth(subj[1]) if subj is not None else None
        if depth < 3 and subj is not None and wrap is not None and _is_plain_enum(src[1]["enum"]):
            contrib = _enum_def_sites(body, subj[0], names, wrap, src[1]["enum"])
            if contrib:
                inter = None
                for bi in contrib:
                    f = set(dominating_facts(body, bi, depth + 1, _cache))
                    inter = f if inter is None else (inter & f)
                facts |= (inter or set())
    elif src[0] == "call":
        vals = paths.bool_values(t, src[2])
        vs = {vals.get(lab) for lab in reaching}
        if len(vs) == 1 and None not in vs:
            v = vs.pop()
            facts.add(("call", callee_def(src[1]), v, src[3]))
            # `kind == Kind::X` (derived PartialEq on a unit-like variant of a workspace enum) holds exactly when `match kind { Kind::X => .. }`
            # takes that arm: the same enum fact, and the same inheritance from where the stored decision was made
            d = callee_def(src[1])
            if d in ("core::cmp::PartialEq::eq", "core::cmp::PartialEq::ne") and len(src[1]["args"]) == 2 and (v == d.endswith("::eq")):
                for i in (0, 1):
                    ch = flow.resolve_chain(body, src[1]["args"][i])
                    df = flow.single_def(body, ch[-1][0]) if ch and not ch[-1][1] else None
                    if df is None or df["kind"] != "assign" or df.get("proj"):
                        continue
                    rv = df["rv"]
                    if rv["k"] == "agg" and rv.get("agg") == "adt" and rv.get("variant") and not rv["ops"] and _is_plain_enum(rv.get("adt", "")) and \
                            not rv["adt"].startswith("core::"):
                        subj = flow.resolve_place(body, src[1]["args"][1 - i])
                        names = {rv["variant"]}
                        facts.add(("enum", rv["adt"], frozenset(names), subj))
                        wrap = _wrapper_depth(subj[1]) if subj is not None else None
                        if depth < 3 and subj is not None and wrap is not None:
                            contrib = _enum_def_sites(body, subj[0], names, wrap, rv["adt"])
                            if contrib:
                                inter = None
                                for bi in contrib:
                                    f = set(dominating_facts(body, bi, depth + 1, _cache))
                                    inter = f if inter is None else (inter & f)
                                facts |= (inter or set())
                        break
    elif src[0] == "bin":
        vals = paths.bool_values(t, src[2])
        vs = {vals.get(lab) for lab in reaching}
        if len(vs) == 1 and None not in vs:
            facts.add(("cmp", src[1]["op"], vs.pop(), src[3]))
    elif src[0] in ("local", "rv") and depth < 3:
        # a stored boolean (`let is_x = matches!(..)` / `if matches!(..)`): facts of the blocks that set it to that value
        d = t["discr"]
        if "p" not in d or (d["p"]["proj"] and src[0] != "local"):
            return facts
        l = d["p"]["l"]
        if src[0] == "local":
            # switch_source already looked through copies and negations: src[1] is the stored boolean, src[2] its polarity
            l = src[1]
        else:
            # follow plain copies
            for _ in range(4):
                df = flow.single_def(body, l)
                if df and df["kind"] == "assign" and df["rv"]["k"] == "use" and "p" in df["rv"]["ops"][0] and not df["rv"]["ops"][0]["p"]["proj"]:
                    l = df["rv"]["ops"][0]["p"]["l"]
                else:
                    break
        vals = paths.bool_values(t, src[2] if src[0] == "local" else True)
        vs = {vals.get(lab) for lab in reaching}
        if len(vs) != 1 or None in vs:
            return facts
        want = vs.pop()
        # the boolean is defined by constant assignments and/or by predicate calls: the edge value `want` can only come from a constant
        # assignment of that value or from a call that returned it
        contrib = []
        okdefs = True
        stack = [(l, 0)]
        seen_l = set()
        while stack and okdefs:
            l2, dep = stack.pop()
            if l2 in seen_l:
                continue
            seen_l.add(l2)
            for df in body.defs().get(l2, []):
                if df["kind"] == "mutarg" or df.get("proj"):
                    okdefs = False
                    break
                if df["kind"] == "assign":
                    rv = df["rv"]
                    o0 = rv["ops"][0] if rv.get("ops") else None
                    if rv["k"] == "use" and isinstance(o0, dict) and o0.get("c") == "int" and o0.get("ty") == "bool":
                        if (o0["v"] == "1") == want:
                            contrib.append((df["bi"], None))
                    elif rv["k"] == "use" and isinstance(o0, dict) and "p" in o0 and not o0["p"]["proj"] and dep < 4:
                        stack.append((o0["p"]["l"], dep + 1))      # a plain copy (e.g. the return value of an inlined helper)
                    else:
                        okdefs = False
                        break
                elif df["kind"] == "call":
                    contrib.append((df["bi"], ("call", callee_def(df["term"]), want, df["bi"])))
                else:
                    okdefs = False
                    break
        if not okdefs or not contrib:
            return facts
        inter = None
        for bi, own in contrib:
            f = set(dominating_facts(body, bi, depth + 1, _cache))
            if own is not None:
                f.add(own)
            inter = f if inter is None else (inter & f)
        facts |= (inter or set())
    return facts


def _dominating_only(body, x, depth=0, _cache=None):
    """set of atoms that hold whenever control reaches block x:
      ('enum', enum type, frozenset(variant names), subject) - the tested enum value is one of the variants
      ('call', callee def, bool value, call block)            - the predicate call returned that value
      ('cmp', op, bool value, stmt block)                     - integer comparison outcome
    """
    if _cache is None:
        _cache = {}
    if ("dom", x, depth) in _cache:
        return _cache[("dom", x, depth)]
    facts = set()
    _cache[("dom", x, depth)] = facts
    for s in body.live_blocks():
        t = body.blocks[s]["term"]
        if t["k"] != "switch" or s == x:
            continue
        if not _dominates(body, s, x):
            continue
        edges = body.succ_edges(s)
        reaching = [lab for lab, tb in edges if x in flow.reach(body, [tb], stop_blocks=frozenset([s]))]
        live_labels = [lab for lab, tb in edges if not (body.blocks[tb]["term"]["k"] == "unreachable" and not body.blocks[tb]["stmts"])]
        if not reaching or set(reaching) >= set(live_labels):
            continue
        facts |= _switch_facts(body, s, reaching, depth, _cache)
    return facts


def dominating_facts(body, x, depth=0, _cache=None):
    """facts of the dominating tests, plus - where several branches merge (`(a, true) | (b, true) => ..`, or-patterns, early exits that
    rejoin) - what holds on every incoming edge"""
    if _cache is None:
        _cache = {}
    if (x, depth) in _cache:
        return _cache[(x, depth)]
    facts = set(_dominating_only(body, x, depth, _cache))
    _cache[(x, depth)] = facts          # provisional (cuts cycles)
    be = _back_edges(body)
    preds = [(p, lab) for p, lab in body.preds().get(x, []) if (p, lab) not in be and not body.blocks[p]["cleanup"]]
    # walk up a straight line of single-predecessor blocks to the merge point above it
    hops = 0
    while len(preds) == 1 and body.blocks[preds[0][0]]["term"]["k"] != "switch" and hops < 40:
        y = preds[0][0]
        preds = [(p, lab) for p, lab in body.preds().get(y, []) if (p, lab) not in be and not body.blocks[p]["cleanup"]]
        hops += 1
    if len(preds) >= 2 and depth < 3 and len(preds) <= 8:
        inter = None
        for p, lab in preds:
            f = set(dominating_facts(body, p, depth, _cache))
            if body.blocks[p]["term"]["k"] == "switch":
                f |= _switch_facts(body, p, [lab], depth, _cache)
            inter = f if inter is None else (inter & f)
            if not inter:
                break
        facts |= (inter or set())
    _cache[(x, depth)] = facts
    return facts


_BE = {}


def _back_edges(body):
    k = id(body)
    if k not in _BE:
        if len(_BE) > 64:
            _BE.clear()
        _BE[k] = frozenset(flow.back_edges(body))
    return _BE[k]


def _is_plain_enum(ty):
    """enums whose matched value is worth tracing back to where it was built: the workspace's own, and Option / Result (a stored
    `let form = if cond { x.as_mut() } else { None }`)"""
    return ty.startswith(("s3s::", "s3s_fs::", "s3s_policy::", "s3s_aws::", "core::option::Option<", "core::result::Result<"))


GOOD_WRAPPERS = ("Some", "Ok", "Continue", "Ready")
BAD_WRAPPERS = ("None", "Err", "Break", "Pending")


def _wrapper_depth(proj):
    """number of `(as Some/Ok/Continue/Ready).0` layers in a normalised projection; None if it contains anything else"""
    n = 0
    i = 0
    pr = list(proj)
    while i < len(pr):
        if pr[i][0] == "dc" and i + 1 < len(pr) and pr[i + 1][0] == "f" and pr[i + 1][1] == 0:
            n += 1
            i += 2
            continue
        return None
    return n


def _enum_def_sites(body, l, names, wrap=0, enum_ty=""):
    """blocks that construct the enum value found `wrap` layers (Some / Ok / Continue / Ready) inside local l with one of the variants
    `names` - or, where the value comes out of a call, the block of that call (whatever variant it is, control passed there); None when some
    definition is of another kind"""
    base = enum_ty.split("<")[0]
    seen = set()

    def sites(l2, w, dep):
        if (l2, w) in seen:
            return []
        seen.add((l2, w))
        ds = body.defs().get(l2, [])
        if not ds or (1 <= l2 <= body.argc) or dep > 12:
            return None
        out = []
        for df in ds:
            if df["kind"] == "mutarg" or df.get("proj"):
                return None
            if df["kind"] == "assign":
                rv = df["rv"]
                if rv["k"] == "agg" and rv.get("agg") == "adt" and rv.get("variant") is not None:
                    if w == 0:
                        if rv["variant"] in names:
                            out.append(df["bi"])
                    elif rv["variant"] in GOOD_WRAPPERS and rv["ops"] and isinstance(rv["ops"][0], dict) and "p" in rv["ops"][0] and not rv["ops"][0]["p"]["proj"]:
                        r = sites(rv["ops"][0]["p"]["l"], w - 1, dep + 1)
                        out += r if r is not None else [df["bi"]]
                    elif rv["variant"] in BAD_WRAPPERS:
                        pass        # carries no value of the enum
                    else:
                        return None
                elif rv["k"] == "use" and isinstance(rv["ops"][0], dict) and "p" in rv["ops"][0]:
                    q = rv["ops"][0]["p"]
                    k = _wrapper_depth(flow.norm_proj(q["proj"]))
                    if k is None:
                        # a field of an intermediate struct / tuple built in this body (`Outcome { credentials, .. }` then destructured)
                        pr = [e for e in q["proj"] if e != "*"]
                        bd = flow.single_def(body, q["l"])
                        if pr and isinstance(pr[0], dict) and "f" in pr[0] and bd is not None and bd["kind"] == "assign" and bd["rv"]["k"] == "agg" and \
                                bd["rv"].get("agg") in ("adt", "tuple") and pr[0]["f"] < len(bd["rv"]["ops"]) and \
                                isinstance(bd["rv"]["ops"][pr[0]["f"]], dict) and "p" in bd["rv"]["ops"][pr[0]["f"]]:
                            o2 = bd["rv"]["ops"][pr[0]["f"]]["p"]
                            k2 = _wrapper_depth(flow.norm_proj(list(o2["proj"]) + pr[1:]))
                            if k2 is not None:
                                r = sites(o2["l"], w + k2, dep + 1)
                                if r is None:
                                    return None
                                out += r
                                continue
                        return None
                    r = sites(q["l"], w + k, dep + 1)
                    if r is None:
                        return None
                    out += r
                else:
                    return None
            elif df["kind"] == "call":
                t = df["term"]
                d = callee_def(t)
                a0 = t["args"][0] if t["args"] else None
                if d.endswith("::ops::try_trait::FromResidual::from_residual"):
                    continue        # the failure of an inner `?`: None / Err, no value of the enum
                if (d.endswith("::ops::try_trait::Try::branch") or d in flow.PAYLOAD_PRESERVING) and isinstance(a0, dict) and "p" in a0 and not a0["p"]["proj"]:
                    r = sites(a0["p"]["l"], w, dep + 1)
                    # the adaptor's input comes from outside this body (a field, a parameter): the adaptor call itself is where the value
                    # enters
                    out += r if r is not None else [df["bi"]]
                elif d in ("core::option::Option::<T>::map", "core::result::Result::<T, E>::map") and w == 1 and len(t["args"]) == 2 and \
                        isinstance(t["args"][1], dict) and t["args"][1].get("c") == "fn" and str(t["args"][1].get("def", "")).startswith(base + "::"):
                    # `.map(Enum::Variant)`: whatever value comes out was built by that variant's constructor, here
                    if str(t["args"][1]["def"]).rsplit("::", 1)[-1] in names:
                        out.append(df["bi"])
                else:
                    # some other call produced the value: whichever variant it is, control passed this call
                    out.append(df["bi"])
            else:
                return None
        return out
    return sites(l, wrap, 0)


def enum_fact(facts, enum_suffix):
    """variant-name sets known for enums whose type string contains enum_suffix"""
    return [f[2] for f in facts if f[0] == "enum" and enum_suffix in f[1]]


def call_fact(facts, callee_suffix, value):
    return [f for f in facts if f[0] == "call" and f[1].endswith(callee_suffix) and f[2] == value]
