"""Compiled `format_args!` templates: what a `core::fmt::Arguments::new(template, args)` call prints.

The template is the byte string the compiler hands to `Arguments::new` (library/core/src/fmt/mod.rs, "template byte sequence"):
  n in 1..=127  literal piece of n bytes;  0x80 len16 literal piece;  0b11xxxxxx placeholder (bit0 flags:u32, bit1 width:u16,
  bit2 precision:u16, bit3 arg_index:u16, bit4 width is an argument index, bit5 precision is an argument index);  0 end.
The driver dumps the exact bytes as `hex` next to the lossy text.
"""
from . import flow
from .facts import callee_def

ZERO_PAD = 1 << 24          # core::fmt::flags::SIGN_AWARE_ZERO_PAD_FLAG
WIDTH_FLAG = 1 << 27
PRECISION_FLAG = 1 << 28


def decode(hexstr):
    """-> list of ("lit", text) | ("arg", index, {"flags":int|None,"width":int|None,"precision":int|None,"width_arg":bool,"precision_arg":bool}),
    or None when the bytes are not a well-formed template"""
    try:
        b = bytes.fromhex(hexstr)
    except ValueError:
        return None
    out = []
    i = 0
    nxt = 0
    while i < len(b):
        n = b[i]
        i += 1
        if n == 0:
            return out if i == len(b) else None
        if n < 0x80:
            if i + n > len(b):
                return None
            out.append(("lit", b[i:i + n].decode("utf-8", "replace")))
            i += n
        elif n == 0x80:
            if i + 2 > len(b):
                return None
            ln = int.from_bytes(b[i:i + 2], "little")
            i += 2
            out.append(("lit", b[i:i + ln].decode("utf-8", "replace")))
            i += ln
        elif n >= 0xC0:
            spec = {"flags": None, "width": None, "precision": None, "width_arg": bool(n & 16), "precision_arg": bool(n & 32)}
            idx = nxt
            if n & 1:
                spec["flags"] = int.from_bytes(b[i:i + 4], "little")
                i += 4
            if n & 2:
                spec["width"] = int.from_bytes(b[i:i + 2], "little")
                i += 2
            if n & 4:
                spec["precision"] = int.from_bytes(b[i:i + 2], "little")
                i += 2
            if n & 8:
                idx = int.from_bytes(b[i:i + 2], "little")
                i += 2
            out.append(("arg", idx, spec))
            nxt = idx + 1
        else:
            return None
    return None


def zero_padded_width(spec):
    """the fixed width a placeholder pads to with zeros (`{:09}`), else None"""
    if spec["width"] is None or spec["width_arg"]:
        return None
    if spec["flags"] is None or not spec["flags"] & ZERO_PAD:
        return None
    return spec["width"]


def _template_of(body, op, depth=0):
    c = flow.const_of(body, op)
    if c is not None and c.get("c") == "bstr" and "hex" in c:
        return c["hex"]
    return None


def arguments_calls(body):
    """every `Arguments::new(template, &[args])` of the body -> list of dicts {bi, pieces, args:[(kind, operand-of-the-formatted-value, bi of the
    Argument::new_* call)]}; `args` follows the array order"""
    out = []
    body.defs()
    for bi, t in body.calls():
        d = callee_def(t)
        if not (d.startswith("core::fmt::Arguments::") and d.endswith("::new")) or len(t["args"]) != 2:
            continue
        hx = _template_of(body, t["args"][0])
        pieces = decode(hx) if hx else None
        arr = _array_of(body, t["args"][1])
        args = [_argument(body, o) for o in arr] if arr is not None else []
        out.append({"bi": bi, "pieces": pieces, "args": args, "term": t})
    return out


def _array_of(body, op, depth=0):
    """operands of the array literal `op` refers to"""
    p = flow.op_place(op)
    if p is None or depth > 8:
        return None
    df = flow.single_def(body, p["l"])
    if df is None or df["kind"] != "assign" or df.get("proj"):
        return None
    rv = df["rv"]
    if rv["k"] == "agg" and rv.get("agg") == "array":
        return rv["ops"]
    if rv["k"] in ("use", "ref", "cast") and rv.get("ops"):
        return _array_of(body, rv["ops"][0], depth + 1)
    return None


def _argument(body, op, depth=0):
    """(kind, value operand, bi) of one element of the args array: the `Argument::new_display(&x)` call that made it"""
    p = flow.op_place(op)
    if p is None or depth > 6:
        return (None, None, None)
    for df in body.defs().get(p["l"], []):
        if df["kind"] == "call":
            d = callee_def(df["term"])
            if "fmt::rt::Argument" in d:
                kind = d.rsplit("::", 1)[-1]
                return (kind, df["term"]["args"][0] if df["term"]["args"] else None, df["bi"])
        elif df["kind"] == "assign" and df["rv"]["k"] in ("use", "cast") and not df["proj"]:
            return _argument(body, df["rv"]["ops"][0], depth + 1)
    return (None, None, None)
