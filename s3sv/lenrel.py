"""Relational "index <= length of that buffer" reasoning over MIR facts (C04.R5: discharges slicing / split / advance sites).

A *buffer key* is the place a slice / str / Vec / Bytes view is taken from: (root local, field names).  `le_len(op, key)` proves that
the value of operand `op` at a program point is <= (or <) the length of the buffer at that point, from

  * library contracts, recorded in PRODUCERS: `memchr(_, hay)` / items of `memchr_iter(_, hay)` are < hay.len(); `partition_point` is <= len;
    the consumed count of `from_radix_10_checked(s)` and of a complete `httparse::parse_headers(buf, _)` is <= len;
  * arithmetic: min(x, len) <= len; x.saturating_sub(k) <= x; x < len => x + 1 <= len; x <= len and x >= k => x - k <= len - k;
  * dominating tests: `x <= buf.len()`, `buf.len() >= k`, `buf.starts_with(literal)`, slice patterns (`[x, ..]` is a length test in MIR);

and that the buffer is not written between the point where the fact was established and the use (flow-sensitive).
Anything it cannot prove is left to the reviewed table; it never assumes.
"""
from . import flow, guards
from .facts import callee_def, short

VIEWS = ("::deref::Deref::deref", "::deref::DerefMut::deref_mut", "::convert::AsRef::as_ref", "::convert::AsMut::as_mut", "::borrow::Borrow::borrow",
         "::as_slice", "::as_bytes", "::as_str", "::as_mut_slice", "<impl str>::as_bytes", "::chunk")
LEN_FNS = ("core::slice::<impl [T]>::len", "core::str::<impl str>::len", "alloc::vec::Vec::<T, A>::len", "alloc::string::String::len", "bytes::bytes::Bytes::len",
           "bytes::buf::buf_impl::Buf::remaining", "bytes::bytes_mut::BytesMut::len")
# callee -> (index of the haystack argument, strict?, how the index is read off the result)
PRODUCERS = {
    "memchr::memchr::memchr": (1, True, "payload"),
    "memchr::memchr::memrchr": (1, True, "payload"),
    "memchr::memchr::memchr2": (2, True, "payload"),
    "memchr::memchr::memchr_iter": (1, True, "items"),
    "memchr::memmem::find": (0, True, "payload"),
    "core::slice::<impl [T]>::partition_point": (0, False, "value"),
    "core::str::<impl str>::find": (0, True, "payload"),
    "core::slice::<impl [T]>::iter::position": (0, True, "payload"),
    "atoi::FromRadix10Checked::from_radix_10_checked": (0, False, "field1"),
    "atoi::FromRadix10::from_radix_10": (0, False, "field1"),
    "httparse::parse_headers": (0, False, "complete0"),
}
MAX_DEPTH = 24


class Point:
    __slots__ = ("bi", "si")

    def __init__(self, bi, si=None):
        self.bi, self.si = bi, si      # si None = at the terminator


def _is_view(d):
    return any(d.endswith(v) for v in VIEWS)


class LenRel:
    def __init__(self, db, iv):
        self.db = db
        self.iv = iv

    # ------------------------------------------------------------------ reaching definitions
    def reaching(self, b, l, pt):
        """definitions of local l (as a whole) that reach program point pt: list of ('stmt', bi, si, st) | ('call', bi, term) | ('param',)"""
        out = []
        seen = set()
        # inside the block, before pt
        blk = b.blocks[pt.bi]
        upto = len(blk["stmts"]) if pt.si is None else pt.si
        for si in range(upto - 1, -1, -1):
            st = blk["stmts"][si]
            if st["dst"]["l"] == l and not st["dst"]["proj"]:
                return [("stmt", pt.bi, si, st)]
        work = [p for p, _ in b.preds().get(pt.bi, [])]
        if pt.bi == 0 and 1 <= l <= b.argc:
            out.append(("param",))
        while work:
            x = work.pop()
            if x in seen:
                continue
            seen.add(x)
            bl = b.blocks[x]
            t = bl["term"]
            if t["k"] == "call" and t["dst"]["l"] == l and not t["dst"]["proj"]:
                out.append(("call", x, t))
                continue
            found = False
            for si in range(len(bl["stmts"]) - 1, -1, -1):
                st = bl["stmts"][si]
                if st["dst"]["l"] == l and not st["dst"]["proj"]:
                    out.append(("stmt", x, si, st))
                    found = True
                    break
            if found:
                continue
            if x == 0:
                if 1 <= l <= b.argc:
                    out.append(("param",))
                continue
            work.extend(p for p, _ in b.preds().get(x, []))
        return out

    def one_def(self, b, l, pt):
        ds = self.reaching(b, l, pt)
        return ds[0] if len(ds) == 1 else None

    # ------------------------------------------------------------------ buffer keys
    def key_of(self, b, op, pt, depth=0):
        """(root local, field names) of the buffer an operand is a view of"""
        p = flow.op_place(op)
        if p is None or depth > MAX_DEPTH:
            return None
        proj = flow.norm_proj(p["proj"])
        if any(e[0] not in ("f",) for e in proj):
            return None
        fields = tuple(e[2] for e in proj)
        l = p["l"]
        if fields or (1 <= l <= b.argc and not b.defs().get(l)):
            # a field path: the root must itself be a plain pointer / owner local; follow it when it is a single reaching copy / reference
            d = self.one_def(b, l, pt)
            if d is not None and d[0] == "stmt" and d[3]["rv"]["k"] in ("use", "ref", "rawptr") and not (1 <= l <= b.argc):
                k = self.key_of(b, d[3]["rv"]["ops"][0], Point(d[1], d[2]), depth + 1)
                if k is not None:
                    return (k[0], k[1] + fields)
            return (l, fields)
        d = self.one_def(b, l, pt)
        if d is None or d[0] == "param":
            return (l, ())
        if d[0] == "stmt":
            rv = d[3]["rv"]
            if rv["k"] in ("use", "ref", "rawptr", "cast"):
                return self.key_of(b, rv["ops"][0], Point(d[1], d[2]), depth + 1) or (l, ())
            return (l, ())
        t = d[2]
        if _is_view(callee_def(t)) and t["args"]:
            return self.key_of(b, t["args"][0], Point(d[1], None), depth + 1)
        return (l, ())

    def _kills(self, b, key):
        """program points that may write the buffer: list of (bi, si | None)"""
        out = []
        for bi in b.live_blocks():
            bl = b.blocks[bi]
            for si, st in enumerate(bl["stmts"]):
                d = st["dst"]
                if d["l"] == key[0]:
                    f = tuple(e[2] for e in flow.norm_proj(d["proj"]) if e[0] == "f")
                    n = min(len(f), len(key[1]))
                    if f[:n] == key[1][:n]:
                        out.append((bi, si))
            t = bl["term"]
            if t["k"] == "call":
                if t["dst"]["l"] == key[0]:
                    out.append((bi, None))
                for df in b.defs().get(key[0], []):
                    if df["kind"] == "mutarg" and df["bi"] == bi and not _is_view(callee_def(t)):
                        f = tuple(e[2] for e in flow.norm_proj(df.get("proj", [])) if e[0] == "f")
                        n = min(len(f), len(key[1]))
                        if f[:n] == key[1][:n]:
                            out.append((bi, None))
        return out

    def unchanged(self, b, key, a, u):
        """no write to the buffer on any path from point a (where a fact was established) to point u (the use); conservative"""
        kills = self._kills(b, key)
        if not kills:
            return True
        INF = 10 ** 9

        def pos(si):
            return INF if si is None else si
        pa, pu = pos(a.si), pos(u.si)
        cache = {}

        def reach_from(x, avoid_a=False):
            # (a path that passes through a's block again re-establishes the fact there: only paths avoiding it matter after a kill)
            k2 = (x, avoid_a)
            if k2 not in cache:
                cache[k2] = flow.reach(b, [tb for _, tb in b.succ_edges(x)], stop_blocks=frozenset([a.bi]) if avoid_a else frozenset())
            return cache[k2]
        straight = a.bi == u.bi and pa < pu
        for kb, ks in kills:
            pk = pos(ks)
            if kb == a.bi and kb == u.bi:
                if straight:
                    if pa < pk < pu:
                        return False
                elif pk > pa or pk < pu:
                    return False
            elif kb == a.bi:
                if pk > pa or (pk == pa == INF):
                    if u.bi in reach_from(kb, True):
                        return False
            elif kb == u.bi:
                if pk < pu:
                    return False
            else:
                if straight:
                    continue
                if kb in reach_from(a.bi) and u.bi in reach_from(kb, True):
                    return False
        return True

    # ------------------------------------------------------------------ value <= len(key)
    def is_len_of(self, b, op, key, pt, depth=0):
        """operand is the length of the buffer (len() / PtrMetadata of a view of it)"""
        p = flow.op_place(op)
        if p is None or p["proj"] or depth > MAX_DEPTH:
            return False
        d = self.one_def(b, p["l"], pt)
        if d is None or d[0] == "param":
            return False
        if d[0] == "stmt":
            rv = d[3]["rv"]
            at = Point(d[1], d[2])
            if rv["k"] == "use":
                return self.is_len_of(b, rv["ops"][0], key, at, depth + 1)
            if rv["k"] == "un" and rv.get("op") == "PtrMetadata":
                return self.key_of(b, rv["ops"][0], at) == key and self.unchanged(b, key, at, pt)
            return False
        t = d[2]
        if callee_def(t) in LEN_FNS and t["args"]:
            at = Point(d[1], None)
            return self.key_of(b, t["args"][0], at) == key and self.unchanged(b, key, at, pt)
        return False

    def le_len(self, b, op, key, pt, strict=False, depth=0):
        """reason (str) why value(op) <= len(key) (< when strict) at pt, or None"""
        if depth > MAX_DEPTH:
            return None
        c = self.iv.op(b, op, pt.bi) if not isinstance(op, dict) or "c" in op else None
        if isinstance(op, dict) and "c" in op:
            if c in (None, "empty"):
                return None
            lo = self.len_lower(b, key, pt)
            need = c[1] + (1 if strict else 0)
            return "constant %d within the tested length (>= %d)" % (c[1], lo) if lo >= need else None
        p = flow.op_place(op)
        if p is None:
            return None
        why = self._by_guard(b, op, key, pt, strict)
        if why:
            return why
        proj = flow.norm_proj(p["proj"])
        d = None
        if not proj:
            d = self.one_def(b, p["l"], pt)
        if len(proj) == 1 and proj[0][0] == "f" and proj[0][1] == 0:
            # `.0` of a checked-arithmetic pair
            d0 = self.one_def(b, p["l"], pt)
            if d0 is not None and d0[0] == "stmt" and d0[3]["rv"]["k"] == "bin" and "WithOverflow" in d0[3]["rv"]["op"]:
                return self._arith(b, d0[3]["rv"], Point(d0[1], d0[2]), key, pt, strict, depth)
        if not proj and d is not None and d[0] != "param":
            pass
        if proj or d is None or d[0] == "param":
            # a constant-bounded value against a tested length
            r = self.iv.op(b, op, pt.bi)
            if r not in (None, "empty"):
                lo = self.len_lower(b, key, pt)
                if lo >= r[1] + (1 if strict else 0):
                    return "value range %s within the tested length (>= %d)" % (r, lo)
            if proj:
                return self._producer_projection(b, p, key, pt, strict)
            return None
        if d[0] == "stmt":
            rv = d[3]["rv"]
            at = Point(d[1], d[2])
            if rv["k"] in ("use", "cast"):
                r = self.le_len(b, rv["ops"][0], key, at, strict, depth + 1)
                return r if r and self.unchanged(b, key, at, pt) else None
            if rv["k"] == "un" and rv.get("op") == "PtrMetadata":
                if not strict and self.key_of(b, rv["ops"][0], at) == key and self.unchanged(b, key, at, pt):
                    return "the length itself"
                return None
            if rv["k"] == "bin":
                return self._arith(b, rv, at, key, pt, strict, depth)
                return None
            return None
        # call result
        t = d[2]
        cd = callee_def(t)
        at = Point(d[1], None)
        sh = short(cd)
        args = t["args"]
        if cd in LEN_FNS and args:
            if not strict and self.key_of(b, args[0], at) == key and self.unchanged(b, key, at, pt):
                return "the length itself"
            return None
        if sh == "min" and len(args) == 2 and ("cmp::Ord::min" in cd or "core::cmp::min" in cd) and not strict:
            for a in args:
                if self.is_len_of(b, a, key, at) and self.unchanged(b, key, at, pt):
                    return "min(_, len)"
            for a in args:
                r = self.le_len(b, a, key, at, strict, depth + 1)
                if r and self.unchanged(b, key, at, pt):
                    return "min with (%s)" % r
            return None
        if sh == "saturating_sub" and "core::num::" in cd and args:
            r = self.le_len(b, args[0], key, at, False, depth + 1)
            if r and self.unchanged(b, key, at, pt):
                k = self.iv.op(b, args[1], at.bi)
                if not strict or (k not in (None, "empty") and k[0] >= 1 and self.len_lower(b, key, pt) >= 1):
                    return "%s, saturating_sub" % r
            return None
        if sh in ("wrapping_add", "saturating_add") and "core::num::" in cd and len(args) == 2 and not strict:
            k = self.iv.op(b, args[1], at.bi)
            if k == (1, 1):
                r = self.le_len(b, args[0], key, at, True, depth + 1)
                return ("%s, so +1 <= len" % r) if r and self.unchanged(b, key, at, pt) else None
            if k not in (None, "empty") and k[0] == k[1] and k[0] >= 1:
                return self._needle_end(b, args[0], k[0], key, at, pt)
            return None
        if sh == "wrapping_sub" and "core::num::" in cd and len(args) == 2:
            k = self.iv.op(b, args[1], at.bi)
            x = self.iv.op(b, args[0], at.bi)
            if k not in (None, "empty") and x not in (None, "empty") and k[0] == k[1] and x[0] >= k[1]:
                r = self.le_len(b, args[0], key, at, False, depth + 1)
                if r and self.unchanged(b, key, at, pt) and (not strict or k[0] >= 1):
                    return "%s, minus %d (no wrap: value >= %d)" % (r, k[0], x[0])
            return None
        if cd in PRODUCERS and PRODUCERS[cd][2] == "value":
            hay, st_, _ = PRODUCERS[cd]
            if hay < len(args) and self.key_of(b, args[hay], at) == key and (st_ or not strict) and self.unchanged(b, key, at, pt):
                return "%s returns at most the length of its slice" % sh
            return None
        return None

    def _arith(self, b, rv, at, key, pt, strict, depth):
        op_ = rv["op"].replace("WithOverflow", "").replace("Unchecked", "")
        k = self.iv.op(b, rv["ops"][1], at.bi)
        if op_ == "Add" and k == (1, 1) and not strict:
            r = self.le_len(b, rv["ops"][0], key, at, True, depth + 1)
            return ("%s, so +1 <= len" % r) if r and self.unchanged(b, key, at, pt) else None
        if op_ == "Add" and k not in (None, "empty") and k[0] == k[1] and k[0] >= 1 and not strict:
            r = self._needle_end(b, rv["ops"][0], k[0], key, at, pt)
            if r:
                return r
        if op_ == "Sub" and k not in (None, "empty") and k[0] >= 0 and k[0] == k[1]:
            x = self.iv.op(b, rv["ops"][0], at.bi)
            if x not in (None, "empty") and x[0] >= k[1]:
                # x <= len and x >= k  =>  x - k <= len - k  (so < len when k >= 1)
                r = self.le_len(b, rv["ops"][0], key, at, strict and k[0] == 0, depth + 1)
                return ("%s, minus %d (no wrap: value >= %d)" % (r, k[0], x[0])) if r and self.unchanged(b, key, at, pt) else None
        return None

    def _needle_end(self, b, op, k, key, at, pt):
        """`idx + k <= len` where idx is the position at which `memmem::find(buf, needle)` / `str::find(needle)` found a constant needle of
        length >= k"""
        p = flow.op_place(op)
        if p is None:
            return None
        src = self._origin(b, p, at)
        if src is None:
            return None
        (cbi, t), via_next, names = src
        cd = callee_def(t)
        if cd not in ("memchr::memmem::find", "core::str::<impl str>::find") or via_next or names != ["Some", "0"] or len(t["args"]) < 2:
            return None
        cat = Point(cbi, None)
        if self.key_of(b, t["args"][0], cat) != key or not self.unchanged(b, key, cat, pt):
            return None
        c = flow.const_of(b, t["args"][1])
        if c is None or c.get("c") not in ("str", "bstr"):
            return None
        n = len(c["v"].encode("utf-8", "surrogateescape")) if isinstance(c["v"], str) else len(c["v"])
        return ("%s found a needle of %d bytes at that position, so +%d <= len" % (short(cd), n, k)) if n >= k else None

    def _producer_projection(self, b, p, key, pt, strict):
        """`(x as Some).0`, `x.1`, `((x as Ok).0 as Complete).0.0` ... where x comes from a PRODUCERS call on the buffer (the projection may be
        spread over several copies)"""
        src = self._origin(b, p, pt)
        if src is None:
            return None
        (cbi, t), via_next, names = src
        cd = callee_def(t)
        if cd not in PRODUCERS:
            return None
        hay, st_, how = PRODUCERS[cd]
        if strict and not st_:
            return None
        at = Point(cbi, None)
        if hay >= len(t["args"]) or self.key_of(b, t["args"][hay], at) != key or not self.unchanged(b, key, at, pt):
            return None
        ok = False
        if how == "payload" and not via_next:
            ok = names == ["Some", "0"]
        elif how == "items" and via_next:
            ok = names == ["Some", "0"]
        elif how == "field1" and not via_next:
            ok = names == ["1"]
        elif how == "complete0" and not via_next:
            ok = names in (["Complete", "0", "0"], ["Ok", "0", "Complete", "0", "0"], ["Continue", "0", "Complete", "0", "0"])
        elif how == "value" and not via_next:
            ok = names == []
        return ("%s on the same buffer yields positions %s its length" % (short(cd), "below" if st_ else "up to")) if ok else None

    def _origin(self, b, p, pt):
        """(call site, came through Iterator::next?, projection names applied to the call's result) for the value read from place p, looking
        through copies (which may each apply part of the projection), `?`, into_iter and next()"""
        via_next = False
        names = [e.get("n") for e in p["proj"] if isinstance(e, dict) and e.get("n") is not None]
        l = p["l"]
        for _ in range(MAX_DEPTH):
            d = self.one_def(b, l, pt)
            if d is None or d[0] == "param":
                return None
            if d[0] == "stmt":
                rv = d[3]["rv"]
                if rv["k"] in ("use", "ref") and flow.op_place(rv["ops"][0]) is not None:
                    q = flow.op_place(rv["ops"][0])
                    if any(isinstance(e, dict) and ("idx" in e or "cidx" in e) for e in q["proj"]):
                        return None
                    names = [e.get("n") for e in q["proj"] if isinstance(e, dict) and e.get("n") is not None] + names
                    l, pt = q["l"], Point(d[1], d[2])
                    continue
                return None
            t = d[2]
            cd = callee_def(t)
            if cd in PRODUCERS:
                return (d[1], t), via_next, names
            if cd.endswith("iterator::Iterator::next") and t["args"] and not via_next and not names[:-2]:
                via_next = True
            elif cd.endswith("ops::try_trait::Try::branch") and names[:2] == ["Continue", "0"]:
                names = names[2:]
            elif not (cd.endswith("IntoIterator::into_iter") and via_next):
                return None
            q = flow.op_place(t["args"][0]) if t["args"] else None
            if q is None or [e for e in q["proj"] if e != "*"]:
                return None
            l, pt = q["l"], Point(d[1], None)
        return None

    # ------------------------------------------------------------------ facts from dominating tests
    def len_lower(self, b, key, pt):
        """largest k such that a dominating test establishes len(key) >= k at pt"""
        lo = 0
        try:
            facts = guards.dominating_facts(b, pt.bi)
        except Exception:
            return 0
        for f in facts:
            if f[0] == "call" and f[2] is True and short(f[1]) == "starts_with" and f[1].startswith(("core::slice::", "core::str::", "bytes::")):
                t = b.blocks[f[3]]["term"]
                at = Point(f[3], None)
                if len(t["args"]) == 2 and self.key_of(b, t["args"][0], at) == key and self.unchanged(b, key, at, pt):
                    c = flow.const_of(b, t["args"][1])
                    if c is not None and c.get("c") in ("str", "bstr"):
                        lo = max(lo, len(c["v"].encode("utf-8", "surrogateescape")) if isinstance(c["v"], str) else len(c["v"]))
            elif f[0] == "call" and f[2] is False and short(f[1]) in ("is_empty",) and f[1].startswith(("core::slice::", "core::str::", "bytes::", "alloc::vec::", "alloc::string::")):
                # `!buf.is_empty()`
                t = b.blocks[f[3]]["term"]
                at = Point(f[3], None)
                if t["args"] and self.key_of(b, t["args"][0], at) == key and self.unchanged(b, key, at, pt):
                    lo = max(lo, 1)
            elif f[0] == "enum" and f[2] == frozenset({"Some"}) and not f[3][1]:
                # `buf.first()` / `last()` / `split_first()` / `split_last()` returned Some: the buffer has an element
                l = f[3][0]
                for _ in range(6):
                    ds = [d for d in b.defs().get(l, []) if d["kind"] != "mutarg"]
                    if len(ds) != 1:
                        break
                    d = ds[0]
                    if d["kind"] == "assign" and d["rv"]["k"] == "use" and flow.op_place(d["rv"]["ops"][0]) is not None and not flow.op_place(d["rv"]["ops"][0])["proj"]:
                        l = flow.op_place(d["rv"]["ops"][0])["l"]
                        continue
                    if d["kind"] == "call":
                        cd = callee_def(d["term"])
                        if short(cd) in ("first", "last", "split_first", "split_last") and cd.startswith("core::slice::") and d["term"]["args"]:
                            at = Point(d["bi"], None)
                            if self.key_of(b, d["term"]["args"][0], at) == key and self.unchanged(b, key, at, pt):
                                lo = max(lo, 1)
                    break
            elif f[0] == "cmp":
                for si, st in enumerate(b.blocks[f[3]]["stmts"]):
                    rv = st["rv"]
                    if rv["k"] != "bin" or rv["op"] != f[1]:
                        continue
                    at = Point(f[3], si)
                    for i in (0, 1):
                        if self.is_len_of(b, rv["ops"][i], key, at) and self.unchanged(b, key, at, pt):
                            o = self.iv.op(b, rv["ops"][1 - i], f[3])
                            if o in (None, "empty"):
                                continue
                            op = rv["op"]
                            val = f[2]
                            if i == 1:
                                op = {"Lt": "Gt", "Le": "Ge", "Gt": "Lt", "Ge": "Le"}.get(op, op)
                            if not val:
                                op = {"Lt": "Ge", "Le": "Gt", "Gt": "Le", "Ge": "Lt", "Eq": "Ne", "Ne": "Eq"}[op]
                            if op == "Ge":
                                lo = max(lo, o[0])
                            elif op == "Gt":
                                lo = max(lo, o[0] + 1)
                            elif op == "Eq":
                                lo = max(lo, o[0])
                            elif op == "Ne" and o == (0, 0):
                                lo = max(lo, 1)
        return lo

    def _by_guard(self, b, op, key, pt, strict):
        """a dominating comparison between this very value and the buffer's length"""
        try:
            facts = guards.dominating_facts(b, pt.bi)
        except Exception:
            return None
        me = self._value_root(b, op, pt)
        if me is None:
            return None
        for f in facts:
            if f[0] != "cmp":
                continue
            for si, st in enumerate(b.blocks[f[3]]["stmts"]):
                rv = st["rv"]
                if rv["k"] != "bin" or rv["op"] != f[1]:
                    continue
                at = Point(f[3], si)
                for i in (0, 1):
                    if not self.is_len_of(b, rv["ops"][i], key, at):
                        continue
                    other = self._value_root(b, rv["ops"][1 - i], at)
                    if other is None or other != me or not self._value_unchanged(b, me, at, pt) or not self.unchanged(b, key, at, pt):
                        continue
                    op_ = rv["op"]
                    if i == 0:      # len OP x  ->  x OP' len
                        op_ = {"Lt": "Gt", "Le": "Ge", "Gt": "Lt", "Ge": "Le"}.get(op_, op_)
                    if not f[2]:
                        op_ = {"Lt": "Ge", "Le": "Gt", "Gt": "Le", "Ge": "Lt", "Eq": "Ne", "Ne": "Eq"}[op_]
                    if op_ == "Lt" or (op_ in ("Le", "Eq") and not strict):
                        return "dominated by the test `value %s len`" % {"Lt": "<", "Le": "<=", "Eq": "=="}[op_]
        return None

    def _value_root(self, b, op, pt):
        """(local, fields) the value is a plain copy of, following single reaching copies"""
        p = flow.op_place(op)
        if p is None:
            return None
        l, fields = p["l"], tuple(e[2] for e in flow.norm_proj(p["proj"]) if e[0] == "f")
        if any(e[0] not in ("f",) for e in flow.norm_proj(p["proj"])):
            return None
        for _ in range(MAX_DEPTH):
            if fields:
                return (l, fields)
            d = self.one_def(b, l, pt)
            if d is None or d[0] != "stmt" or d[3]["rv"]["k"] != "use":
                return (l, ())
            q = flow.op_place(d[3]["rv"]["ops"][0])
            if q is None or any(e[0] not in ("f",) for e in flow.norm_proj(q["proj"])):
                return (l, ())
            l, fields, pt = q["l"], tuple(e[2] for e in flow.norm_proj(q["proj"]) if e[0] == "f"), Point(d[1], d[2])
        return (l, fields)

    def _value_unchanged(self, b, root, a, u):
        return self.unchanged(b, root, a, u)
