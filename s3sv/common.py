"""Shared helpers for the generated-code rules (C02/C03/C04/C13)."""
import glob
import os
import re

from . import extract, flow
from .facts import callee_def, short
from .report import AnchorMissing

_STD_HEADERS = None


def std_headers():
    """const name -> wire name from the `standard_headers!` table of the http crate version(s) pinned in Cargo.lock"""
    global _STD_HEADERS
    if _STD_HEADERS is not None:
        return _STD_HEADERS
    lock = open(os.path.join(extract.REPO, "Cargo.lock")).read()
    vers = re.findall(r'name = "http"\nversion = "([^"]+)"', lock)
    out = {}
    home = os.environ.get("CARGO_HOME", os.path.expanduser("~/.cargo"))
    for v in vers:
        for p in glob.glob(os.path.join(home, "registry", "src", "*", "http-%s" % v, "src", "header", "name.rs")):
            for m in re.finditer(r'\(\s*(\w+),\s*(\w+),\s*b"([^"]+)"\s*\);', open(p).read()):
                out.setdefault(m.group(2), m.group(3))
    if not out:
        raise AnchorMissing("could not read the http crate's standard header table from the cargo registry")
    _STD_HEADERS = out
    return out


def header_value(db, const_op):
    """wire name of a HeaderName constant operand ({'c':'item','def':...}) or of a string literal"""
    if const_op is None:
        return None
    if const_op.get("c") in ("str", "bstr"):
        return const_op["v"].lower()
    if const_op.get("c") != "item":
        return None
    d = const_op["def"]
    if d.startswith("s3s::"):
        v = db.const_str(d)
        if v and len(v) == 1:
            return v[0]
        return None
    if d.startswith("http::header::name::") or d.startswith("http::header::") or d.startswith("hyper::header::"):
        return std_headers().get(short(d))
    return None


def header_const_of_arg(db, body, arg):
    c = flow.const_of(body, arg)
    return header_value(db, c), c


def enum_const_variant(body, arg):
    """variant name of a fieldless-enum constant argument (e.g. TimestampFormat::HttpDate)"""
    p = arg.get("p") if isinstance(arg, dict) else None
    cur = arg
    for _ in range(8):
        if not isinstance(cur, dict):
            return None
        if "c" in cur:
            return None
        df = flow.single_def(body, cur["p"]["l"])
        if df is None or df["kind"] != "assign":
            return None
        rv = df["rv"]
        if rv["k"] == "agg" and rv.get("agg") == "adt":
            return rv["variant"]
        if rv["k"] in ("use", "ref", "cast"):
            cur = rv["ops"][0]
            continue
        return None
    return None


def generic_args(t):
    """generic arguments of a call as a list of type strings (top-level split)"""
    s = t["callee"].get("args", "[]").strip()
    if s.startswith("["):
        s = s[1:-1]
    out, depth, cur = [], 0, ""
    for ch in s:
        if ch in "<([":
            depth += 1
        elif ch in ">)]":
            depth -= 1
        if ch == "," and depth == 0:
            out.append(cur.strip())
            cur = ""
        else:
            cur += ch
    if cur.strip():
        out.append(cur.strip())
    return out


TS_FORMAT = {"date-time": "DateTime", "http-date": "HttpDate", "epoch-seconds": "EpochSeconds"}

# string shapes that s3s deliberately gives a typed Rust wrapper (codegen/src/v1/dto.rs: patch_types / type aliases)
TYPED_STRING_SHAPES = {"ContentType": "mime::Mime", "CopySource": "s3s::dto::copy_source::CopySource", "Range": "s3s::dto::range::Range"}

RUST_KIND = {"string": "alloc::string::String", "integer": "i32", "long": "i64", "boolean": "bool"}


def rust_type_ok(member, ty):
    """does Rust type string `ty` have the kind of the member's target shape?"""
    k = member.target_type
    ty = ty.strip()
    if k == "string" and member.target_name in TYPED_STRING_SHAPES:
        return ty == TYPED_STRING_SHAPES[member.target_name]
    if k in RUST_KIND:
        return ty == RUST_KIND[k]
    if k == "enum":
        return ty == "s3s::dto::generated::" + member.target_name
    if k == "timestamp":
        return ty == "s3s::dto::timestamp::Timestamp"
    if k in ("structure", "union"):
        return short(ty) == member.target_name or ty.startswith("s3s::dto::")
    return True


def find_aggregates(body, adt):
    out = []
    for bi, si, st in body.stmts():
        rv = st["rv"]
        if rv["k"] == "agg" and rv.get("agg") == "adt" and rv.get("adt") == adt:
            out.append((bi, st))
    return out
