"""Independent reader of the Smithy model in /repo/data (oracle 1 of DESIGN.md 2.3).

Written from the Smithy 2.0 / restXml specifications; it does not import or port codegen/.
"""
import json
import os
import re
import urllib.parse

from . import extract

NS = "com.amazonaws.s3#"
T = "smithy.api#"

# ---- deviation table (DESIGN.md appendix D.1): where s3s intentionally differs from the model ---------------
SKIPPED_OPS = {"CreateSession", "ListDirectoryBuckets"}          # codegen/src/v1/ops.rs SKIPPED_OPS
STATUS_OVERRIDE = {"PutBucketPolicy": 204}                        # smithy-rs discussion 2308
OUTPUT_SHAPE_ALIAS = {"GetBucketNotificationConfiguration": "NotificationConfiguration"}
STS_NAMES = ["AssumeRoleRequest", "AssumeRoleResponse", "AssumedRoleUser", "Credentials", "PolicyDescriptorType",
             "ProvidedContext", "Tag"]


def snake(name):
    s = re.sub(r"([a-z0-9])([A-Z])", r"\1_\2", name)
    s = re.sub(r"([A-Z]+)([A-Z][a-z])", r"\1_\2", s)
    return s.lower()


def field_key(name):
    """comparison key between a Smithy member name and a Rust field name"""
    return name.lower().replace("_", "")


class Member:
    def __init__(self, model, owner, name, raw):
        self.model = model
        self.owner = owner
        self.name = name
        self.raw = raw
        self.traits = raw.get("traits", {})
        self.target = raw["target"]

    def t(self, name, default=None):
        return self.traits.get(T + name, default)

    def has(self, name):
        return (T + name) in self.traits

    @property
    def target_shape(self):
        return self.model.shapes.get(self.target)

    @property
    def target_name(self):
        return self.target.split("#")[1]

    @property
    def target_type(self):
        if self.target.startswith("smithy.api#"):
            return {"String": "string", "Integer": "integer", "Long": "long", "Boolean": "boolean", "Timestamp": "timestamp",
                    "PrimitiveBoolean": "boolean", "PrimitiveInteger": "integer", "PrimitiveLong": "long", "Unit": "unit",
                    "Blob": "blob", "Double": "double", "Float": "float", "Document": "document"}.get(self.target.split("#")[1], "?")
        return self.target_shape["type"]

    @property
    def required(self):
        return self.has("required")

    @property
    def location(self):
        for k in ("httpLabel", "httpHeader", "httpQuery", "httpPrefixHeaders", "httpPayload", "httpResponseCode", "httpQueryParams"):
            if self.has(k):
                return k
        return "body"

    @property
    def wire_name(self):
        loc = self.location
        if loc in ("httpHeader", "httpQuery", "httpPrefixHeaders"):
            return self.t(loc)
        return self.xml_name

    @property
    def xml_name(self):
        return self.t("xmlName", self.name)

    @property
    def timestamp_format(self):
        f = self.t("timestampFormat")
        if f:
            return f
        ts = self.target_shape
        if ts and ts.get("traits", {}).get(T + "timestampFormat"):
            return ts["traits"][T + "timestampFormat"]
        return None


class Model:
    def __init__(self, repo=None):
        repo = repo or extract.REPO
        with open(os.path.join(repo, "data", "s3.json")) as fh:
            self.raw = json.load(fh)
        self.shapes = self.raw["shapes"]
        try:
            with open(os.path.join(repo, "data", "sts.json")) as fh:
                self.sts = json.load(fh)["shapes"]
        except OSError:
            self.sts = {}

    def shape(self, name):
        return self.shapes.get(NS + name)

    def members(self, shape_name, shapes=None):
        sh = (shapes or self.shapes).get(shape_name if "#" in shape_name else NS + shape_name)
        if sh is None:
            return []
        return [Member(self, shape_name, n, r) for n, r in sh.get("members", {}).items()]

    def operations(self, include_skipped=False):
        out = []
        for k, v in sorted(self.shapes.items()):
            if v["type"] != "operation":
                continue
            name = k.split("#")[1]
            if name in SKIPPED_OPS and not include_skipped:
                continue
            out.append(Operation(self, name, v))
        return out


class Operation:
    def __init__(self, model, name, raw):
        self.model = model
        self.name = name
        self.raw = raw
        h = raw["traits"][T + "http"]
        self.method = h["method"]
        self.uri = h["uri"]
        self.code = STATUS_OVERRIDE.get(name, h.get("code", 200))
        self.model_code = h.get("code", 200)
        self.input = raw["input"]["target"]
        self.output = raw["output"]["target"]
        self.unwrapped_output = "aws.customizations#s3UnwrappedXmlOutput" in raw["traits"]

    @property
    def snake(self):
        return snake(self.name)

    def input_members(self):
        if self.input == "smithy.api#Unit":
            return []
        return self.model.members(self.input)

    def output_members(self):
        if self.output == "smithy.api#Unit":
            return []
        return self.model.members(self.output)

    # ---- routing view (C01) --------------------------------------------------------------------
    @property
    def path_kind(self):
        path = self.uri.split("?", 1)[0]
        if path == "/":
            return "Root"
        segs = [s for s in path[1:].split("/") if s != ""]
        # one segment (a bucket label or, for WriteGetObjectResponse, a literal that occupies the bucket position)
        return "Bucket" if len(segs) == 1 else "Object"

    def query_literals(self):
        if "?" not in self.uri:
            return []
        return urllib.parse.parse_qsl(self.uri.split("?", 1)[1], keep_blank_values=True)

    @property
    def query_tags(self):
        return [k for k, v in self.query_literals() if v == ""]

    @property
    def query_patterns(self):
        return [(k, v) for k, v in self.query_literals() if v != "" and k != "x-id"]

    def required_queries(self):
        return [m.t("httpQuery") for m in self.input_members() if m.has("httpQuery") and m.required]

    def required_headers(self):
        out = []
        for m in self.input_members():
            if m.has("httpHeader") and m.required:
                out.append(m.t("httpHeader").lower())
        return out

    def optional_queries(self):
        return [m.t("httpQuery") for m in self.input_members() if m.has("httpQuery") and not m.required]

    def optional_headers(self):
        return [m.t("httpHeader").lower() for m in self.input_members() if m.has("httpHeader") and not m.required]


_MODEL = None


def load_model(repo=None):
    global _MODEL
    if _MODEL is None or repo:
        _MODEL = Model(repo)
    return _MODEL
